#!/bin/bash
# Re-evaluates every seeded change under /verif/seeded against the current /repo HEAD and the current checks.
cd /verif
declare -A EXTRA=( [C01-2]="C14" [C03-1]="C02" [C03-2]="C18" [C10-2]="C14" [C11-1]="C14" [C11-2]="C12" [C14-1]="C10" [C18-1]="C03" [C09-1]="C12" [C05-1b]="C12" [C12-1b]="C05" [C02-1b]="C11" )
for d in seeded/*/; do
  id=$(basename "$d"); prop=${id%-*}; i=${id#*-}; suffix=${i//[0-9]/}; i=${i//[a-z]/}
  rm -f "$d"/mutant*.diff "$d"/demo[0-9]_test.go "$d"/note[0-9].md
  SEED_SUFFIX=$suffix tools/eval_mutant.sh "$prop" "/verif/seeded/$id" "$i" $prop ${EXTRA[$id]:-} 2>&1 | tail -1
done
