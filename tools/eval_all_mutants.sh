#!/bin/bash
# tools/eval_all_mutants.sh [lane] [lanes]
# Re-evaluates every seeded change under /verif/seeded against the current /repo HEAD and the current checks
# (lane k of n takes every n-th change, so several lanes can run side by side).
cd /verif
LANE=${1:-0}; LANES=${2:-1}
declare -A EXTRA=( [C01-2]="C14" [C03-1]="C02" [C03-2]="C18" [C10-2]="C14" [C11-1]="C14" [C11-2]="C12" [C14-1]="C10" [C18-1]="C03" [C09-1]="C12" [C05-1b]="C12" [C12-1b]="C05" [C02-1b]="C11" [C01-2b]="C18 C03" [C03-1c]="C02" [C19-1]="C05" [C02-1d]="C04 C01" [C16-2d]="C13" [C11-2d]="C19" [C10-2d]="C11" [C09-1c]="C08" [C09-2c]="C08 C05" [C05-1e]="C09 C14" [C03-2e]="C02 C18" [C07-1e]="C03 C14" [C05-2e]="C19" [C11-2e]="C08" [C10-2f]="C11" [C01-2]="C14 C09" [C14-2f]="C09" [C20-2f]="C16" [C10-1f]="C04" [C03-2g]="C12" [C06-1g]="C11" [C09-2g]="C15" [C13-1g]="C14" [C16-1g]="C13 C20" [C11-2g]="C08" [C08-1g]="C11" [C05-2g]="C08" [C10-2g]="C14" [C13-1h]="C16" [C20-1h]="C16" [C20-2h]="C13" [C11-1h]="C16" [C03-1h]="C12" [C16-2h]="C20" [C03-2i]="C04" [C11-2i]="C16" [C01-1i]="C14" )
n=0
for d in seeded/*/; do
  n=$((n+1))
  [ $((n % LANES)) -eq "$LANE" ] || continue
  id=$(basename "$d"); prop=${id%-*}; i=${id#*-}; suffix=${i//[0-9]/}; i=${i//[a-z]/}
  SEED_SUFFIX=$suffix tools/eval_mutant.sh "$prop" "/verif/seeded/$id" "$i" $prop ${EXTRA[$id]:-} 2>&1 | tail -1
done
