#!/usr/bin/env python3
"""Regenerates /verif/MANIFEST.json from the table below (single source of truth for the interface file)."""
import json, subprocess
props=[json.loads(l) for l in open('/verif/properties.jsonl')]
ids=[p['id'] for p in props]

hooks_commit = "c637aec"

# id -> dict(level, text, note, technique, engine, design)
claimed = {
 "C01": dict(level="exploration", engine="diffsim",
   text="Differential monitoring of the real code against an executable sequential specification: every write entry point is applied in every reachable pre-state class (bounded-exhaustive setup x variant x follow-up sequences) and in PRNG-drawn long histories on in-memory and on-disk buckets, with a full read-back through every read entry point before and after every step and a model-free frame rule for failing calls. Exploration is the right level: the property quantifies over unbounded histories and inputs; the monitor decides it on each produced execution.",
   note="Holds on the executions produced (see evidence for counts and the covered (op variant, pre-state, outcome) cells). Trusts: the specification in harness/internal/kv/model.go (DESIGN.md §3, Appendix A), SQLite, the Go runtime. Keys/bodies/xattr names come from small pools plus hostile keys and a MaxDocSize boundary profile.",
   technique="runtime differential monitor: sequential reference model + read-back after every step + frame rule", design="§5 C01"),
 "C05": dict(level="exploration", engine="diffsim",
   text="Observer-agreement monitor evaluated after every step of delete/resurrect-heavy histories: GetRaw/Exists/GetWithXattrs read-back, the live feed event's opcode, the key's Dump-backfill event, and the behaviour of the next insert-style write must all agree on 'has a body'; Delete/Remove xattr/expiry effects and PurgeTombstones (count and contents over all collections) are compared with the model.",
   note="Holds on the executions produced. Expiry-driven deletion is exercised by the C14 check, not here. Trusted: model.go, feed decoding by sg-bucket's DecodeValueWithAllXattrs.",
   technique="runtime monitor: observer agreement (reads, live event, backfill event, next insert) + reference model", design="§5 C05"),
 "C06": dict(level="exploration", engine="diffsim",
   text="Accept-iff-no-body table monitor: every insert-style entry point is applied after every catalogue prefix (including delete/re-create cycles through different entry points) and in random insert-heavy histories; acceptance is compared with the model's 'has a body' / 'exists at all', refusals are checked with the model-free frame rule, successes by read-back.",
   note="Holds on the executions produced; prefixes are bounded (catalogue prefixes up to 3 ops, +1 random op in thorough, random histories of 80-160 steps).",
   technique="runtime differential monitor: accept/refuse oracle + frame rule", design="§5 C06"),
 "C07": dict(level="exploration", engine="diffsim",
   text="Byte-identity monitor for xattrs: after every step every xattr name of the pool is read back; names the call did not mention must be byte-identical to their previous read-back, body and expiry unchanged unless given, fresh values JSON-equivalent, macro expansions equal to the stored CAS / independently computed CRC32-C; failures are injected (stale CAS, missing xattr, oversize with MaxDocSize lowered, unparseable JSON, argument validation) and followed by the frame rule.",
   note="Holds on the executions produced. WithMeta xattr blobs are generated in canonical JSON form (rosmar normalises a verbatim-stored blob on the next xattr write; that JSON-equivalent normalisation is outside the judged envelope, see DESIGN.md §3.12).",
   technique="runtime differential monitor: byte-identity of unnamed xattrs, all-or-nothing frame rule, macro oracle", design="§5 C07"),
 "C11": dict(level="exploration", engine="diffsim",
   text="Isolation-frame monitor on 2 buckets x 3 collections that all hold the same key names: after every operation the same key is re-read in every other collection and bucket and must be byte-identical to its last read-back; feeds of other collections must stay silent and events carry the addressed collection's id; full sweeps periodically; Touch, PurgeTombstones, DropDataStore + re-create in the mix with the drop clauses checked (own documents, design documents and feeds gone, re-created collection empty, everything else untouched).",
   note="Holds on the executions produced. Views and SQL queries per collection are judged by the C12 / C19 checks. DropDataStore is exercised through the bucket's only handle.",
   technique="runtime monitor: isolation frame (read-back of sibling collections/buckets) + feed silence", design="§5 C11"),
 "C17": dict(level="exploration", engine="diffsim",
   text="Revision-counter monitor: after every step the model counter (previous+1 on success, unchanged on failure, 1 on creation / re-creation after purge) is compared through four observers: $document.revid, the revid inside $document, RevNo of the live event and RevNo of the key's backfill event.",
   note="Holds on the executions produced (all mutating entry points x pre-state classes enumerated; random histories).",
   technique="runtime differential monitor over four observers of the revision number", design="§5 C17"),
}

def check(pid, c):
    return {
      "property_id": pid,
      "quick_cmd": f"./check {pid} quick",
      "thorough_cmd": f"./check {pid} thorough",
      "evidence_file": f"/verif/evidence/{pid}.json",
      "replay_cmd_template": f"./check {pid} --replay {{path}}",
      "engine": c["engine"],
      "level_claimed": {"category": c["level"], "text": c["text"], "design_ref": "DESIGN.md " + c["design"]},
      "level_note": c["note"],
      "technique": c["technique"],
    }

pending_reason = "check under construction in this session (design in DESIGN.md); it is claimed once its monitors are built and silent on the unchanged tree"
m = {
 "version": 1,
 "setup_cmd": "./check setup",
 "hooks": {"guard": "verif",
           "enable": "go build -tags verif; the harness module (harness/go.mod) has `replace github.com/couchbaselabs/rosmar => /repo`, so every check rebuilds from /repo's working tree",
           "baseline_off_cmd": "cd /repo && GOFLAGS=-mod=mod GOPROXY=off GOSUMDB=off GOTOOLCHAIN=local go test -json -vet=off -count=1 -timeout 25m ./...",
           "source_commits": [hooks_commit], "add_only": True},
 "engines": [
   {"name": "diffsim", "path": "harness/internal/kv", "serves_properties": ["C01","C02","C05","C06","C07","C08","C09","C11","C12","C14","C17","C18","C19"], "kind_free_text": "sequential differential simulation: real buckets + executable specification + read-back/feed/backfill judges"},
 ],
 "checks": [check(pid, claimed[pid]) for pid in ids if pid in claimed],
 "not_applicable": [{"property_id": pid, "reason": pending_reason} for pid in ids if pid not in claimed],
 "notes": "Technique family: runtime monitoring (oracles over observed executions of the real code; Go race detector as the sanitizer). See DESIGN.md. known_findings.jsonl lists genuine defects (all fixed so far by 'fix:' commits in /repo).",
}
json.dump(m, open('/verif/MANIFEST.json','w'), indent=1)
print("claimed:", [c["property_id"] for c in m["checks"]])
