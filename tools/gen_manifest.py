#!/usr/bin/env python3
"""Regenerates /verif/MANIFEST.json from the table below (single source of truth for the interface file)."""
import json, subprocess
props=[json.loads(l) for l in open('/verif/properties.jsonl')]
ids=[p['id'] for p in props]

hooks_commit = "c637aec"

# id -> dict(level, text, note, technique, engine, design)
claimed = {
 "C01": dict(level="exploration", engine="diffsim",
   text="Differential monitoring of the real code against an executable sequential specification: every write entry point is applied in every reachable pre-state class (bounded-exhaustive setup x variant x follow-up sequences) and in PRNG-drawn long histories on in-memory and on-disk buckets, with a full read-back through every read entry point (GetRaw, Get, Exists, GetExpiry, GetWithXattrs, GetXattrs, virtual xattrs) before and after every step and a model-free frame rule for failing calls; reads through the DataStore a second handle still holds for a dropped collection must report every key missing; GetExpiry must report a body-less key missing like the other reads; expiry offsets of exactly 30 days and collections that share a name across scopes are in the pools. Exploration is the right level: the property quantifies over unbounded histories and inputs; the monitor decides it on each produced execution.",
   note="Holds on the executions produced (see evidence for counts and the covered (op variant, pre-state, outcome) cells). Trusts: the specification in harness/internal/kv/model.go (DESIGN.md §3, Appendix A), SQLite, the Go runtime. Keys/bodies/xattr names come from small pools plus hostile keys and a MaxDocSize boundary profile.",
   technique="runtime differential monitor: sequential reference model + read-back after every step + frame rule", design="§5 C01"),
 "C05": dict(level="exploration", engine="diffsim",
   text="Observer-agreement monitor evaluated after every step of delete/resurrect-heavy histories: GetRaw/Exists/GetWithXattrs read-back, the live feed event's opcode, the key's Dump-backfill event, and the behaviour of the next insert-style write must all agree on 'has a body'; Delete/Remove xattr/expiry effects and PurgeTombstones (count and contents over all collections) are compared with the model.",
   note="Holds on the executions produced. Expiry-driven deletion is exercised by the C14 check, not here. Trusted: model.go, feed decoding by sg-bucket's DecodeValueWithAllXattrs.",
   technique="runtime monitor: observer agreement (reads, live event, backfill event, next insert) + reference model", design="§5 C05"),
 "C06": dict(level="exploration", engine="diffsim",
   text="Accept-iff-no-body table monitor: every insert-style entry point is applied after every catalogue prefix (including delete/re-create cycles through different entry points) and in random insert-heavy histories; acceptance is compared with the model's 'has a body' / 'exists at all', refusals are checked with the model-free frame rule, successes by read-back; zero-length (non-nil) bodies are handed to every insert-style entry point including the body+xattr ones.",
   note="Holds on the executions produced; prefixes are bounded (catalogue prefixes up to 3 ops, +1 random op in thorough, random histories of 80-160 steps).",
   technique="runtime differential monitor: accept/refuse oracle + frame rule", design="§5 C06"),
 "C07": dict(level="exploration", engine="diffsim",
   text="Byte-identity monitor for xattrs: after every step every xattr name of the pool is read back; names the call did not mention must be byte-identical to their previous read-back, body and expiry unchanged unless given, fresh values JSON-equivalent, macro expansions equal to the stored CAS / independently computed CRC32-C (xattr values compared with exact numbers; names where one is a prefix of another); failures are injected (stale CAS, missing xattr, oversize with MaxDocSize lowered, unparseable JSON, argument validation) and followed by the frame rule.",
   note="Holds on the executions produced. WithMeta xattr blobs are generated in canonical JSON form (rosmar normalises a verbatim-stored blob on the next xattr write; that JSON-equivalent normalisation is outside the judged envelope, see DESIGN.md §3.12).",
   technique="runtime differential monitor: byte-identity of unnamed xattrs, all-or-nothing frame rule, macro oracle", design="§5 C07"),
 "C11": dict(level="exploration", engine="diffsim",
   text="Isolation-frame monitor on 2 buckets x 3 collections that all hold the same key names: after every operation the same key is re-read in every other collection and bucket and must be byte-identical to its last read-back; feeds of other collections must stay silent and events carry the addressed collection's id; full sweeps periodically; Touch, PurgeTombstones, DropDataStore + re-create in the mix with the drop clauses checked (own documents, design documents and feeds gone, re-created collection empty, everything else untouched). Non-interference monitor (model-free): two buckets get the same history on one collection, one of them additionally gets traffic on the sibling collections; non-stale views and SQL queries over the first collection must give identical results in both. The non-interference run issues each statement on a sibling collection first. Stale-DataStore monitor: after handle A dropped a collection and created another, 14 kinds of writes issued by handle B through the DataStore it still holds for the dropped collection must leave every other collection's read-back and feeds untouched.",
   note="Holds on the executions produced. Views and SQL queries are compared between a quiet and a busy bucket here, and against their oracles by the C12 / C19 checks. Inside engine A DropDataStore is exercised through the bucket's only handle; what a sibling handle's stale DataStore returns itself is not judged, only what it does to other collections.",
   technique="runtime monitor: isolation frame (read-back of sibling collections/buckets) + feed silence + two-bucket non-interference comparison of views/queries", design="§5 C11"),
 "C17": dict(level="exploration", engine="diffsim",
   text="Revision-counter monitor: after every step the model counter (previous+1 on success, unchanged on failure, 1 on creation / re-creation after purge) is compared through four observers: $document.revid, the revid inside $document, RevNo of the live event (ordinary and KeysOnly feeds) and RevNo of the key's backfill event. Concurrent counter monitor: 2-6 goroutines over 1-3 handles mutate one key through body writes, touches, xattr-only writes, sub-document writes, deletions and re-creations; the final $document.revid must equal the start value plus the number of acknowledged mutations, the RevNo values of the key's live events must increase strictly and end at that number.",
   note="Holds on the executions produced (all mutating entry points x pre-state classes enumerated; random histories; sampled schedules for the concurrent counter).",
   technique="runtime differential monitor over four observers of the revision number + conservation oracle (acknowledged mutations = revision increments) under concurrency", design="§5 C17"),
}

claimed.update({
 "C02": dict(level="exploration", engine="diffsim+linz",
   text="Sequential accept-iff-current table over the ten conditional entry points x pre-state class x CAS class (0, current, stale, never-issued) judged against the model with the frame rule on every rejection; concurrent one-winner races (2-4 conditional writers released together on one version through 1-3 handles, all ordered pairs of entry points: exactly one succeeds, losers fail with a CAS-mismatch class, the final CAS is the winner's); deterministic forced windows: a rival write is committed inside the read-write window of Update / WriteUpdateWithXattrs (from the callback) and WriteSubDoc / SubdocInsert (subdoc.rw hook) and the loop must re-read or, with an explicit CAS, fail.",
   note="Races are sampled schedules (plus hook noise), not all interleavings; the forced windows cover the three read-then-write loops the property names. Also run under the Go race detector.",
   technique="runtime differential monitor + one-winner race oracle + hook-placed rival in the read-write window", design="§5 C02"),
 "C03": dict(level="exploration", engine="linz",
   text="Concurrent histories (3-8 goroutines over 1-3 handles, 1-3 keys + a counter, memory and disk) are recorded at the client boundary with call/return ticks from one atomic counter and unique tokens in every value, and decided per key by porcupine v1.3.0 against a compact sequential model (body, xattrs, CAS, expiry) whose Update / WriteUpdateWithXattrs steps require that the stored value was built on exactly the version the callback saw and whose Touch / GetAndTouchRaw / GetExpiry steps tie a unique expiry to the version that received it; conservation monitors for Incr sums and Update token lists; every workload repeated under the Go race detector.",
   note="Schedules are sampled; a porcupine timeout is inconclusive. Revision numbers are not part of the concurrent model (see C17's concurrent counter); the expiry after a sub-document write is not pinned. Race reports count only when both stacks hold rosmar frames; each signature has one owner property.",
   technique="recorded histories + porcupine linearizability checking + conservation monitors + Go race detector", design="§5 C03"),
 "C04": dict(level="exploration", engine="hlc+linz+crash",
   text="Clock monitor: a HybridLogicalClock built through the verif-only constructor reads scripted clocks (constant, decreasing, saw-tooth, backward jumps, sub-granularity advance, equal runs, zero, near 2^62, random) from 1-64 goroutines: per-caller strict increase, uniqueness, above the seed, real-time order by an n log n sweep; bucket monitor: the same scripts installed into the process-global clock while 3-8 writers hit 2-3 buckets (with buckets opened and old-CAS WithMeta writes mid-run): same checks over casOut across buckets, plus per key: the CAS grows strictly along the order in which the writes were applied (live feeds on every collection, flushed by a sentinel write) the stored CAS is the largest any writer was handed and equals the CAS of the last applied write (Add and Delete, which return no CAS, are in the mix; replicated versions with a CAS ten minutes ahead arrive on the same keys and every later regular write must exceed them); reopen monitor: writer child with the clock an hour ahead (killed at a hook point / closed, optionally after dropping the collection that got the highest CAS, or after WithMeta writes that carry old CAS values into other collections as the last writes), reopening child with the clock an hour behind: every new CAS exceeds every acknowledged one.",
   note="Clock readings bounded to [0, 2^62]. WithMeta writes carry caller-chosen CAS and are excluded by the statement.",
   technique="order/uniqueness checker over recorded timestamps with injected clocks; child-process reopen with rewound clock; race detector", design="§5 C04"),
 "C08": dict(level="exploration", engine="diffsim+linz",
   text="Sequential exactly-once/faithfulness monitor (every write call's buffer is overwritten when the call returns; the earliest-registered feed is ended mid-history; 2-3 live feeds per collection through different handles, one of them KeysOnly and registered first in half the scenarios; a fence write delimits each step's events; every event field compared with the read-back) plus concurrent order monitor (2-8 writers, 2 handles, 2 collections, 2 feeds per collection: after a fence each feed's CAS sequence is strictly increasing and every acknowledged mutation appears exactly once; WithMeta writers take part and the last event per key must be the key's final version), a deterministic commit->post inversion probe at the event.prepost hook, and the race detector.",
   note="Delivery is asserted at a fence (bounded progress, 30 s). TimeReceived, VbNo, Flags, Synchronous and the xattr framing flag are not compared.",
   technique="runtime monitor: event multiset = acknowledged mutations, field equality with read-back, per-feed CAS order; hook-placed inversion probe", design="§5 C08"),
 "C09": dict(level="exploration", engine="diffsim+linz",
   text="Snapshot monitor: Dump feeds from several start CAS values (every fourth KeysOnly) compared with the read-back of every key (markers, CAS order, membership, multiplicity, every field as a live event would carry it, and - where the live feed delivered the same version (CAS, RevNo) - field by field against that live event); join monitor: a backfill+live feed started while 2-6 writers run, with the feed.registered hook parking the starter between backfill and registration; after a fence the newest event per key must be its final version.",
   note="Schedules of the join are sampled; the hook guarantees that the window is entered in every run.",
   technique="runtime differential monitor over backfill events + hook-forced backfill/registration window", design="§5 C09"),
 "C10": dict(level="fault_enumeration", engine="crash",
   text="Crash-point enumeration with real process death: a writer child streams INTENT/ACK lines and is SIGKILLed at the n-th hit of each hook point inside and around the write transaction, inside SQLite's commit (strace-injected SIGKILL at the N-th pwrite64), right after the last ACK, externally while idle, or closes cleanly; a fresh process reopens (both open modes) and dumps everything; oracle: every key equals its last acknowledged read-back, the in-flight key is unchanged or passes the full sequential judge as a completed call, UUID / collections (with the filler documents of admin-created collections: create/fill/drop cycles are killed by strace between the statements of one admin call) / design documents kept, a refused CreateNew before the reopen leaves the bucket intact, so does an open that fails while the file is write-locked from outside beyond the busy timeout, kills are swept over every pwrite64 of bucket creation (what a later open accepts must be a whole bucket), the non-stale view agrees with the surviving documents, CAS after reopen with a rewound clock exceeds all acknowledged CAS, pending and overdue expirations fire after reopen.",
   note="Process death only (page cache survives): power loss / fsync ordering is out of reach. Kills before the bucket was reported open are outside the statement. strace counts pwrite64 per thread, so N selects a crash point only approximately; the oracle does not depend on where the kill landed.",
   technique="fault injection (hook self-kill, strace syscall-level SIGKILL) + reopen in a fresh process + state oracle", design="§5 C10"),
 "C12": dict(level="exploration", engine="diffsim",
   text="View oracle: four map functions with native Go twins evaluated over a KV read-back of every key, sorted with sg-bucket's JSONCollator then id, parameters (key, range, inclusive_end, limit, descending, reduce, group, group_level) applied by an independent implementation; queries at PRNG-chosen points of histories through every entry point (WithMeta writes with CAS above / below / far above the clock, purges, drops), design documents replaced mid-history (by another map function under the same name, or by ones that differ only in reduce functions), design documents and queries issued through alternating handles, and a freshly built identical view cross-checked against the incrementally maintained one.",
   note="Map functions are a fixed family; otto and sg-bucket's collator/reduce are trusted dependencies. limit is not combined with reduce; the `keys` list parameter is not judged.",
   technique="runtime differential monitor: native twin of the map function over a KV read-back + fresh-view cross-check; concurrent histories judged at quiescence + Go race detector", design="§5 C12"),
 "C13": dict(level="exploration", engine="life",
   text="Registry/handle model with every handle probed after every step (closed handles also through feeds, xattr, sub-document, counter and query entry points: all must fail with the bucket-closed error); CloseAndDelete through a leftover handle of the deleted incarnation must not harm a bucket created at the same URL since; after cold-open storms the bucket must be deletable and re-creatable; bounded-exhaustive scripts (all scripts of length 3 quick / 4 thorough over 12 step kinds) plus random scripts of length 30, comparing GetBucketNames, the reference counts (verif-only accessor), the database file's existence and data visibility with the model; concurrent open/close storms with invariants at quiescence, also under the race detector.",
   note="Each on-disk directory is used with one bucket name; CloseAndDelete through a closed handle is exercised only while no other handle of that bucket is open (the clean-up idiom).",
   technique="runtime monitor: lifecycle reference model + probe of every handle after every step + race detector", design="§5 C13"),
 "C14": dict(level="exploration", engine="rt+diffsim+crash",
   text="Real-time monitor: a deadline 2-3 s ahead is introduced through 19 entry points in 14 order classes (the later deadline of another key arrives through Set or through any of the 19 entry points, far Touch included); only reads poll: a read completing before second T that reports the key missing is a violation (sound under load), by T+3 s the tombstone and its deletion event must be there (or, for lengthened/cleared expiries, the document must still be readable), with a scheduler-lateness canary; sweep-race monitor: 1200-1800 documents share a deadline and the target is rewritten / touched while the sweep runs - once acknowledged it must stay readable; deleted-with-an-expiry monitor: after Update(delete) / WriteCas(nil) with an expiry argument nothing may happen to the tombstone at that time; GetExpiry is judged after every entry point sequentially (engine A); pending and overdue deadlines are checked across kill/close and reopen in a fresh process.",
   note="Inherently wall-clock; 'a few seconds' is fixed at B = 3 s. Other deadlines of the same bucket are absent or >= T+8 s.",
   technique="real-time runtime monitor (read-only polling + feed observer + canary) + sequential expiry-in-force oracle + reopen experiment", design="§5 C14"),
 "C15": dict(level="exploration", engine="linz",
   text="Checkpoint monitor: writers run while a resume-mode feed is started through alternating handles, allowed a PRNG-chosen number of callbacks (callback parked so events stay queued), stopped, its checkpoint read, 3-8 times, then a Dump resume run catches up; a third of the scenarios run with a frozen clock so every CAS is the successor of the previous one; oracle: last_seq never exceeds the highest delivered CAS every key's final version is in the union of deliveries, and the newest version delivered for a key describes its final state; while the feed is stopped, keys of their own are re-created over tombstones that earlier runs already delivered and checkpointed, so only a resume can deliver their final version; replicated documents with a CAS ten minutes ahead of the clock arrive between runs; an interrupted run after all writes is followed at once by the final run; a bucket-level feed over two collections (one ID, one prefix) is stopped and resumed with both collections written in between.",
   note="Stops are sampled at PRNG-chosen callback counts. The checkpoint document itself is excluded from the must-deliver set.",
   technique="runtime monitor over recorded deliveries and checkpoint documents across feed restarts", design="§5 C15"),
 "C16": dict(level="exploration", engine="life",
   text="Feed-lifecycle scripts: three feeds from {live, backfill+live, dump, multi-collection, dump without backfill, multi-collection dump}; DropDataStore also through a handle that never opened the collection, a handle closed twice in a row, a multi-collection feed tried through a closed handle x starting handle x collection, then 2-6 shutdown actions in PRNG order from {terminators, DropDataStore, Close of either handle, CloseAndDelete} with a background writer; after every action each feed is checked against its expected status (done channel within 10 s and no callback afterwards, or a fresh write arriving within 10 s), the goroutine profile must hold no feed goroutine after the store is shut down; a queued-terminator probe; also under the race detector.",
   note="'Ends' is decided as bounded progress (10 s).",
   technique="runtime monitor: feed status model (done channels, barriers, post-termination callbacks, goroutine profile)", design="§5 C16"),
 "C18": dict(level="exploration", engine="diffsim+linz",
   text="Sequential JSON-edit equality (numbers compared as exact rationals: integers beyond 2^53 and long decimals must survive in every property; documents ending in insignificant whitespace) over path shapes x document shapes x CAS classes (incl. GetSubDocRaw against the addressed property); concurrent property-owner histories (each client owns one property and sets/removes it, others append to a list and write xattrs: every property reflects its owner's last acknowledged operation); forced windows at the subdoc.rw hook.",
   note="Paths with [] or escapes are outside the envelope; a property holding JSON null is only used as a parent on the path (must be refused like a missing parent), not addressed itself. Removals are issued with nil and with empty non-nil values.",
   technique="runtime differential monitor + ownership/conservation oracle under concurrency + hook-placed rival", design="§5 C18"),
 "C19": dict(level="exploration", engine="diffsim",
   text="Query oracle: a family of eleven SQLite queries (including `xattrs IS NULL`, the raw xattrs column, and rows whose first or middle columns are SQL NULL) over $_keyspace is executed through Next and NextBytes on in-memory and on-disk buckets at PRNG-chosen points of histories over three collections sharing key names and compared with the same predicates evaluated natively over the KV read-back of that collection; a query through the DataStore a second handle still holds for a dropped collection must return no rows; very short JSON bodies; a body-property query over a collection that holds a raw body must fail or be complete.",
   note="The query family is fixed; SQLite's expression semantics are trusted. Body-property queries run only while every live document of the collection is valid JSON.",
   technique="runtime differential monitor: query rows vs native predicate over KV read-back", design="§5 C19"),
 "C20": dict(level="exploration", engine="life",
   text="Shutdown scenarios in child processes: writers, feed start-up, view queries, 1-2 s expiries and Touch-introduced expiries in flight (in a third of the scenarios a leftover handle of a deleted bucket of the same name and URL is closed while the successor is in use) while Close / CloseAndDelete / DropDataStore fire after a delay or at the n-th hit of a hook point; observers: recovered panics, worker exit status and stderr (background panics), 20 s call watchdog with the rosmar functions blocked on locks, an unrelated bucket and a fresh handle must keep working, goroutine profile after shutdown (feed loops and their closures, timer, view updates), the race detector.",
   note="'Never deadlocks' is decided as 'no call exceeded 20 s with goroutines waiting on rosmar locks'. Schedules are sampled; hooks place the shutdown inside the named windows.",
   technique="process-level runtime monitor (exit status, panics, lock-wait dumps, goroutine profile) + race detector", design="§5 C20"),
})

def check(pid, c):
    return {
      "property_id": pid,
      "quick_cmd": f"./check {pid} quick",
      "thorough_cmd": f"./check {pid} thorough",
      "evidence_file": f"/verif/evidence/{pid}.json",
      "replay_cmd_template": f"./check {pid} --replay {{path}}",
      "engine": c["engine"],
      "level_claimed": {"category": c["level"], "text": c["text"], "design_ref": "DESIGN.md " + c["design"]},
      "level_note": c["note"],
      "technique": c["technique"],
    }

# parts added after the fifth round of seeded changes (DESIGN.md §11.6)
round5 = {
 "C02": " Live-only rivals (DeleteSubDocPaths, Set with PreserveExpiry) are placed inside every forced window that opened on a live document: the loop must notice them like any other write.",
 "C03": " Forced windows (shared with C02/C18) additionally check that nothing an attempt that lost its CAS check asked for - expiry, macro-expansion specs - is applied by the attempt that wins (Update, WriteUpdateWithXattrs).",
 "C04": " The blind writes of the bucket-clock runs include Set / SetRaw with PreserveExpiry; the stored CAS of every key must equal the CAS of the key's last event.",
 "C05": " The SQL query family runs inside the histories as one more observer: a result row for a key that has no body is a violation.",
 "C06": " WriteCas is also issued with AddOnly combined with Raw, Persist and Indexable in every CAS class.",
 "C07": " Forced windows: expiry and macro specs of a WriteUpdateWithXattrs attempt that lost its CAS check must not be applied by the retry; the call's exp argument must be honoured.",
 "C09": " Large backfills: 260-340 documents with groups of 2-3 documents sharing one CAS (WithMeta writes) at fixed and PRNG-chosen positions of the CAS order; dumps from 0, the median, each group's CAS and CAS+1 must deliver every current version once, in order.",
 "C10": " Kills inside a large purge: 300-1100 tombstones, the writer kills itself at the n-th transaction hook hit inside the one PurgeTombstones call; after reopen all tombstones or none are left, the live documents all are.",
 "C11": " The non-interference run also compares the live feed of the first collection (key, opcode, expiry, datatype of every event) between the quiet and the busy bucket.",
 "C12": " Concurrent part (also under the race detector): writers, view queries (non-stale, stale=ok, updateAfter) and design-document replacements / deletions run together through 1-2 handles; at quiescence a non-stale query through every handle must return exactly the rows of the final documents.",
 "C13": " A foreign file may be put into a bucket's directory (the directory then exists without, and outlives, the bucket): ReOpenExisting must still fail where no bucket exists, CloseAndDelete must still drop the registry entry.",
 "C14": " Order class sibling-handle-closed: another handle of the bucket is opened and closed before / after the deadline is introduced. Forced windows: the expiry asked for by a discarded Update / WriteUpdateWithXattrs attempt must not be stored.",
 "C15": " Neighbour-feed part: plain live feeds registered before / after the checkpointed one; one of them is stopped by its terminator, two documents are written, the checkpointed feed is stopped and resumed as a dump: its runs must have delivered both.",
 "C16": " Further feed kind: backfill+live with a checkpoint prefix (its last checkpoint write fails when the store is shut down under it). Further actions: DropDataStore through a closed handle (refused: the feeds must go on). Queued-shutdown part: CloseAndDelete / Close of the only on-disk handle under a parked callback - at most two more callbacks, done closed. Sweep-after-recreate part: an expiry sweep must not end the feeds of a collection that was dropped and created again.",
 "C18": " String properties with control characters, DEL and characters beyond the BMP are read through GetSubDocRaw and must come back as the same JSON value.",
 "C19": " Two more query cases: a LIKE pattern and the modulo operator written literally into the statement text; column aliases containing a quote, a backslash, a tab and a newline. Xattr values include bare numbers (an 8-byte xattrs object).",
 "C20": " Design-document activity (PutDDoc / GetDDocs / DeleteDDoc through the handles being closed) joins the activities; after CloseAndDelete through one of two handles a live feed started through the surviving handle must be refused.",
}
for k, v in round5.items():
    claimed[k]["text"] += v

# parts added after the sixth round of seeded changes (DESIGN.md §11.7)
round6 = {
 "C01": " Incr with amount 0 (still a write) and SetRaw with PreserveExpiry are in the catalogue.",
 "C03": " A third of the histories start with two documents that share one CAS (replicated versions): what is done to one must not show on the other. Forced window: a WriteUpdateWithXattrs whose callback asks for a tombstone must retry, not give up, when a rival deletes the document first.",
 "C04": " Reopen pairs whose last write is a replicated version with a CAS ahead of the writer's clock: after the reopen with a rewound clock a CAS-checked regular write of that key must get a larger CAS. Append writes in the bucket-clock runs.",
 "C06": " WriteCas without a body (a deletion) with CAS 0 / AddOnly is applied before the insert-style follow-ups.",
 "C07": " Macro-expansion paths that name only the xattr (an argument error: no panic, nothing applied); xattr values followed by surplus closing braces / brackets / trailing text must be refused.",
 "C09": " KeysOnly backfill events are compared with the KeysOnly live event of the same version (datatype, expiry, opcode). WithMeta writers take part in the join races.",
 "C10": " (Reopen after an import from the future: see C04; the pair is run by both checks.)",
 "C11": " An expression index is created on a sibling collection of the busy bucket in half of the non-interference runs. Stale-handle part: a DataStore asked for by name after the collection was dropped and re-created through another handle must be the collection that exists now. The earliest deadline of the bucket may sit in a collection that is dropped before it comes due.",
 "C13": " On-disk URLs are passed as rosmar://dir, file://dir and as a plain path in turn. Cold-create storms: several goroutines open a bucket that does not exist yet; acknowledged writes must survive the close and reopen. NamedDataStore joins the closed-handle probes.",
 "C14": " Deleted-with-an-expiry variants: the document carries the near deadline itself and is deleted through Delete / Remove / DeleteWithXattrs / WriteTombstoneWithXattrs / Update, or the tombstone is created by WriteTombstoneWithXattrs / UpdateXattrDeleteBody / DeleteWithMeta with an expiry argument. Order class earlier-deadline-dropped.",
 "C16": " Feed kind multi-collection-partial: one part cannot start (unreadable checkpoint document); the call is refused, the caller's done channel must close once the terminator is closed or the store is gone.",
 "C18": " Documents that use the empty string as a property name, addressed with paths that have empty components.",
 "C19": " Real-time part: a document whose expiry time has come but which is not tombstoned yet must still have its row whenever Exists reports it right before and right after the query.",
 "C20": " Feed starts include a multi-collection feed one of whose parts cannot start: nothing it leaves behind may outlive the store (goroutine profile).",
}
for k, v in round6.items():
    claimed[k]["text"] += v

# parts added after the seventh round of seeded changes (DESIGN.md §11.8)
round7 = {
 "C01": " Stale-handle part: CreateDataStore issued for collections that already exist must leave their documents alone. Counters around 2^63.",
 "C04": " WriteResurrectionWithXattrs and writes that store what is already stored take part in the bucket-clock runs (the second write must get a larger CAS).",
 "C05": " View indexes exist and are refreshed during the histories (they must not stand in the way of PurgeTombstones); the live event of a write over a tombstone must carry none of its xattrs.",
 "C07": " Macro paths with three and four components (only the addressed property may change).",
 "C08": " Stale-handle part: a live feed on a collection that was dropped and re-created must survive another handle's lookup of that collection by name.",
 "C11": " Failed-view-query part: a view query that fails part-way on a sibling collection must not keep the other collections from answering (10 s per probe). The sibling's index is also created with a filter that has a top-level OR.",
 "C12": " stale given as the string false and as the bool false are judged like an absent stale.",
 "C15": " A third of the checkpoint scenarios use a KeysOnly feed. Queued-rewrite part: keys are written again behind later ones while the feed's callback is parked; after a PRNG-chosen number of callbacks the feed is stopped and resumed: every key's final version must have been delivered and the checkpoint must not pass anything undelivered.",
 "C19": " LIKE is judged case-insensitively over ids in both cases; numeric arguments are handed over as several Go integer types.",
 "C20": " Shutdown kind close+delete: the last open handle is closed while the bucket is deleted through a handle that was closed before.",
}
for k, v in round7.items():
    claimed[k]["text"] += v

# parts added after the eighth (half) round of seeded changes (DESIGN.md §11.9)
round8 = {
 "C09": " Stale-handle part: a Dump backfill started by name (Scopes) through a handle whose cache predates the collection's drop and re-creation must deliver the documents of the collection that exists now.",
 "C11": " Order class far-deadline-in-lower-collection in the sibling-expiry part: a deadline an hour away in the default collection must not keep the timer from being re-armed for the named collection's next deadline.",
 "C12": " Emitted string keys include mixed case and punctuation, whose byte order differs from their JSON collation order.",
 "C13": " In-memory-URL part: an in-memory bucket opened at <directory of an on-disk bucket>?mode=memory is deleted; the on-disk bucket must reopen with its data.",
 "C14": " Order class far-deadline-in-lower-collection.",
 "C16": " Feed kind terminator-closed-before-start: the feed must report done like any other.",
}
for k, v in round8.items():
    claimed[k]["text"] += v

# parts added in the ninth session (DESIGN.md §11.10)
round9 = {
 "C11": " Drop-by-a-stranger part: a feed started on a collection through one handle; another handle that never opened the collection drops it and creates the same name again; documents of the new collection must not reach the old feed (a second feed on the new collection is the fence).",
 "C07": " Refused-inside-the-transaction part (shared with C17, own PRNG stream): a write of body and xattrs whose statement is refused by an unevaluable expression index applies none of it (complete read-back unchanged).",
 "C12": " WithMeta-at-the-high-water-mark part (model-free): SetWithMeta / DeleteWithMeta with a CAS exactly equal to, just below and above the collection's newest CAS, the index brought up to date after every call; a non-stale query over a view that emits every document must return exactly the keys Exists reports.",
 "C19": " Rows-without-a-body part (model-free): raw entry points handed a nil body (SetRaw, AddRaw, WriteCas raw, an Update callback returning nil) leave rows without a body; after every third call the ids returned by a query over $_keyspace must be exactly the keys that Exists / GetRaw report.",
 "C01": " Forced-windows part: the expiry asked for by an Update / WriteUpdateWithXattrs attempt that lost its CAS check must not be stored by the attempt that wins. Refused-inside-the-transaction part (shared with C17, own PRNG stream): a call refused by an unevaluable expression index - its INSERT / UPDATE fails after the entry point prepared everything - must leave the key's complete read-back byte-identical.",
 "C08": " Refused-inside-the-transaction part (shared with C17, own PRNG stream): a call whose statement is refused by an unevaluable expression index posts no event; an acknowledged one posts exactly one (a fence write after every call closes the window).",
 "C17": " Refused-inside-the-transaction part: an expression index that cannot be evaluated over some rows (abs of the smallest integer over a missing xattr / body property) makes the INSERT / UPDATE of a write fail inside its transaction, after the entry point has incremented the revision and filled in its event; one key goes through random histories of 18 kinds of mutating calls, each judged by what the call itself returned: acknowledged -> $document.revid +1 (1 on creation) and one live event carrying that number, refused -> revision unchanged and no event (a fence write on another key closes each call's window).",
}
for k, v in round9.items():
    claimed[k]["text"] += v

pending_reason = "check under construction in this session (design in DESIGN.md); it is claimed once its monitors are built and silent on the unchanged tree"
m = {
 "version": 1,
 "setup_cmd": "./check setup",
 "hooks": {"guard": "verif",
           "enable": "go build -tags verif; the harness module (harness/go.mod) has `replace github.com/couchbaselabs/rosmar => /repo`, so every check rebuilds from /repo's working tree",
           "baseline_off_cmd": "cd /repo && GOFLAGS=-mod=mod GOPROXY=off GOSUMDB=off GOTOOLCHAIN=local go test -json -vet=off -count=1 -timeout 25m ./...",
           "source_commits": [hooks_commit], "add_only": True},
 "engines": [
   {"name": "diffsim", "path": "harness/internal/kv", "serves_properties": ["C01","C02","C05","C06","C07","C08","C09","C11","C12","C14","C17","C18","C19"], "kind_free_text": "sequential differential simulation: real buckets + executable specification + read-back/feed/backfill/view/query judges"},
   {"name": "linz", "path": "harness/internal/conc", "serves_properties": ["C02","C03","C04","C08","C09","C15","C18"], "kind_free_text": "concurrent histories: porcupine linearizability, one-winner races, forced windows, feed order / join / checkpoint monitors, clock order checker; also run with -race"},
   {"name": "life", "path": "harness/internal/life", "serves_properties": ["C13","C16","C20"], "kind_free_text": "lifecycle models: registry/handles, feed status, shutdown scenarios in child processes"},
   {"name": "crash", "path": "harness/internal/crash", "serves_properties": ["C10","C04","C14"], "kind_free_text": "crash injection: writer child killed at hook points / inside pwrite64 via strace; reader child reopens"},
   {"name": "rt", "path": "harness/internal/rt", "serves_properties": ["C14","C11"], "kind_free_text": "real-time expiry monitor with canary"},
 ],
 "checks": [check(pid, claimed[pid]) for pid in ids if pid in claimed],
 "not_applicable": [{"property_id": pid, "reason": pending_reason} for pid in ids if pid not in claimed],
 "notes": "Technique family: runtime monitoring (oracles over observed executions of the real code; Go race detector as the sanitizer). See DESIGN.md. known_findings.jsonl lists genuine defects (all fixed so far by 'fix:' commits in /repo).",
}
json.dump(m, open('/verif/MANIFEST.json','w'), indent=1)
print("claimed:", [c["property_id"] for c in m["checks"]])
