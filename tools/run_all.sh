#!/bin/bash
# tools/run_all.sh [tier] [seed]: runs every claimed check, validates evidence against the schema, prints a summary line per check.
TIER=${1:-quick}; SEED=${2:-1}
ROOT="$(cd "$(dirname "${BASH_SOURCE[0]}")/.." && pwd)"
cd "$ROOT"
fail=0
for p in $(python3 -c "import json;print(' '.join(c['property_id'] for c in json.load(open('MANIFEST.json'))['checks']))"); do
  t0=$(date +%s)
  VERIF_SEED=$SEED ./check $p $TIER > /tmp/runall_$p.log 2>&1; rc=$?
  t1=$(date +%s)
  v=$(python3-vt -c "
import json,jsonschema,sys
try:
    jsonschema.validate(json.load(open('$ROOT/evidence/$p.json')),json.load(open('/root/.vp/EVIDENCE.schema.json'))); print('evidence-ok')
except Exception as e: print('EVIDENCE-INVALID', str(e)[:100])
")
  echo "$p rc=$rc ${v} $((t1-t0))s $(grep -c '^VIOLATION' /tmp/runall_$p.log) violations $(grep -c '^KNOWN-FINDING' /tmp/runall_$p.log) known"
  [ $rc -ne 0 ] && fail=1
done
exit $fail
