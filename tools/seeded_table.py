#!/usr/bin/env python3
"""Prints the markdown table of seeded changes from seeded/*/meta.json and (with --write) puts it into DESIGN.md."""
import json, glob, os, re, sys
rows=[]
for d in sorted(glob.glob('/verif/seeded/*/')):
    mid=os.path.basename(d.rstrip('/'))
    try: m=json.load(open(d+'meta.json'))
    except Exception: continue
    note=m.get('needs_to_manifest','').replace('\n',' ')
    note=re.sub(r'\s+',' ',note)
    what=note[:170]+('…' if len(note)>170 else '')
    conf=m['confirmed']; ok=all(conf.values())
    status='confirmed' if ok else ('no longer a break on the repaired tree (demo passes with it)' if conf.get('patch_applies') and conf.get('compiles') and not conf.get('demo_fails_with_change') else 'not confirmed: '+', '.join(k for k,v in conf.items() if not v))
    det=', '.join(m.get('detected_by') or []) or '—'
    rows.append(f"| {mid} | {what} | {status} | {det} |")
table="| id | change (from its note) | confirmation on the final tree | caught by |\n|---|---|---|---|\n"+"\n".join(rows)
if '--write' in sys.argv:
    p='/verif/DESIGN.md'; s=open(p).read()
    if 'SEEDED_TABLE' in s: s=s.replace('SEEDED_TABLE','<!-- seeded-table-begin -->\n'+table+'\n<!-- seeded-table-end -->')
    else: s=re.sub(r'<!-- seeded-table-begin -->.*?<!-- seeded-table-end -->','<!-- seeded-table-begin -->\n'+table.replace('\\','\\\\')+'\n<!-- seeded-table-end -->',s,flags=re.S)
    open(p,'w').write(s)
print(table)
