#!/usr/bin/env python3
"""Prints the markdown table of seeded changes from seeded/*/meta.json and (with --write) puts it into DESIGN.md."""
import json, glob, os, re, sys
rows=[]
for d in sorted(glob.glob('/verif/seeded/*/')):
    mid=os.path.basename(d.rstrip('/'))
    try: m=json.load(open(d+'meta.json'))
    except Exception: continue
    note=m.get('needs_to_manifest','').replace('\n',' ')
    note=re.sub(r'\s+',' ',note)
    what=note[:170]+('…' if len(note)>170 else '')
    conf=m['confirmed']; ok=all(conf.values())
    status='confirmed' if ok else ('no longer a break on the repaired tree (demo passes with it)' if conf.get('patch_applies') and conf.get('compiles') and not conf.get('demo_fails_with_change') else 'not confirmed: '+', '.join(k for k,v in conf.items() if not v))
    det=', '.join(m.get('detected_by') or []) or '—'
    rows.append(f"| {mid} | {what} | {status} | {det} |")
table="| id | change (from its note) | confirmation on the final tree | caught by |\n|---|---|---|---|\n"+"\n".join(rows)
# summary for the section's introduction
tot=own=cross=neutral=undetected=notconf=0
cross_ids=[]; undet_ids=[]; neutral_ids=[]; notconf_ids=[]
for d in sorted(glob.glob('/verif/seeded/*/')):
    mid=os.path.basename(d.rstrip('/'))
    try: m=json.load(open(d+'meta.json'))
    except Exception: continue
    tot+=1
    conf=m['confirmed']; det=m.get('detected_by') or []
    prop=m.get('breaks_property') or mid.split('-')[0]
    if all(conf.values()):
        if prop in det: own+=1
        elif det: cross+=1; cross_ids.append(f"{mid} ({', '.join(det)})")
        else: undetected+=1; undet_ids.append(mid)
    elif conf.get('patch_applies') and conf.get('compiles') and not conf.get('demo_fails_with_change'):
        neutral+=1; neutral_ids.append(mid)
    else:
        notconf+=1; notconf_ids.append(mid)
summary=(f"Of the {tot} changes, {own} are confirmed on the final tree and reported by the check of the property they were written against, "
         f"{cross} are confirmed and reported only by a neighbouring check ({'; '.join(cross_ids)}), "
         f"{undetected} are confirmed and not reported ({', '.join(undet_ids) or 'none'}), "
         f"{neutral} are no longer breaks on the repaired tree - their demonstration passes with the change applied, because a later fix removed or guards the code path ({', '.join(neutral_ids) or 'none'})"
         + (f", and {notconf} could not be confirmed again ({', '.join(notconf_ids)})" if notconf else "") + ".")
if '--write' in sys.argv:
    p='/verif/DESIGN.md'; s=open(p).read()
    if 'SEEDED_TABLE' in s: s=s.replace('SEEDED_TABLE','<!-- seeded-table-begin -->\n'+table+'\n<!-- seeded-table-end -->')
    else: s=re.sub(r'<!-- seeded-table-begin -->.*?<!-- seeded-table-end -->','<!-- seeded-table-begin -->\n'+table.replace('\\','\\\\')+'\n<!-- seeded-table-end -->',s,flags=re.S)
    s=re.sub(r'<!-- seeded-summary-begin -->.*?<!-- seeded-summary-end -->','<!-- seeded-summary-begin -->\n'+summary.replace('\\','\\\\')+'\n<!-- seeded-summary-end -->',s,flags=re.S)
    open(p,'w').write(s)
print(summary)
