#!/bin/bash
# tools/eval_mutant.sh <prop> <srcdir> <i> [checks...]
# Confirms a seeded change (srcdir/mutant<i>.diff + demo<i>_test.go): compiles, existing suite passes, demo fails with it and
# passes without it; then runs the given checks (default: the owning property) against a scratch copy with the change applied.
# Stores everything under /verif/seeded/<prop>-<i>/. Never touches /repo's working tree.
set -u
PROP=$1; SRC=$2; I=$3; shift 3
CHECKS="${*:-$PROP}"
export GOFLAGS=-mod=mod GOPROXY=off GOSUMDB=off GOTOOLCHAIN=local
OUT=/verif/seeded/$PROP-$I${SEED_SUFFIX:-}
mkdir -p "$OUT"
if [ "$(readlink -f "$SRC")" != "$(readlink -f "$OUT")" ]; then
  cp "$SRC/mutant$I.diff" "$OUT/patch.diff"
  cp "$SRC/demo${I}_test.go" "$OUT/demo_test.go" 2>/dev/null
  cp "$SRC/note$I.md" "$OUT/note.md" 2>/dev/null
fi
WT=$(mktemp -d /tmp/mt-$PROP-$I${SEED_SUFFIX:-}-XXXX)
rmdir "$WT"
git -C /repo worktree add -q --detach "$WT" HEAD || exit 3
cleanup() { git -C /repo worktree remove --force "$WT" 2>/dev/null; rm -rf "$WT"; }
trap cleanup EXIT
cd "$WT"
# 1. demo on the unchanged tree must pass
cp "$OUT/demo_test.go" "$WT/zz_seeded_demo_test.go"
go test -vet=off -count=1 -run "TestSeededDemo$I\$" . > "$OUT/demo_clean.log" 2>&1; DEMO_CLEAN=$?
# 2. apply
if git apply "$OUT/patch.diff" 2> "$OUT/apply.log"; then APPLY=0
elif git apply --3way "$OUT/patch.diff" 2>> "$OUT/apply.log" && git reset -q; then APPLY=0; echo "$PROP-$I: applied with --3way (tree moved since the patch was written)"
else echo "$PROP-$I: patch does not apply"; APPLY=1; fi
go build ./... > "$OUT/build.log" 2>&1; BUILD=$?
go test -vet=off -count=1 -run "TestSeededDemo$I\$" . > "$OUT/demo_mutant.log" 2>&1; DEMO_MUT=$?
rm -f "$WT/zz_seeded_demo_test.go"
go test -vet=off -count=1 ./... > "$OUT/suite.log" 2>&1; SUITE=$?
# 3. run the checks against the changed copy
declare -A RES
for c in $CHECKS; do
  (cd /verif && VERIF_REPO="$WT" ./check "$c" quick > "$OUT/check_$c.log" 2>&1); rc=$?
  RES[$c]=$rc
done
DET=""
for c in $CHECKS; do DET="$DET\"$c\": ${RES[$c]}, "; done
python3 - "$OUT" "$PROP" "$I" "$APPLY" "$BUILD" "$SUITE" "$DEMO_CLEAN" "$DEMO_MUT" "{${DET%, }}" <<'PY'
import sys, json, os, re
out, prop, i, apply_, build, suite, dclean, dmut, det = sys.argv[1:]
det = json.loads(det)
note = open(os.path.join(out, 'note.md')).read() if os.path.exists(os.path.join(out, 'note.md')) else ''
sigs = {}
for c in det:
    p = os.path.join(out, f'check_{c}.log')
    s = open(p).read() if os.path.exists(p) else ''
    sigs[c] = re.findall(r'signature: (.*?) \(seen', s)[:6]
meta = {
  "breaks_property": prop,
  "needs_to_manifest": note.strip()[:1500],
  "confirmed": {"patch_applies": apply_ == '0', "compiles": build == '0', "existing_suite_passes_with_change": suite == '0',
                "demo_passes_without_change": dclean == '0', "demo_fails_with_change": dmut != '0'},
  "ran": [f"git apply patch.diff on a scratch worktree of /repo HEAD; go build ./...; go test -vet=off -count=1 ./...; go test -run TestSeededDemo{i}",
          "VERIF_REPO=<scratch> ./check <id> quick for: " + ", ".join(det)],
  "check_exit_codes": det,
  "detected_by": [c for c, rc in det.items() if rc == 1],
  "first_signatures": sigs,
}
json.dump(meta, open(os.path.join(out, 'meta.json'), 'w'), indent=1)
ok = all(meta["confirmed"].values())
print(f"{prop}-{i}{os.environ.get('SEED_SUFFIX','')}: confirmed={ok} {meta['confirmed'] if not ok else ''} detected_by={meta['detected_by']} exit={det}")
PY
