module verifharness

go 1.21

require (
	github.com/anishathalye/porcupine v1.3.0
	github.com/couchbase/sg-bucket v0.0.0-20240606153601-d152b90edccb
	github.com/couchbaselabs/rosmar v0.0.0
	github.com/mattn/go-sqlite3 v1.14.24
)

require (
	github.com/google/uuid v1.6.0 // indirect
	github.com/robertkrimen/otto v0.0.0-20211024170158-b87d35c0b86f // indirect
	golang.org/x/text v0.15.0 // indirect
	gopkg.in/sourcemap.v1 v1.0.5 // indirect
)

replace github.com/couchbaselabs/rosmar => /repo
