// vcheck is the single binary of the verification harness: `vcheck run` supervises, `vcheck worker` executes scenarios.
package main

import (
	"flag"
	"fmt"
	"os"
	"strconv"
	"strings"

	_ "verifharness/internal/checks"
	"verifharness/internal/crash"
	"verifharness/internal/sup"
)

func main() {
	if len(os.Args) < 2 {
		fmt.Fprintln(os.Stderr, "usage: vcheck run|worker|list ...")
		os.Exit(2)
	}
	switch os.Args[1] {
	case "list":
		for p := range sup.Registry {
			fmt.Println(p)
		}
	case "run":
		fs := flag.NewFlagSet("run", flag.ExitOnError)
		prop := fs.String("prop", "", "")
		tier := fs.String("tier", "quick", "")
		seed := fs.Uint64("seed", 1, "")
		root := fs.String("root", "/verif", "")
		bin := fs.String("bin", os.Args[0], "")
		raceBin := fs.String("racebin", "", "")
		workers := fs.Int("workers", 0, "")
		replay := fs.String("replay", "", "")
		alt := fs.Bool("alt", false, "")
		_ = fs.Parse(os.Args[2:])
		os.Exit(sup.Run(sup.Options{Root: *root, Prop: *prop, Tier: *tier, Seed: *seed, Bin: *bin, RaceBin: *raceBin, Workers: *workers, Replay: *replay, Alt: *alt}))
	case "crashwriter":
		os.Exit(crash.WriterMain(os.Args[2]))
	case "crashreader":
		os.Exit(crash.ReaderMain(os.Args[2]))
	case "worker":
		fs := flag.NewFlagSet("worker", flag.ExitOnError)
		prop := fs.String("prop", "", "")
		tier := fs.String("tier", "quick", "")
		seed := fs.Uint64("seed", 1, "")
		scns := fs.String("scns", "", "")
		out := fs.String("out", "", "")
		tmp := fs.String("tmp", os.TempDir(), "")
		race := fs.Bool("race", false, "")
		replay := fs.Bool("replay", false, "")
		_ = fs.Parse(os.Args[2:])
		var list []int
		for _, s := range strings.Split(*scns, ",") {
			if n, err := strconv.Atoi(s); err == nil {
				list = append(list, n)
			}
		}
		os.Exit(sup.WorkerMain(*prop, *tier, *seed, list, *out, *tmp, *race, *replay))
	default:
		fmt.Fprintln(os.Stderr, "unknown subcommand")
		os.Exit(2)
	}
}
