// Package rng is a small deterministic PRNG (splitmix64) so that case lists depend only on
// (seed, property, scenario index), never on Go's math/rand implementation, worker count or time.
package rng

type R struct{ s uint64 }

func mix(z uint64) uint64 {
	z += 0x9e3779b97f4a7c15
	z = (z ^ (z >> 30)) * 0xbf58476d1ce4e5b9
	z = (z ^ (z >> 27)) * 0x94d049bb133111eb
	return z ^ (z >> 31)
}

// New derives a generator from a seed and any number of sub-stream identifiers.
func New(seed uint64, ids ...uint64) *R {
	s := mix(seed ^ 0x5851f42d4c957f2d)
	for _, id := range ids {
		s = mix(s ^ mix(id+0x1234567))
	}
	return &R{s: s}
}

// HashString folds a string into a sub-stream id.
func HashString(str string) uint64 {
	var h uint64 = 1469598103934665603
	for i := 0; i < len(str); i++ {
		h ^= uint64(str[i])
		h *= 1099511628211
	}
	return h
}

func (r *R) U64() uint64 {
	r.s += 0x9e3779b97f4a7c15
	z := r.s
	z = (z ^ (z >> 30)) * 0xbf58476d1ce4e5b9
	z = (z ^ (z >> 27)) * 0x94d049bb133111eb
	return z ^ (z >> 31)
}

// Intn returns a value in [0,n).
func (r *R) Intn(n int) int {
	if n <= 1 {
		return 0
	}
	return int(r.U64() % uint64(n))
}

func (r *R) Bool() bool { return r.U64()&1 == 1 }

// Chance returns true with probability num/den.
func (r *R) Chance(num, den int) bool { return r.Intn(den) < num }

// Pick returns a random element.
func Pick[T any](r *R, xs []T) T { return xs[r.Intn(len(xs))] }

// Weighted picks an index according to integer weights.
func (r *R) Weighted(w []int) int {
	tot := 0
	for _, x := range w {
		tot += x
	}
	if tot <= 0 {
		return 0
	}
	n := r.Intn(tot)
	for i, x := range w {
		if n < x {
			return i
		}
		n -= x
	}
	return len(w) - 1
}

// Perm returns a random permutation of [0,n).
func (r *R) Perm(n int) []int {
	p := make([]int, n)
	for i := range p {
		p[i] = i
	}
	for i := n - 1; i > 0; i-- {
		j := r.Intn(i + 1)
		p[i], p[j] = p[j], p[i]
	}
	return p
}
