package crash

import (
	"bufio"
	"bytes"
	"database/sql"
	"encoding/json"
	"fmt"
	"os"
	"os/exec"
	"path/filepath"
	"sort"
	"strings"
	"sync/atomic"
	"time"

	"verifharness/internal/kv"

	_ "github.com/mattn/go-sqlite3" // the plain "sqlite3" driver, to hold a lock on the bucket's file from outside
)

var runSerial atomic.Uint64

// Run is one crash experiment.
type Run struct {
	Writer      WriterArgs
	Strace      int  // if > 0: kill at the N-th pwrite64 (strace injection) instead of a hook point
	ExtKill     int  // if > 0: external SIGKILL this many ms after the writer went idle
	DelayReopen int  // ms to wait before the bucket is reopened (lets a deadline pass while the bucket is closed)
	LockedOpen  bool // before the real reopen, another process tries to open the bucket while its file is write-locked
	Reader      ReaderArgs
	Tmp         string
}

type Outcome struct {
	Opened                         bool      `json:"opened"`
	UUID                           string    `json:"uuid"`
	Acks                           int       `json:"acks"`
	InFlight                       *kv.Op    `json:"inFlight,omitempty"`
	InFlightI                      int       `json:"inFlightI"`
	Applied                        string    `json:"applied"` // "n/a", "applied", "not-applied"
	Killed                         bool      `json:"killed"`
	OpenedAfterInterruptedCreation bool      `json:"openedAfterInterruptedCreation,omitempty"`
	LockedOpenErr                  string    `json:"lockedOpenErr,omitempty"` // how the open attempted while the file was locked failed
	Clean                          bool      `json:"clean"`
	MaxAckCas                      uint64    `json:"maxAckCas"`
	Reader                         ReaderOut `json:"reader"`
	Problems                       []string  `json:"problems"`
	WriterErr                      string    `json:"writerErr,omitempty"`
	KillDesc                       string    `json:"killDesc"`
}

type lastState struct {
	obs kv.Obs
	doc kv.Doc
}

// Execute runs the writer (killed as configured), then the reader in a fresh process, and judges.
func (r *Run) Execute() Outcome {
	var out Outcome
	exe, _ := os.Executable()
	name := fmt.Sprintf("cr%d_%d", os.Getpid(), runSerial.Add(1))
	dir := filepath.Join(r.Tmp, name+"_dir")
	_ = os.MkdirAll(dir, 0755)
	defer os.RemoveAll(dir)
	r.Writer.Dir, r.Writer.Name = dir, name
	wj, _ := json.Marshal(r.Writer)
	var cmd *exec.Cmd
	switch {
	case r.Strace > 0:
		cmd = exec.Command("strace", "-f", "-qq", "-o", "/dev/null", "-e", "trace=pwrite64", "-e", fmt.Sprintf("inject=pwrite64:signal=SIGKILL:when=%d", r.Strace), exe, "crashwriter", string(wj))
		out.KillDesc = fmt.Sprintf("SIGKILL at pwrite64 #%d (strace)", r.Strace)
	default:
		cmd = exec.Command(exe, "crashwriter", string(wj))
		out.KillDesc = fmt.Sprintf("SIGKILL at hit %d of %s", r.Writer.Nth, r.Writer.Point)
		if r.Writer.Point == "" {
			out.KillDesc = "SIGKILL after the last acknowledged call"
			if r.Writer.Clean {
				out.KillDesc = "clean Close (control)"
			}
		}
	}
	var stderr bytes.Buffer
	cmd.Stderr = &stderr
	stdout, err := cmd.StdoutPipe()
	if err != nil {
		out.Problems = append(out.Problems, "setup|"+err.Error())
		return out
	}
	if err := cmd.Start(); err != nil {
		out.Problems = append(out.Problems, "setup|"+err.Error())
		return out
	}
	last := map[string]lastState{} // "c<coll>/<key>"
	keys := map[string]bool{}
	intents := map[int]kv.Op{}
	acked := map[int]bool{}
	var adminLast, adminInflight *AdminState
	adminKind := ""
	sc := bufio.NewScanner(stdout)
	sc.Buffer(make([]byte, 1<<22), 1<<22)
	idle := make(chan struct{}, 1)
	done := make(chan struct{})
	go func() {
		defer close(done)
		for sc.Scan() {
			line := sc.Text()
			sp := strings.IndexByte(line, ' ')
			if sp < 0 {
				continue
			}
			tag, body := line[:sp], line[sp+1:]
			switch tag {
			case "OPENED":
				var o struct{ UUID string }
				_ = json.Unmarshal([]byte(body), &o)
				out.Opened, out.UUID = true, o.UUID
			case "INTENT":
				var l IntentLine
				if json.Unmarshal([]byte(body), &l) == nil {
					intents[l.I] = l.Op
					keys[l.Op.Key] = true
				}
			case "ACK":
				var l AckLine
				if json.Unmarshal([]byte(body), &l) == nil {
					acked[l.I] = true
					op := intents[l.I]
					last[fmt.Sprintf("c%d/%s", op.Coll, op.Key)] = lastState{l.Obs, l.Doc}
					if c := l.Obs.RowCas(); c > out.MaxAckCas && !l.Doc.CasByMeta {
						out.MaxAckCas = c
					}
				}
			case "AINTENT":
				var l AdminLine
				if json.Unmarshal([]byte(body), &l) == nil {
					st := l.After
					adminInflight, adminKind = &st, l.Kind
				}
			case "AACK":
				var l AdminLine
				if json.Unmarshal([]byte(body), &l) == nil {
					st := l.After
					adminLast, adminInflight = &st, nil
				}
			case "AFAIL":
				adminInflight = nil
			case "EXTRACAS":
				var o struct{ Cas uint64 }
				_ = json.Unmarshal([]byte(body), &o)
				if o.Cas > out.MaxAckCas {
					out.MaxAckCas = o.Cas
				}
			case "CLOSED":
				out.Clean = true
			case "IDLE":
				select {
				case idle <- struct{}{}:
				default:
				}
			}
		}
	}()
	if r.ExtKill > 0 {
		go func() {
			select {
			case <-idle:
				time.Sleep(time.Duration(r.ExtKill) * time.Millisecond)
				_ = cmd.Process.Kill()
			case <-done:
			}
		}()
		out.KillDesc = "external SIGKILL while idle"
	}
	waitErr := make(chan error, 1)
	go func() { <-done; waitErr <- cmd.Wait() }()
	select {
	case err := <-waitErr:
		if err != nil {
			out.Killed = true
		}
	case <-time.After(60 * time.Second):
		_ = cmd.Process.Kill()
		out.Problems = append(out.Problems, "setup|writer child did not finish within 60s")
		return out
	}
	if !out.Opened {
		out.WriterErr = strings.TrimSpace(stderr.String())
		if len(out.WriterErr) > 300 {
			out.WriterErr = out.WriterErr[:300]
		}
		// killed before the bucket was reported open: whether that bucket exists is outside the statement. But if a
		// later open accepts what the interrupted creation left behind, it must be a whole bucket (UUID, a default
		// collection that takes a write); an open that refuses the remains is fine.
		probe := ReaderArgs{Dir: dir, Name: name, Mode: 0, NewWrites: 1, Colls: 1}
		pj, _ := json.Marshal(probe)
		if pout, perr := exec.Command(exe, "crashreader", string(pj)).Output(); perr == nil || len(pout) > 0 {
			// (a reader that dies after the open still prints what it had found out: that counts as "not whole")
			var pr ReaderOut
			lines := strings.Split(strings.TrimSpace(string(pout)), "\n")
			if json.Unmarshal([]byte(lines[len(lines)-1]), &pr) == nil && pr.Err == "" && pr.OpenedAt != 0 {
				out.OpenedAfterInterruptedCreation = true
				if pr.UUID == "" || len(pr.NewCas) != 1 || len(pr.Colls) == 0 || perr != nil {
					out.Problems = append(out.Problems, fmt.Sprintf("half-created|the writer was killed while it was still creating the bucket; a later OpenBucket accepted the remains as an existing bucket, but it is not a whole one: UUID %q, collections %v, %d of 1 writes accepted", pr.UUID, pr.Colls, len(pr.NewCas)))
				}
			}
		}
		return out
	}
	out.Acks = len(acked)
	out.InFlightI = -1
	for i, op := range intents {
		if !acked[i] {
			op := op
			out.InFlight, out.InFlightI = &op, i
		}
	}
	// ---- reopen in a fresh process
	if r.DelayReopen > 0 {
		time.Sleep(time.Duration(r.DelayReopen) * time.Millisecond)
	}
	r.Reader.Dir, r.Reader.Name = dir, name
	if r.LockedOpen {
		// Somebody else (here: this supervisor, through the plain sqlite3 driver) holds the database's write lock for
		// longer than rosmar's busy timeout. An OpenBucket in another process then fails - and must leave the bucket
		// as it is: everything acknowledged before is still expected after the lock is released.
		dbPath := filepath.Join(dir, name, "rosmar.sqlite3")
		if lockDB, lerr := sql.Open("sqlite3", "file:"+dbPath+"?_txlock=immediate&_busy_timeout=2000"); lerr == nil {
			if tx, terr := lockDB.Begin(); terr == nil {
				probe := r.Reader
				probe.Mode, probe.NewWrites, probe.WaitExp, probe.TryCreateNew = 2, 0, 0, false
				pj, _ := json.Marshal(probe)
				pcmd := exec.Command(exe, "crashreader", string(pj))
				pout, _ := pcmd.Output()
				var pr ReaderOut
				if lines := strings.Split(strings.TrimSpace(string(pout)), "\n"); len(lines) > 0 {
					_ = json.Unmarshal([]byte(lines[len(lines)-1]), &pr)
				}
				out.LockedOpenErr = pr.Err
				_ = tx.Rollback()
			} else {
				out.LockedOpenErr = "supervisor could not lock: " + terr.Error()
			}
			_ = lockDB.Close()
		}
	}
	r.Reader.Colls = 3
	r.Reader.Keys = nil
	for k := range keys {
		r.Reader.Keys = append(r.Reader.Keys, k)
	}
	r.Reader.Keys = append(r.Reader.Keys, "expiring", "dropme")
	sort.Strings(r.Reader.Keys)
	rj, _ := json.Marshal(r.Reader)
	rcmd := exec.Command(exe, "crashreader", string(rj))
	var rerr bytes.Buffer
	rcmd.Stderr = &rerr
	rout, err := rcmd.Output()
	if err != nil {
		out.Problems = append(out.Problems, fmt.Sprintf("reader-crash|the process that reopened the bucket died: %v: %s", err, firstLine(rerr.String())))
		return out
	}
	lines := strings.Split(strings.TrimSpace(string(rout)), "\n")
	if err := json.Unmarshal([]byte(lines[len(lines)-1]), &out.Reader); err != nil {
		out.Problems = append(out.Problems, "setup|cannot parse reader output: "+err.Error())
		return out
	}
	rd := &out.Reader
	if rd.Err != "" {
		out.Problems = append(out.Problems, "reopen|the bucket cannot be reopened / used after "+out.KillDesc+": "+rd.Err)
		return out
	}
	if rd.UUID != out.UUID {
		out.Problems = append(out.Problems, fmt.Sprintf("uuid|UUID changed across reopen: %s -> %s", out.UUID, rd.UUID))
	}
	// collections and design documents: the state after the last acknowledged admin call, or (entirely) after the one in flight
	base := AdminState{DDocs: map[string]string{"cd": ddocJSON(crashViews)}, Colls: []string{}}
	for ci := 0; ci < 3; ci++ {
		if ci == 2 && r.Writer.DropY {
			continue
		}
		base.Colls = append(base.Colls, kv.CollNames[ci].ScopeName()+"."+kv.CollNames[ci].CollectionName())
	}
	if r.Writer.EndMeta {
		base.Colls = append(base.Colls, "meta.only") // created before the writer reported the bucket open
	}
	if adminLast != nil {
		base = *adminLast
	}
	dropFilter := func(st *AdminState) {
		if !r.Writer.DropY {
			return
		}
		dropped := kv.CollNames[2].ScopeName() + "." + kv.CollNames[2].CollectionName()
		var keep []string
		for _, c := range st.Colls {
			if c != dropped {
				keep = append(keep, c)
			}
		}
		st.Colls = keep
	}
	dropFilter(&base)
	if adminInflight != nil {
		dropFilter(adminInflight)
	}
	got := AdminState{DDocs: rd.DDocDefs, Colls: append([]string(nil), rd.Colls...), Fill: rd.AdminFill}
	sort.Strings(got.Colls)
	sort.Strings(base.Colls)
	same := func(a, b AdminState) bool {
		if strings.Join(a.Colls, ",") != strings.Join(b.Colls, ",") || len(a.DDocs) != len(b.DDocs) {
			return false
		}
		for k, v := range a.DDocs {
			if b.DDocs[k] != v {
				return false
			}
		}
		for _, c := range a.Colls {
			if strings.HasPrefix(c, "adm.") && a.Fill[c] != b.Fill[c] {
				return false // an admin-created collection must hold exactly the filler documents written into it
			}
		}
		return true
	}
	if !same(got, base) {
		ok := false
		if adminInflight != nil {
			sort.Strings(adminInflight.Colls)
			ok = same(got, *adminInflight)
		}
		if !ok {
			what := "the last acknowledged admin call left"
			if adminInflight != nil {
				what += " (nor what the interrupted " + adminKind + " would have left)"
			}
			out.Problems = append(out.Problems, fmt.Sprintf("admin-state|after %s the reopened bucket has collections %v (filler documents %v) and design documents %v, which is not what %s: collections %v (filler documents %v), design documents %v", out.KillDesc, got.Colls, got.Fill, keysOf(got.DDocs), what, base.Colls, base.Fill, keysOf(base.DDocs)))
		}
	}
	// ---- durability of acknowledged calls, atomicity of the in-flight one
	out.Applied = "n/a"
	inflightKey := ""
	if out.InFlight != nil {
		inflightKey = fmt.Sprintf("c%d/%s", out.InFlight.Coll, out.InFlight.Key)
	}
	var names []string
	for k := range rd.Docs {
		names = append(names, k)
	}
	sort.Strings(names)
	for _, dk := range names {
		got := rd.Docs[dk]
		if strings.HasSuffix(dk, "/expiring") || strings.HasSuffix(dk, "/dropme") {
			continue
		}
		if r.Writer.DropY && strings.HasPrefix(dk, "c2/") {
			continue
		}
		ls, known := last[dk]
		want := ls.obs
		if !known {
			want = absentObs()
		}
		if f := want.Diff(&got); f != "" {
			if dk == inflightKey {
				continue // judged below
			}
			out.Problems = append(out.Problems, fmt.Sprintf("durability.%s|after %s the reopened bucket shows %s of %s different from what the last acknowledged call left (acks=%d)", f, out.KillDesc, f, dk, out.Acks))
		}
	}
	if out.InFlight != nil {
		got := rd.Docs[inflightKey]
		ls, known := last[inflightKey]
		pre := ls.obs
		if !known {
			pre = absentObs()
		}
		if pre.Diff(&got) == "" {
			out.Applied = "not-applied"
		} else {
			out.Applied = "applied"
			// hypothesis: the call took effect completely. Judge it like a successful step.
			st := kv.Step{Op: *out.InFlight, PreObs: pre, PostObs: got, Pre: ls.doc, RunProp: "C10"}
			st.Res = kv.Result{HasCas: false}
			if out.InFlight.Kind == kv.KAdd || out.InFlight.Kind == kv.KAddRaw {
				st.Res.IsAdd, st.Res.Added = true, true
			}
			now := time.Now().Unix()
			st.Ex = kv.Spec(&st.Pre, &st.Op, now-120, now, 0)
			var judgments []string
			kv.JudgeStep(&st, func(props []string, kind, msg string) {
				if strings.HasPrefix(kind, "ret.") || kind == "post.cas.returned" {
					return // the call never returned
				}
				judgments = append(judgments, kind+": "+msg)
			})
			if len(judgments) > 0 {
				out.Problems = append(out.Problems, fmt.Sprintf("atomicity|%s was interrupted by %s; the reopened bucket shows neither the state before it nor the complete result: %s", out.InFlight.Variant(), out.KillDesc, judgments[0]))
			}
		}
	}
	// ---- the view index must agree with the surviving documents (collection high-water mark)
	if rd.ViewErr != "" {
		out.Problems = append(out.Problems, "view|view query after reopen failed: "+rd.ViewErr)
	} else {
		var want []string
		for dk, o := range rd.Docs {
			if !strings.HasPrefix(dk, "c0/") || dk == "c0/expiring" {
				continue // (the expiring document may be tombstoned by the timer between the read-back and the query)
			}
			if o.HasBody() || (o.Present() && len(o.GX) > 0) {
				want = append(want, strings.TrimPrefix(dk, "c0/"))
			}
		}
		// documents the reader does not list by key (marker, post-reopen writes) are not in ViewAll's expected set; filter
		sort.Strings(want)
		var got []string
		for _, id := range rd.ViewAll {
			if _, ok := rd.Docs["c0/"+id]; ok && id != "expiring" {
				got = append(got, id)
			}
		}
		if strings.Join(got, ",") != strings.Join(want, ",") {
			out.Problems = append(out.Problems, fmt.Sprintf("view|after %s a non-stale view query returns ids %v but the surviving documents are %v (the document and the collection's high-water mark were not committed together)", out.KillDesc, got, want))
		}
	}
	// ---- CAS after reopen (C04)
	for _, c := range rd.NewCas {
		if c <= out.MaxAckCas {
			out.Problems = append(out.Problems, fmt.Sprintf("cas-after-reopen|a write after reopening got CAS %d, not above %d which the bucket had acknowledged before %s (reopened with the clock rewound to %d)", c, out.MaxAckCas, out.KillDesc, r.Reader.Clock))
			break
		}
	}
	for _, rw := range rd.Rewrites {
		if rw.Err != "" {
			out.Problems = append(out.Problems, fmt.Sprintf("cas-after-reopen|a CAS-checked write of %s with the CAS just read (%d) failed after the reopen: %s", rw.Key, rw.Before, rw.Err))
		} else if rw.After <= rw.Before {
			out.Problems = append(out.Problems, fmt.Sprintf("cas-after-reopen|after %s and a reopen (clock rewound to %d) a regular write of %s got CAS %d, not above the CAS %d of the version it replaced (a replicated version with a CAS ahead of the clock, stored as the last write)", out.KillDesc, r.Reader.Clock, rw.Key, rw.After, rw.Before))
		}
	}
	for i := 1; i < len(rd.NewCas); i++ {
		if rd.NewCas[i] <= rd.NewCas[i-1] {
			out.Problems = append(out.Problems, "cas-after-reopen|CAS values after reopen are not increasing")
		}
	}
	// ---- pending expirations (C14 / C10)
	if r.Reader.WaitExp > 0 && r.Writer.Expiry != 0 {
		for key, goneMs := range rd.ExpGoneMs {
			abs := rd.ExpAbs[key]
			if abs == 0 && goneMs >= 0 {
				continue // it was overdue at reopen and went before its expiry could be read back: as required
			}
			if abs == 0 {
				out.Problems = append(out.Problems, fmt.Sprintf("expiry-lost|collection %s: the document written with a %ds expiry has no expiry after reopen", key, r.Writer.Expiry))
				continue
			}
			if goneMs < 0 {
				out.Problems = append(out.Problems, fmt.Sprintf("expiry-not-rearmed|collection %s: a document due at %d was still readable %d ms after the bucket was reopened (mode %d) with no client activity", key, abs, r.Reader.WaitExp, r.Reader.Mode))
				continue
			}
			at := rd.OpenedAt + goneMs
			if at/1000 < int64(abs) {
				out.Problems = append(out.Problems, fmt.Sprintf("expiry-early|collection %s: document due at %d became unreadable at %d.%03d", key, abs, at/1000, at%1000))
			}
		}
	}
	return out
}

func absentObs() kv.Obs {
	return kv.Obs{RawErr: "missing", ExpErr: "missing", GXErr: "missing", XErr: "missing", VErr: "missing", GetErr: "missing"}
}

func firstLine(s string) string {
	for _, l := range strings.Split(s, "\n") {
		if strings.HasPrefix(l, "panic") || strings.HasPrefix(l, "fatal") {
			return l
		}
	}
	if i := strings.IndexByte(s, '\n'); i > 0 {
		return s[:i]
	}
	return s
}

func keysOf(m map[string]string) []string {
	ks := make([]string, 0, len(m))
	for k, v := range m {
		ks = append(ks, k+"="+fmt.Sprint(len(v)))
	}
	sort.Strings(ks)
	return ks
}

// MassPurgeResult is what a purge interrupted by a kill left behind.
type MassPurgeResult struct {
	Tombstones int    `json:"tombstonesBefore"`
	Point      string `json:"killPoint"`
	Nth        int    `json:"nth"`
	Acked      bool   `json:"purgeAcknowledged"`
	Intent     bool   `json:"purgeStarted"`
	Left       int    `json:"tombstonesAfterReopen"`
	Live       int    `json:"liveAfterReopen"`
	Problem    string `json:"problem,omitempty"`
	Incon      string `json:"inconclusive,omitempty"`
}

// MassPurge: a bucket with `tombs` tombstones is purged; the process is killed at the nth hit of a transaction hook
// inside that one call; a fresh process reopens the bucket and counts. PurgeTombstones is one call: after the
// reopen either every tombstone is gone or every one is still there (and none may be left once it was acknowledged).
func MassPurge(tmp string, tombs int, point string, nth int, mode int) (res MassPurgeResult) {
	res.Tombstones, res.Point, res.Nth = tombs, point, nth
	exe, _ := os.Executable()
	name := fmt.Sprintf("mp%d_%d", os.Getpid(), runSerial.Add(1))
	dir := filepath.Join(tmp, name+"_dir")
	_ = os.MkdirAll(dir, 0755)
	defer os.RemoveAll(dir)
	wj, _ := json.Marshal(WriterArgs{Dir: dir, Name: name, Ops: tombs, Point: point, Nth: nth, Profile: "masspurge"})
	wout, _ := exec.Command(exe, "crashwriter", string(wj)).Output()
	res.Intent = strings.Contains(string(wout), "PURGE-INTENT")
	res.Acked = strings.Contains(string(wout), "PURGE-ACK")
	if !res.Intent {
		res.Incon = "the writer did not reach the purge: " + firstLine(string(wout))
		return
	}
	rj, _ := json.Marshal(ReaderArgs{Dir: dir, Name: name, Mode: mode, Colls: 2, CountAll: true})
	rout, _ := exec.Command(exe, "crashreader", string(rj)).Output()
	var ro ReaderOut
	if err := json.Unmarshal(rout, &ro); err != nil {
		res.Problem = "reader|the reopening process produced no result: " + firstLine(string(rout))
		return
	}
	if ro.Err != "" || ro.CountErr != "" {
		res.Problem = "reopen|the bucket cannot be reopened / read after the kill: " + ro.Err + ro.CountErr
		return
	}
	res.Left, res.Live = ro.Tombstones, ro.LiveDocs
	switch {
	case res.Live != 20:
		res.Problem = fmt.Sprintf("purge-collateral|%d of the 20 live documents are readable after PurgeTombstones was interrupted", res.Live)
	case res.Acked && res.Left != 0:
		res.Problem = fmt.Sprintf("purge-lost|PurgeTombstones was acknowledged, yet %d of %d tombstones are back after the reopen", res.Left, tombs)
	case res.Left != 0 && res.Left != tombs:
		res.Problem = fmt.Sprintf("purge-partial|PurgeTombstones was interrupted by a kill (hit %d of %s inside the call): after the reopen %d of %d tombstones are left - the call was applied in part", nth, point, res.Left, tombs)
	}
	return
}
