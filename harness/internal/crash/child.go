// Package crash is engine D: a writer child process streams INTENT/ACK lines and is killed at a hook point or
// inside a syscall; a reader child reopens the bucket in a fresh process (optionally with a rewound clock) and dumps
// everything; the supervisor decides durability and atomicity (C10), CAS after reopen (C04) and re-armed expiry (C14).
package crash

import (
	"bufio"
	"context"
	"encoding/json"
	"fmt"
	"os"
	"sort"
	"strings"
	"sync/atomic"
	"syscall"
	"time"

	"verifharness/internal/kv"
	"verifharness/internal/rng"
	"verifharness/internal/sup"

	sgbucket "github.com/couchbase/sg-bucket"
	"github.com/couchbaselabs/rosmar"
)

type WriterArgs struct {
	Dir        string `json:"dir"`
	Name       string `json:"name"`
	Seed       uint64 `json:"seed"`
	Ops        int    `json:"ops"`
	Point      string `json:"point"` // hook point at which to SIGKILL ("" = never)
	Nth        int    `json:"nth"`
	Clock      uint64 `json:"clock"`      // fixed physical clock (ns) for the process-global HLC; 0 = system clock
	Expiry     uint32 `json:"expiry"`     // if non-zero: relative expiry (seconds) of the document "expiring" written first
	Clean      bool   `json:"clean"`      // close the bucket cleanly at the end
	DropY      bool   `json:"dropY"`      // drop collection 2 after writing to it (its lastCas disappears with it)
	SleepAtEnd int    `json:"sleepAtEnd"` // ms to idle at the end (external kill window)
	EndMeta    bool   `json:"endMeta"`    // last write: a SetWithMeta / DeleteWithMeta carrying an old CAS into a collection that saw no other write
	EndFuture  bool   `json:"endFuture"`  // last write: a SetWithMeta whose CAS is twenty minutes ahead of this process's clock
	Profile    string `json:"profile"`    // "" = every entry point; "withmeta" = SetWithMeta/DeleteWithMeta (multi-statement transactions) with a few plain writes
}

type IntentLine struct {
	I  int   `json:"i"`
	Op kv.Op `json:"op"`
}

// AdminState is the bucket-level state admin operations change: design documents of the default collection
// (name -> canonical JSON of its views) and the list of collections.
type AdminState struct {
	DDocs map[string]string `json:"ddocs"`
	Colls []string          `json:"colls"`
	Fill  map[string]int    `json:"fill,omitempty"` // admin-created collection -> number of filler documents written into it
}

type AdminLine struct {
	I     int        `json:"i"`
	Kind  string     `json:"kind"`
	After AdminState `json:"after"`
}

func ddocJSON(d *sgbucket.DesignDoc) string {
	names := make([]string, 0, len(d.Views))
	for n := range d.Views {
		names = append(names, n)
	}
	sort.Strings(names)
	s := ""
	for _, n := range names {
		s += fmt.Sprintf("%s:%q/%q;", n, d.Views[n].Map, d.Views[n].Reduce)
	}
	return s
}

func (a AdminState) clone() AdminState {
	n := AdminState{DDocs: map[string]string{}, Colls: append([]string(nil), a.Colls...), Fill: map[string]int{}}
	for k, v := range a.DDocs {
		n.DDocs[k] = v
	}
	for k, v := range a.Fill {
		n.Fill[k] = v
	}
	sort.Strings(n.Colls)
	return n
}

var adminDDocs = []*sgbucket.DesignDoc{
	{Language: "javascript", Views: sgbucket.ViewMap{"a": sgbucket.ViewDef{Map: `function(doc, meta) { emit(meta.id, 1); }`, Reduce: "_sum"}}},   // as the next one, but for the reduce function
	{Language: "javascript", Views: sgbucket.ViewMap{"a": sgbucket.ViewDef{Map: `function(doc, meta) { emit(meta.id, 1); }`}}},                   // ... and without one
	{Language: "javascript", Views: sgbucket.ViewMap{"a": sgbucket.ViewDef{Map: `function(doc, meta) { emit(meta.id, 1); }`, Reduce: "_count"}}},
	{Language: "javascript", Views: sgbucket.ViewMap{"a": sgbucket.ViewDef{Map: `function(doc, meta) { emit(doc.n, null); }`}, "b": sgbucket.ViewDef{Map: `function(doc, meta) { emit(meta.id, null); }`}}},
	{Language: "javascript", Views: sgbucket.ViewMap{"c": sgbucket.ViewDef{Map: `function(doc, meta) { emit(1, 1); }`, Reduce: "_sum"}, "b": sgbucket.ViewDef{Map: `function(doc, meta) { emit(meta.id, 2); }`}, "d": sgbucket.ViewDef{Map: `function(doc, meta) { emit(2, 2); }`}}},
}

type AckLine struct {
	I   int    `json:"i"`
	OK  bool   `json:"ok"`
	Obs kv.Obs `json:"obs"`
	Doc kv.Doc `json:"doc"`
}

var crashViews = &sgbucket.DesignDoc{Language: "javascript", Views: sgbucket.ViewMap{
	"all": sgbucket.ViewDef{Map: `function(doc, meta) { emit(meta.id, null); }`},
}}

func emit(w *bufio.Writer, tag string, v any) {
	b, _ := json.Marshal(v)
	fmt.Fprintf(w, "%s %s\n", tag, b)
	w.Flush() // one write(2) per line: survives SIGKILL once it returned
}

// WriterMain is the body of `vcheck crashwriter <json>`.
func WriterMain(arg string) int {
	var a WriterArgs
	if err := json.Unmarshal([]byte(arg), &a); err != nil {
		fmt.Fprintln(os.Stderr, "bad args:", err)
		return 3
	}
	out := bufio.NewWriter(os.Stdout)
	if a.Profile == "masspurge" {
		return massPurgeWriter(a, out)
	}
	if a.Clock != 0 {
		base := a.Clock
		var n atomic.Uint64
		rosmar.VerifSetClock(func() uint64 { return base + n.Add(1)*1000 })
	}
	r := rng.New(a.Seed, 0xc4a5)
	ctx := &sup.Ctx{Prop: "C10", Tmp: a.Dir}
	nullCtx(ctx)
	cfg := kv.Config{Disk: true, Buckets: 1, Handles: 1, Colls: 3, Name: a.Name}
	sim, err := kv.NewSim(ctx, r, cfg, kv.SimOptions{})
	if err != nil {
		fmt.Fprintln(os.Stderr, "open:", err)
		return 4
	}
	b := sim.Env.Buckets[0].Handles[0]
	uuid, _ := b.UUID()
	col0 := sim.Env.Buckets[0].Colls[0][0]
	_ = col0.PutDDoc(context.Background(), "cd", crashViews)
	if a.Expiry != 0 {
		_ = col0.Set("expiring", a.Expiry, nil, []byte(`{"will":"expire"}`))
		_ = sim.Env.Buckets[0].Colls[0][1].Set("expiring", a.Expiry, nil, []byte(`{"will":"expire too"}`))
	}
	var metaOnly *rosmar.Collection
	if a.EndMeta {
		if ds, err := b.NamedDataStore(sgbucket.DataStoreNameImpl{Scope: "meta", Collection: "only"}); err == nil {
			metaOnly = ds.(*rosmar.Collection)
		}
	}
	emit(out, "OPENED", map[string]any{"uuid": uuid, "pid": os.Getpid()})
	// arm the kill
	var hits atomic.Int64
	if a.Point != "" {
		rosmar.VerifSetPointHandler(func(p string) {
			if p == a.Point && int(hits.Add(1)) == a.Nth {
				_ = syscall.Kill(os.Getpid(), syscall.SIGKILL)
				time.Sleep(time.Hour)
			}
		})
	}
	i := 0
	sim.OnIntent = func(op *kv.Op) { emit(out, "INTENT", IntentLine{I: i, Op: *op}) }
	sim.OnAck = func(st *kv.Step, doc *kv.Doc) {
		emit(out, "ACK", AckLine{I: i, OK: st.Res.OK(), Obs: st.PostObs, Doc: *doc})
	}
	admin := AdminState{DDocs: map[string]string{"cd": ddocJSON(crashViews)}}
	for ci := 0; ci < 3; ci++ {
		admin.Colls = append(admin.Colls, kv.CollNames[ci].ScopeName()+"."+kv.CollNames[ci].CollectionName())
	}
	if metaOnly != nil {
		admin.Colls = append(admin.Colls, "meta.only")
		sort.Strings(admin.Colls)
	}
	adminN := 0
	doAdmin := func() {
		adminN++
		next := admin.clone()
		kind := ""
		var run func() error
		choice := r.Intn(6)
		if a.Profile == "dropcycle" {
			// create, fill, fill, fill, drop, ... : most commits belong to the life of a populated collection
			choice = []int{3, 4, 4, 4, 3}[(adminN-1)%5]
		}
		var fillable []string
		for _, c := range admin.Colls {
			if strings.HasPrefix(c, "adm.") {
				fillable = append(fillable, c)
			}
		}
		if choice >= 4 && len(fillable) == 0 {
			choice = 3
		}
		switch choice {
		case 4, 5:
			full := fillable[r.Intn(len(fillable))]
			n := admin.Fill[full]
			kind = "FillDataStore"
			next.Fill[full] = n + 1
			run = func() error {
				ds, err := b.NamedDataStore(sgbucket.DataStoreNameImpl{Scope: "adm", Collection: strings.TrimPrefix(full, "adm.")})
				if err != nil {
					return err
				}
				return ds.SetRaw(fmt.Sprintf("fill%d", n), 0, nil, []byte("filler"))
			}
		case 0, 1:
			dd := adminDDocs[r.Intn(len(adminDDocs))]
			kind = "PutDDoc"
			next.DDocs["adm"] = ddocJSON(dd)
			run = func() error { return col0.PutDDoc(context.Background(), "adm", dd) }
		case 2:
			if _, ok := admin.DDocs["adm"]; !ok {
				return
			}
			kind = "DeleteDDoc"
			delete(next.DDocs, "adm")
			run = func() error { return col0.DeleteDDoc("adm") }
		default:
			name := sgbucket.DataStoreNameImpl{Scope: "adm", Collection: fmt.Sprintf("c%d", adminN%2)}
			if a.Profile == "dropcycle" {
				name.Collection = "c0"
			}
			full := name.Scope + "." + name.Collection
			present := false
			for _, c := range admin.Colls {
				if c == full {
					present = true
				}
			}
			if present {
				kind = "DropDataStore"
				var keep []string
				for _, c := range next.Colls {
					if c != full {
						keep = append(keep, c)
					}
				}
				next.Colls = keep
				delete(next.Fill, full)
				run = func() error { return b.DropDataStore(name) }
			} else {
				kind = "CreateDataStore"
				next.Colls = append(next.Colls, full)
				sort.Strings(next.Colls)
				run = func() error { return b.CreateDataStore(context.Background(), name) }
			}
		}
		emit(out, "AINTENT", AdminLine{I: adminN, Kind: kind, After: next})
		if err := run(); err == nil {
			admin = next
			emit(out, "AACK", AdminLine{I: adminN, Kind: kind, After: next})
		} else {
			emit(out, "AFAIL", AdminLine{I: adminN, Kind: kind, After: admin})
		}
	}
	g := &kv.Gen{R: r, Keys: []string{"k0", "k1", "k2"}, Colls: 3, Bkts: 1, Hnd: 1}
	prof := kv.Uniform(3).With(kv.KPurge, 0, kv.KDropColl, 0, kv.KSetMeta, 6, kv.KDelMeta, 4)
	if a.Profile == "withmeta" {
		prof = kv.Profile{kv.KSetMeta: 10, kv.KDelMeta: 5, kv.KSet: 3, kv.KDelete: 1}
	}
	for i = 0; i < a.Ops; i++ {
		op := g.Random(prof)
		if op.Exp != 0 && op.Exp < 60*60*24*30 {
			op.Exp = 2000000000 // absolute, far future: relative expiries would differ between model time and reopen time
		}
		if op.Kind == kv.KUpdate && op.Mode == "exponly" {
			op.Mode = "set" // keeping a raw body while flagging it JSON makes the view's JS side fail to parse it: unpinned corner (DESIGN §3.11)
		}
		if op.CbExp != nil && *op.CbExp != 0 && *op.CbExp < 60*60*24*30 {
			e := uint32(2000000001)
			op.CbExp = &e
		}
		sim.Do(op)
		if a.Profile == "admin" || a.Profile == "dropcycle" || (a.Profile == "" && i%6 == 5) {
			doAdmin()
			if a.Profile == "dropcycle" {
				doAdmin()
				doAdmin()
			}
		}
		if i%5 == 4 || a.Seed%2 == 0 || a.Profile == "withmeta" {
			// bring the view index up to date (after every call in half of the histories), so that a crash which
			// commits a document without its collection's high-water mark shows as a stale view after reopen
			_, _ = col0.View(context.Background(), "cd", "all", map[string]interface{}{})
			emit(out, "VIEWED", map[string]int{"i": i})
		}
	}
	if a.DropY {
		// the highest CAS so far goes to collection 2, which is then dropped
		c2 := sim.Env.Buckets[0].Colls[0][2]
		cas, err := c2.WriteCas("dropme", 0, 0, []byte(`{"d":1}`), 0)
		if err == nil {
			emit(out, "EXTRACAS", map[string]uint64{"cas": cas})
		}
		_ = b.DropDataStore(kv.CollNames[2])
		emit(out, "DROPPED", map[string]int{"coll": 2})
	}
	if a.EndMeta {
		// replicated documents with an old CAS arrive in a collection of their own as the very last writes: the
		// bucket's persisted high-water mark must not follow them downwards
		if metaOnly != nil {
			ds := metaOnly
			old := uint64(1_500_000_000_000_000_000) + a.Seed%1000
			if a.Seed%2 == 0 {
				_ = ds.SetWithMeta(context.Background(), "replicated", 0, old, 0, nil, []byte(`{"r":1}`), sgbucket.FeedDataTypeJSON)
			} else {
				_ = ds.DeleteWithMeta(context.Background(), "replicated", 0, old, 0, nil)
			}
			emit(out, "ENDMETA", map[string]uint64{"cas": old})
		}
	}
	if a.EndFuture {
		// a replicated version from a peer whose clock runs ahead arrives as the very last write: whoever opens the
		// bucket next - with whatever clock - must stamp a later write of this key with a larger CAS
		now := uint64(time.Now().UnixNano())
		if a.Clock != 0 {
			now = a.Clock
		}
		future := (now + 20*60*1e9) &^ 0xFFFF
		if err := col0.SetWithMeta(context.Background(), "imported", 0, future, 0, nil, []byte(`{"from":"a peer with a fast clock"}`), sgbucket.FeedDataTypeJSON); err == nil {
			emit(out, "ENDFUTURE", map[string]uint64{"cas": future})
		}
	}
	if a.Clean {
		b.Close(context.Background())
		emit(out, "CLOSED", map[string]int{})
		return 0
	}
	if a.SleepAtEnd > 0 {
		emit(out, "IDLE", map[string]int{})
		time.Sleep(time.Duration(a.SleepAtEnd) * time.Millisecond)
	}
	emit(out, "DONE", map[string]int{})
	// exit without closing: like a crash after the last acknowledged call
	_ = syscall.Kill(os.Getpid(), syscall.SIGKILL)
	time.Sleep(time.Hour)
	return 0
}

func nullCtx(c *sup.Ctx) { sup.InitNullCtx(c) }

// massPurgeWriter (profile "masspurge"): a.Ops tombstones (a third of them with a system xattr) spread over two
// collections, 20 live documents, then one PurgeTombstones call during which the process kills itself at the
// a.Nth hit of hook point a.Point (counted from the start of the call).
func massPurgeWriter(a WriterArgs, out *bufio.Writer) int {
	ctx := context.Background()
	b, err := rosmar.OpenBucket("rosmar://"+a.Dir+"/"+a.Name, a.Name, rosmar.CreateNew)
	if err != nil {
		fmt.Fprintln(os.Stderr, "open:", err)
		return 4
	}
	cols := []sgbucket.DataStore{b.DefaultDataStore()}
	if ds, err := b.NamedDataStore(kv.CollNames[1]); err == nil {
		cols = append(cols, ds)
	}
	for i := 0; i < a.Ops; i++ {
		c := cols[i%len(cols)]
		key := fmt.Sprintf("t%d", i)
		if i%3 == 0 {
			_, _ = c.WriteWithXattrs(ctx, key, 0, 0, []byte(`{"t":1}`), map[string][]byte{"_sync": []byte(`{"rev":"1-a"}`)}, nil, nil)
		} else {
			_ = c.SetRaw(key, 0, nil, []byte("x"))
		}
		_ = c.Delete(key)
	}
	for i := 0; i < 20; i++ {
		_ = cols[i%len(cols)].SetRaw(fmt.Sprintf("live%d", i), 0, nil, []byte("l"))
	}
	uuid, _ := b.UUID()
	emit(out, "OPENED", map[string]any{"uuid": uuid, "pid": os.Getpid()})
	var hits atomic.Int64
	if a.Point != "" {
		rosmar.VerifSetPointHandler(func(p string) {
			if p == a.Point && int(hits.Add(1)) == a.Nth {
				_ = syscall.Kill(os.Getpid(), syscall.SIGKILL)
				time.Sleep(time.Hour)
			}
		})
	}
	emit(out, "PURGE-INTENT", map[string]int{"tombstones": a.Ops})
	n, perr := b.PurgeTombstones()
	emit(out, "PURGE-ACK", map[string]any{"count": n, "ok": perr == nil})
	_ = syscall.Kill(os.Getpid(), syscall.SIGKILL)
	time.Sleep(time.Hour)
	return 0
}

// ---------------------------------------------------------------- reader

type ReaderArgs struct {
	Dir          string   `json:"dir"`
	Name         string   `json:"name"`
	Mode         int      `json:"mode"` // rosmar.OpenMode
	Clock        uint64   `json:"clock"`
	Keys         []string `json:"keys"`
	Colls        int      `json:"colls"`
	WaitExp      int      `json:"waitExp"` // ms to keep polling the "expiring" documents
	NewWrites    int      `json:"newWrites"`
	TryCreateNew bool     `json:"tryCreateNew"` // first try to open with CreateNew (must be refused: the bucket exists) - and must not harm it
	Rewrite      []string `json:"rewrite"`      // keys of collection 0 to be rewritten with a CAS-checked regular write (CAS before / after reported)
	CountAll     bool     `json:"countAll"`     // count tombstones and live documents of every opened collection through a Dump feed from CAS 0
}

type ReaderOut struct {
	Err               string            `json:"err,omitempty"`
	UUID              string            `json:"uuid"`
	Colls             []string          `json:"colls"`
	DDocs             []string          `json:"ddocs"`
	DDocDefs          map[string]string `json:"ddocDefs"`
	Docs              map[string]kv.Obs `json:"docs"` // "c<coll>/<key>"
	ViewAll           []string          `json:"viewAll"`
	ViewErr           string            `json:"viewErr,omitempty"`
	NewCas            []uint64          `json:"newCas"`
	ExpGoneMs         map[string]int64  `json:"expGoneMs"` // ms after open at which "expiring" became unreadable (-1: still readable)
	ExpEvents         int               `json:"expEvents"`
	ExpAbs            map[string]uint32 `json:"expAbs"`
	OpenedAt          int64             `json:"openedAtUnixMs"`
	CreateNewAccepted bool              `json:"createNewAccepted,omitempty"`
	AdminFill         map[string]int    `json:"adminFill"` // admin-created collection -> filler documents readable after reopen
	Rewrites          []Rewrite         `json:"rewrites,omitempty"`
	Tombstones        int               `json:"tombstones"`
	LiveDocs          int               `json:"liveDocs"`
	CountErr          string            `json:"countErr,omitempty"`
}

// Rewrite is one CAS-checked regular write of an existing key after the reopen.
type Rewrite struct {
	Key    string `json:"key"`
	Before uint64 `json:"casBefore"`
	After  uint64 `json:"casAfter"`
	Err    string `json:"err,omitempty"`
}

// ReaderMain is the body of `vcheck crashreader <json>`: a fresh process reopens the bucket and dumps what it sees.
func ReaderMain(arg string) int {
	var a ReaderArgs
	if err := json.Unmarshal([]byte(arg), &a); err != nil {
		fmt.Fprintln(os.Stderr, "bad args:", err)
		return 3
	}
	out := ReaderOut{Docs: map[string]kv.Obs{}, ExpGoneMs: map[string]int64{}, ExpAbs: map[string]uint32{}}
	defer func() {
		b, _ := json.Marshal(out)
		fmt.Println(string(b))
	}()
	if a.Clock != 0 {
		base := a.Clock
		var n atomic.Uint64
		rosmar.VerifSetClock(func() uint64 { return base + n.Add(1)*1000 })
	}
	ctx := context.Background()
	if a.TryCreateNew {
		if b0, cerr := rosmar.OpenBucket("rosmar://"+a.Dir+"/"+a.Name, a.Name, rosmar.CreateNew); cerr == nil && b0 != nil {
			out.CreateNewAccepted = true
			b0.Close(ctx)
		}
	}
	b, err := rosmar.OpenBucket("rosmar://"+a.Dir+"/"+a.Name, a.Name, rosmar.OpenMode(a.Mode))
	if err != nil {
		out.Err = "open: " + err.Error()
		return 0
	}
	out.OpenedAt = time.Now().UnixMilli()
	out.UUID, _ = b.UUID()
	list, _ := b.ListDataStores()
	for _, n := range list {
		out.Colls = append(out.Colls, n.ScopeName()+"."+n.CollectionName())
	}
	out.AdminFill = map[string]int{}
	for _, n := range list {
		if n.ScopeName() != "adm" {
			continue
		}
		ds, derr := b.NamedDataStore(n)
		if derr != nil {
			continue
		}
		cnt := 0
		for i := 0; i < 40; i++ {
			if _, _, gerr := ds.GetRaw(fmt.Sprintf("fill%d", i)); gerr == nil {
				cnt++
			}
		}
		out.AdminFill[n.ScopeName()+"."+n.CollectionName()] = cnt
	}
	var cols []*rosmar.Collection
	for ci := 0; ci < a.Colls; ci++ {
		// only collections that still exist are opened (NamedDataStore would re-create a dropped one)
		want := kv.CollNames[ci].ScopeName() + "." + kv.CollNames[ci].CollectionName()
		found := false
		for _, n := range out.Colls {
			if n == want {
				found = true
			}
		}
		if !found {
			cols = append(cols, nil)
			continue
		}
		var ds sgbucket.DataStore
		if ci == 0 {
			ds = b.DefaultDataStore()
		} else {
			ds, err = b.NamedDataStore(kv.CollNames[ci])
		}
		if ds == nil || err != nil {
			out.Err = fmt.Sprintf("collection %d: %v", ci, err)
			return 0
		}
		cols = append(cols, ds.(*rosmar.Collection))
	}
	// a feed, to see expiry deletions
	var expEvents atomic.Int64
	term := make(chan bool)
	if cols[0] != nil {
		_ = cols[0].StartDCPFeed(ctx, sgbucket.FeedArguments{ID: "rd", Backfill: sgbucket.FeedNoBackfill, Terminator: term}, func(e sgbucket.FeedEvent) bool {
			if string(e.Key) == "expiring" && e.Opcode == sgbucket.FeedOpDeletion {
				expEvents.Add(1)
			}
			return true
		}, nil)
	}
	if a.CountAll {
		for _, c := range cols {
			if c == nil {
				continue
			}
			var tombs, live atomic.Int64
			done := make(chan struct{})
			ferr := c.StartDCPFeed(ctx, sgbucket.FeedArguments{ID: "count", Backfill: 0, Dump: true, DoneChan: done}, func(e sgbucket.FeedEvent) bool {
				switch e.Opcode {
				case sgbucket.FeedOpDeletion:
					tombs.Add(1)
				case sgbucket.FeedOpMutation:
					live.Add(1)
				}
				return true
			}, nil)
			if ferr != nil {
				out.CountErr = ferr.Error()
				continue
			}
			select {
			case <-done:
			case <-time.After(30 * time.Second):
				out.CountErr = "dump feed did not finish within 30 s"
			}
			out.Tombstones += int(tombs.Load())
			out.LiveDocs += int(live.Load())
		}
	}
	if dd, err := cols[0].GetDDocs(); err == nil {
		out.DDocDefs = map[string]string{}
		for n, d := range dd {
			out.DDocs = append(out.DDocs, n)
			d := d
			out.DDocDefs[n] = ddocJSON(&d)
		}
		sort.Strings(out.DDocs)
	}
	for ci, c := range cols {
		if c == nil {
			continue
		}
		for _, k := range a.Keys {
			out.Docs[fmt.Sprintf("c%d/%s", ci, k)] = kv.ReadBack(c, k)
		}
	}
	if res, err := cols[0].View(ctx, "cd", "all", map[string]interface{}{}); err != nil {
		out.ViewErr = err.Error()
	} else {
		for _, row := range res.Rows {
			out.ViewAll = append(out.ViewAll, row.ID)
		}
		sort.Strings(out.ViewAll)
	}
	// pending expirations: reads only (they cannot arm the timer)
	if a.WaitExp > 0 {
		for ci := 0; ci < 2 && ci < len(cols); ci++ {
			if cols[ci] == nil {
				continue
			}
			key := fmt.Sprintf("c%d", ci)
			out.ExpGoneMs[key] = -1
			if e, err := cols[ci].GetExpiry(ctx, "expiring"); err == nil {
				out.ExpAbs[key] = e
			}
		}
		deadline := time.Now().Add(time.Duration(a.WaitExp) * time.Millisecond)
		for time.Now().Before(deadline) {
			all := true
			for ci := 0; ci < 2 && ci < len(cols); ci++ {
				key := fmt.Sprintf("c%d", ci)
				if cols[ci] == nil || out.ExpGoneMs[key] >= 0 {
					continue
				}
				if _, _, err := cols[ci].GetRaw("expiring"); err != nil {
					out.ExpGoneMs[key] = time.Now().UnixMilli() - out.OpenedAt
				} else {
					all = false
				}
			}
			if all {
				break
			}
			time.Sleep(20 * time.Millisecond)
		}
		time.Sleep(30 * time.Millisecond)
		out.ExpEvents = int(expEvents.Load())
	}
	for _, k := range a.Rewrite {
		if cols[0] == nil {
			break
		}
		_, before, gerr := cols[0].GetRaw(k)
		if gerr != nil {
			continue
		}
		rw := Rewrite{Key: k, Before: before}
		after, werr := cols[0].WriteCas(k, 0, before, []byte(`{"rewritten":"after the reopen"}`), 0)
		if werr != nil {
			rw.Err = werr.Error()
		}
		rw.After = after
		out.Rewrites = append(out.Rewrites, rw)
	}
	// new regular writes: their CAS must exceed everything acknowledged before
	for i := 0; i < a.NewWrites; i++ {
		cas, err := cols[0].WriteCas(fmt.Sprintf("after-reopen-%d", i), 0, 0, []byte(`{"a":1}`), 0)
		if err != nil {
			out.Err = "write after reopen: " + err.Error()
			break
		}
		out.NewCas = append(out.NewCas, cas)
	}
	close(term)
	b.Close(ctx)
	return 0
}
