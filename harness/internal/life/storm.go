package life

import (
	"context"
	"errors"
	"fmt"
	"os"
	"path/filepath"
	"sync"
	"sync/atomic"

	"verifharness/internal/rng"

	sgbucket "github.com/couchbase/sg-bucket"
	"github.com/couchbaselabs/rosmar"
)

var stormSerial atomic.Uint64

// OpenCloseStorm: an already-created bucket is opened and closed concurrently from many goroutines (each handle is
// probed while open). At quiescence the reference count must equal the handles still open and they must all work.
func OpenCloseStorm(tmp string, disk bool, goroutines, rounds int, r *rng.R) (ops int, problems []string) {
	name := fmt.Sprintf("st%d_%d", os.Getpid(), stormSerial.Add(1))
	url := rosmar.InMemoryURL
	dir := ""
	if disk {
		dir = filepath.Join(tmp, name)
		url = "rosmar://" + dir
	}
	ctx := context.Background()
	anchor, err := rosmar.OpenBucket(url, name, rosmar.CreateNew)
	if err != nil {
		return 0, []string{"setup|" + err.Error()}
	}
	defer func() {
		func() { defer func() { _ = recover() }(); _ = anchor.CloseAndDelete(ctx) }()
		if dir != "" {
			_ = os.RemoveAll(dir)
		}
	}()
	anchorDS := dsOf(anchor)
	if err := safeSet(anchorDS, "seed", "s"); err != nil {
		return 0, []string{"setup|" + err.Error()}
	}
	var mu sync.Mutex
	add := func(s string) { mu.Lock(); problems = append(problems, s); mu.Unlock() }
	var kept []*rosmar.Bucket
	var keptDS []sgbucket.DataStore
	var nops atomic.Int64
	var wg sync.WaitGroup
	for g := 0; g < goroutines; g++ {
		wg.Add(1)
		gr := rng.New(r.U64(), uint64(g))
		go func(g int, gr *rng.R) {
			defer wg.Done()
			defer func() {
				if p := recover(); p != nil {
					add(fmt.Sprintf("panic|goroutine %d panicked: %v", g, p))
				}
			}()
			for i := 0; i < rounds; i++ {
				mode := rosmar.CreateOrOpen
				if gr.Bool() {
					mode = rosmar.ReOpenExisting
				}
				b, err := rosmar.OpenBucket(url, name, rosmar.OpenMode(mode))
				nops.Add(1)
				if err != nil {
					add(fmt.Sprintf("open|opening an existing %s bucket concurrently failed: %v", ifs(disk, "on-disk", "in-memory"), err))
					continue
				}
				ds := dsOf(b)
				if v, err := safeGet(ds, "seed"); err != nil || v != "s" {
					add(fmt.Sprintf("probe|a freshly opened handle cannot read the bucket's data: %q %v", v, err))
				}
				if err := safeSet(ds, fmt.Sprintf("g%d_%d", g, i), "x"); err != nil {
					add(fmt.Sprintf("probe|a write through a freshly opened handle failed: %v", err))
				}
				switch gr.Intn(6) {
				case 0:
					mu.Lock()
					kept = append(kept, b) // stays open
					keptDS = append(keptDS, ds)
					mu.Unlock()
				case 1:
					b.Close(ctx)
					b.Close(ctx) // twice
					nops.Add(2)
				default:
					b.Close(ctx)
					nops.Add(1)
				}
				if gr.Intn(4) == 0 {
					if _, err := safeGet(ds, "seed"); err == nil && !containsB(kept, b, &mu) {
						add("closed|a closed handle still answers reads")
					} else if err != nil && !containsB(kept, b, &mu) && !errors.Is(err, rosmar.ErrBucketClosed) {
						add(fmt.Sprintf("closed-class|a closed handle fails with %q instead of the bucket-closed error", err))
					}
				}
			}
		}(g, gr)
	}
	wg.Wait()
	// quiescence
	counts, _ := rosmar.VerifRegistryCounts()
	want := 1 + len(kept)
	if int(counts[name]) != want {
		add(fmt.Sprintf("refcount|after the storm the registry counts %d references, %d handles are open", counts[name], want))
	}
	for i, ds := range append([]sgbucket.DataStore{anchorDS}, keptDS...) {
		if v, err := safeGet(ds, "seed"); err != nil || v != "s" {
			add(fmt.Sprintf("survivor|open handle %d of %d stopped working after other handles were closed: %q %v", i, want, v, err))
			break
		}
	}
	for _, b := range kept {
		b.Close(ctx)
	}
	if v, err := safeGet(anchorDS, "seed"); err != nil || v != "s" {
		add(fmt.Sprintf("survivor|the first handle stopped working after all others were closed: %q %v", v, err))
	}
	return int(nops.Load()), problems
}

func containsB(l []*rosmar.Bucket, b *rosmar.Bucket, mu *sync.Mutex) bool {
	mu.Lock()
	defer mu.Unlock()
	for _, x := range l {
		if x == b {
			return true
		}
	}
	return false
}
