package life

import (
	"context"
	"errors"
	"fmt"
	"os"
	"path/filepath"
	"sync"
	"sync/atomic"

	"verifharness/internal/rng"

	sgbucket "github.com/couchbase/sg-bucket"
	"github.com/couchbaselabs/rosmar"
)

var stormSerial atomic.Uint64

// OpenCloseStorm: an already-created bucket is opened and closed concurrently from many goroutines (each handle is
// probed while open). At quiescence the reference count must equal the handles still open and they must all work.
func OpenCloseStorm(tmp string, disk bool, goroutines, rounds int, r *rng.R) (ops int, problems []string) {
	name := fmt.Sprintf("st%d_%d", os.Getpid(), stormSerial.Add(1))
	url := rosmar.InMemoryURL
	dir := ""
	if disk {
		dir = filepath.Join(tmp, name)
		url = "rosmar://" + dir
	}
	ctx := context.Background()
	anchor, err := rosmar.OpenBucket(url, name, rosmar.CreateNew)
	if err != nil {
		return 0, []string{"setup|" + err.Error()}
	}
	defer func() {
		func() { defer func() { _ = recover() }(); _ = anchor.CloseAndDelete(ctx) }()
		if dir != "" {
			_ = os.RemoveAll(dir)
		}
	}()
	anchorDS := dsOf(anchor)
	if err := safeSet(anchorDS, "seed", "s"); err != nil {
		return 0, []string{"setup|" + err.Error()}
	}
	var mu sync.Mutex
	add := func(s string) { mu.Lock(); problems = append(problems, s); mu.Unlock() }
	var kept []*rosmar.Bucket
	var keptDS []sgbucket.DataStore
	var nops atomic.Int64
	var wg sync.WaitGroup
	for g := 0; g < goroutines; g++ {
		wg.Add(1)
		gr := rng.New(r.U64(), uint64(g))
		go func(g int, gr *rng.R) {
			defer wg.Done()
			defer func() {
				if p := recover(); p != nil {
					add(fmt.Sprintf("panic|goroutine %d panicked: %v", g, p))
				}
			}()
			for i := 0; i < rounds; i++ {
				mode := rosmar.CreateOrOpen
				if gr.Bool() {
					mode = rosmar.ReOpenExisting
				}
				b, err := rosmar.OpenBucket(url, name, rosmar.OpenMode(mode))
				nops.Add(1)
				if err != nil {
					add(fmt.Sprintf("open|opening an existing %s bucket concurrently failed: %v", ifs(disk, "on-disk", "in-memory"), err))
					continue
				}
				ds := dsOf(b)
				if v, err := safeGet(ds, "seed"); err != nil || v != "s" {
					add(fmt.Sprintf("probe|a freshly opened handle cannot read the bucket's data: %q %v", v, err))
				}
				if err := safeSet(ds, fmt.Sprintf("g%d_%d", g, i), "x"); err != nil {
					add(fmt.Sprintf("probe|a write through a freshly opened handle failed: %v", err))
				}
				switch gr.Intn(6) {
				case 0:
					mu.Lock()
					kept = append(kept, b) // stays open
					keptDS = append(keptDS, ds)
					mu.Unlock()
				case 1:
					b.Close(ctx)
					b.Close(ctx) // twice
					nops.Add(2)
				default:
					b.Close(ctx)
					nops.Add(1)
				}
				if gr.Intn(4) == 0 {
					if _, err := safeGet(ds, "seed"); err == nil && !containsB(kept, b, &mu) {
						add("closed|a closed handle still answers reads")
					} else if err != nil && !containsB(kept, b, &mu) && !errors.Is(err, rosmar.ErrBucketClosed) {
						add(fmt.Sprintf("closed-class|a closed handle fails with %q instead of the bucket-closed error", err))
					}
				}
			}
		}(g, gr)
	}
	wg.Wait()
	// quiescence
	counts, _ := rosmar.VerifRegistryCounts()
	want := 1 + len(kept)
	if int(counts[name]) != want {
		add(fmt.Sprintf("refcount|after the storm the registry counts %d references, %d handles are open", counts[name], want))
	}
	for i, ds := range append([]sgbucket.DataStore{anchorDS}, keptDS...) {
		if v, err := safeGet(ds, "seed"); err != nil || v != "s" {
			add(fmt.Sprintf("survivor|open handle %d of %d stopped working after other handles were closed: %q %v", i, want, v, err))
			break
		}
	}
	for _, b := range kept {
		b.Close(ctx)
	}
	if v, err := safeGet(anchorDS, "seed"); err != nil || v != "s" {
		add(fmt.Sprintf("survivor|the first handle stopped working after all others were closed: %q %v", v, err))
	}
	return int(nops.Load()), problems
}

func containsB(l []*rosmar.Bucket, b *rosmar.Bucket, mu *sync.Mutex) bool {
	mu.Lock()
	defer mu.Unlock()
	for _, x := range l {
		if x == b {
			return true
		}
	}
	return false
}

// ColdOpenStorm: an on-disk (or in-memory) bucket exists with NO open handle; several goroutines open it at the same
// instant (they all miss the registry), some close again (one of them twice). Every handle that is still open must
// work, the count must equal the open handles, and after all are closed the data must still be there.
func ColdOpenStorm(tmp string, disk bool, goroutines, rounds int, r *rng.R) (ops int, problems []string) {
	name := fmt.Sprintf("co%d_%d", os.Getpid(), stormSerial.Add(1))
	url := rosmar.InMemoryURL
	dir := ""
	if disk {
		dir = filepath.Join(tmp, name)
		url = "rosmar://" + dir
	}
	ctx := context.Background()
	first, err := rosmar.OpenBucket(url, name, rosmar.CreateNew)
	if err != nil {
		return 0, []string{"setup|" + err.Error()}
	}
	defer func() {
		if b, err := rosmar.OpenBucket(url, name, rosmar.CreateOrOpen); err == nil {
			func() { defer func() { _ = recover() }(); _ = b.CloseAndDelete(ctx) }()
		}
		if dir != "" {
			_ = os.RemoveAll(dir)
		}
	}()
	if err := safeSet(dsOf(first), "seed", "s"); err != nil {
		return 0, []string{"setup|" + err.Error()}
	}
	first.Close(ctx) // no handle is open now (an in-memory bucket stays registered, an on-disk one does not)
	var mu sync.Mutex
	add := func(s string) { mu.Lock(); problems = append(problems, s); mu.Unlock() }
	for round := 0; round < rounds; round++ {
		start := make(chan struct{})
		handles := make([]*rosmar.Bucket, goroutines)
		var wg sync.WaitGroup
		for g := 0; g < goroutines; g++ {
			wg.Add(1)
			go func(g int) {
				defer wg.Done()
				defer func() {
					if p := recover(); p != nil {
						add(fmt.Sprintf("panic|goroutine %d panicked: %v", g, p))
					}
				}()
				<-start
				b, err := rosmar.OpenBucket(url, name, rosmar.CreateOrOpen)
				if err != nil {
					add(fmt.Sprintf("open|concurrent first open of an existing %s bucket failed: %v", ifs(disk, "on-disk", "in-memory"), err))
					return
				}
				handles[g] = b
			}(g)
		}
		close(start)
		wg.Wait()
		ops += goroutines
		var open []*rosmar.Bucket
		for _, h := range handles {
			if h != nil {
				open = append(open, h)
			}
		}
		if len(open) == 0 {
			continue
		}
		// close all but one (one of them twice), then the survivor must still work
		keep := open[r.Intn(len(open))]
		twice := true
		for _, h := range open {
			if h == keep {
				continue
			}
			h.Close(ctx)
			if twice {
				h.Close(ctx)
				twice = false
			}
			ops++
		}
		counts, _ := rosmar.VerifRegistryCounts()
		if int(counts[name]) != 1 {
			add(fmt.Sprintf("refcount|%d handles were opened at once on a bucket with no open handle and all but one closed: the registry counts %d references", len(open), counts[name]))
		}
		kds := dsOf(keep)
		if v, err := safeGet(kds, "seed"); err != nil || v != "s" {
			add(fmt.Sprintf("survivor|the handle left open after a cold concurrent open of %d handles does not work: %q %v", len(open), v, err))
		}
		if err := safeSet(kds, fmt.Sprintf("r%d", round), "x"); err != nil {
			add(fmt.Sprintf("survivor|a write through the handle left open failed: %v", err))
		}
		keep.Close(ctx)
		ops++
		if len(problems) > 0 {
			break
		}
	}
	// everything closed: the data must still be there on reopen
	if b, err := rosmar.OpenBucket(url, name, rosmar.ReOpenExisting); err != nil {
		add(fmt.Sprintf("reopen|after the storm the bucket cannot be reopened: %v", err))
	} else {
		if v, err := safeGet(dsOf(b), "seed"); err != nil || v != "s" {
			add(fmt.Sprintf("data|after the storm the bucket's data is gone: %q %v", v, err))
		}
		b.Close(ctx)
	}
	// and it must be possible to delete it: the handles that lost the open races must not have left anything open
	// that keeps files in the bucket's directory
	if b, err := rosmar.OpenBucket(url, name, rosmar.CreateOrOpen); err == nil {
		var derr error
		func() {
			defer func() {
				if p := recover(); p != nil {
					derr = fmt.Errorf("panic: %v", p)
				}
			}()
			derr = b.CloseAndDelete(ctx)
		}()
		if derr != nil {
			add(fmt.Sprintf("delete|after the storm CloseAndDelete fails: %v", derr))
		} else if dir != "" {
			if _, serr := os.Stat(dir); serr == nil {
				add("delete|after the storm CloseAndDelete returned nil but the bucket's directory is still there")
			} else if nb, cerr := rosmar.OpenBucket(url, name, rosmar.CreateNew); cerr != nil {
				add(fmt.Sprintf("delete|after the storm and CloseAndDelete, CreateNew fails: %v", cerr))
			} else {
				if _, gerr := safeGet(dsOf(nb), "seed"); gerr == nil {
					add("delete|the bucket created after CloseAndDelete still holds the old data")
				}
				_ = nb.CloseAndDelete(ctx)
			}
		}
	}
	return ops, problems
}

// ColdCreateStorm: several goroutines open a bucket that does not exist yet (CreateOrOpen) at the same instant;
// every open that succeeds writes a key of its own. Whichever of them created the bucket, what was acknowledged
// through a handle that OpenBucket returned must be there: through the other handles, and after everything was
// closed and the bucket is opened again. (An open that fails is not judged: the statement does not pin it.)
func ColdCreateStorm(tmp string, disk bool, goroutines, rounds int, r *rng.R) (ops int, problems []string) {
	ctx := context.Background()
	var mu sync.Mutex
	add := func(s string) { mu.Lock(); problems = append(problems, s); mu.Unlock() }
	for round := 0; round < rounds && len(problems) == 0; round++ {
		name := fmt.Sprintf("cc%d_%d", os.Getpid(), stormSerial.Add(1))
		url, dir := rosmar.InMemoryURL, ""
		if disk {
			dir = filepath.Join(tmp, name)
			url = "rosmar://" + dir
		}
		start := make(chan struct{})
		handles := make([]*rosmar.Bucket, goroutines)
		acked := make([]bool, goroutines)
		var wg sync.WaitGroup
		for g := 0; g < goroutines; g++ {
			wg.Add(1)
			go func(g int) {
				defer wg.Done()
				defer func() {
					if p := recover(); p != nil {
						add(fmt.Sprintf("panic|goroutine %d panicked: %v", g, p))
					}
				}()
				<-start
				b, err := rosmar.OpenBucket(url, name, rosmar.CreateOrOpen)
				if err != nil {
					return
				}
				handles[g] = b
				if safeSet(dsOf(b), fmt.Sprintf("g%d", g), "v") == nil {
					acked[g] = true
				}
			}(g)
		}
		close(start)
		wg.Wait()
		ops += goroutines
		nOpen, nAcked := 0, 0
		var any *rosmar.Bucket
		for g, h := range handles {
			if h != nil {
				nOpen++
				any = h
			}
			if acked[g] {
				nAcked++
			}
		}
		if any != nil {
			for g := range handles {
				if !acked[g] {
					continue
				}
				if v, err := safeGet(dsOf(any), fmt.Sprintf("g%d", g)); err != nil || v != "v" {
					add(fmt.Sprintf("shared-store|%d goroutines created / opened a new %s bucket at once (%d succeeded); a key written and acknowledged through one handle is not readable through another: %q %v", goroutines, ifs(disk, "on-disk", "in-memory"), nOpen, v, err))
					break
				}
			}
		}
		for _, h := range handles {
			if h != nil {
				h.Close(ctx)
				ops++
			}
		}
		if nAcked > 0 {
			mode := rosmar.OpenMode(rosmar.ReOpenExisting)
			if !disk {
				mode = rosmar.OpenMode(rosmar.CreateOrOpen)
			}
			b, err := rosmar.OpenBucket(url, name, mode)
			if err != nil {
				add(fmt.Sprintf("reopen|%d goroutines created / opened a new %s bucket at once, %d of them succeeded and %d writes were acknowledged; after all handles were closed the bucket cannot be opened again: %v", goroutines, ifs(disk, "on-disk", "in-memory"), nOpen, nAcked, err))
			} else {
				for g := range handles {
					if !acked[g] {
						continue
					}
					if v, err := safeGet(dsOf(b), fmt.Sprintf("g%d", g)); err != nil || v != "v" {
						add(fmt.Sprintf("data|after a concurrent first creation of a %s bucket an acknowledged write is gone on reopen: %q %v", ifs(disk, "on-disk", "in-memory"), v, err))
						break
					}
				}
				func() { defer func() { _ = recover() }(); _ = b.CloseAndDelete(ctx) }()
			}
		}
		if dir != "" {
			_ = os.RemoveAll(dir)
		}
	}
	return
}

// MemoryURLWithPath: an on-disk bucket lives in a directory; an in-memory bucket (another name) is opened with a URL
// that carries the same path plus "?mode=memory" and is then deleted. Deleting the in-memory bucket must leave the
// on-disk bucket's files alone: after everything is closed it reopens with its data.
func MemoryURLWithPath(tmp string, memFirst bool) (problems []string) {
	ctx := context.Background()
	name := fmt.Sprintf("mp%d_%d", os.Getpid(), stormSerial.Add(1))
	dir := filepath.Join(tmp, name)
	diskURL := "rosmar://" + dir
	memURL := diskURL + "?mode=memory"
	defer os.RemoveAll(dir)
	openDisk := func(mode rosmar.OpenMode) (*rosmar.Bucket, error) { return rosmar.OpenBucket(diskURL, name, mode) }
	var mem *rosmar.Bucket
	var err error
	if memFirst {
		if mem, err = rosmar.OpenBucket(memURL, name+"_mem", rosmar.CreateNew); err != nil {
			return nil // this spelling of an in-memory URL is not accepted: nothing to judge
		}
	}
	d, err := openDisk(rosmar.CreateNew)
	if err != nil {
		if mem != nil {
			_ = mem.CloseAndDelete(ctx)
		}
		return []string{"setup|" + err.Error()}
	}
	if err := safeSet(dsOf(d), "kept", "on disk"); err != nil {
		return []string{"setup|" + err.Error()}
	}
	d.Close(ctx)
	if mem == nil {
		if mem, err = rosmar.OpenBucket(memURL, name+"_mem", rosmar.CreateNew); err != nil {
			return nil
		}
	}
	_ = safeSet(dsOf(mem), "volatile", "in memory")
	func() { defer func() { _ = recover() }(); _ = mem.CloseAndDelete(ctx) }()
	back, err := openDisk(rosmar.ReOpenExisting)
	if err != nil {
		return []string{fmt.Sprintf("memory-url|an in-memory bucket opened at %q (the directory of an on-disk bucket plus ?mode=memory) was deleted; afterwards the on-disk bucket cannot be reopened: %v", "rosmar://<dir>?mode=memory", err)}
	}
	defer func() { func() { defer func() { _ = recover() }(); _ = back.CloseAndDelete(ctx) }() }()
	if v, err := safeGet(dsOf(back), "kept"); err != nil || v != "on disk" {
		return []string{fmt.Sprintf("memory-url|after an in-memory bucket with the same path in its URL was deleted, the on-disk bucket's data is gone: %q %v", v, err)}
	}
	return nil
}
