package life

import (
	"context"
	"fmt"
	"os"
	"path/filepath"
	"runtime"
	"strings"
	"sync"
	"sync/atomic"
	"time"

	"verifharness/internal/rng"

	sgbucket "github.com/couchbase/sg-bucket"
	"github.com/couchbaselabs/rosmar"
)

var shutSerial atomic.Uint64

// ShutdownScenario: activities in flight while the store is shut down at a PRNG-chosen hook hit.
type ShutdownScenario struct {
	Disk         bool
	Handles      int
	Shutdown     string // "close-all", "delete", "drop", "close-one"
	Point        string // hook point whose Nth hit triggers the shutdown ("" = after a delay)
	Nth          int
	Activity     []string // subset of writers, feeds, views, expiry, touch
	StaleSibling bool     // a bucket of the same name and URL was deleted before; a handle of it is closed while this one is open
	Report       func(kind, msg string)
	Count        func(string, int64)
}

var shutdownViewMap = `function(doc, meta) { if (doc.n !== undefined) { emit(doc.n, null); } }`

// safely runs f under recover; a panic in the caller's goroutine is reported.
func (s *ShutdownScenario) safely(what string, f func()) {
	defer func() {
		if r := recover(); r != nil {
			buf := make([]byte, 4096)
			buf = buf[:runtime.Stack(buf, false)]
			s.Report("panic|"+what, fmt.Sprintf("%s panicked while the bucket was being shut down (%s): %v\n%s", what, s.Shutdown, r, buf))
		}
	}()
	f()
}

func (s *ShutdownScenario) Run(tmp string, r *rng.R) {
	name := fmt.Sprintf("sh%d_%d", os.Getpid(), shutSerial.Add(1))
	url, dir := rosmar.InMemoryURL, ""
	if s.Disk {
		dir = filepath.Join(tmp, name)
		url = "rosmar://" + dir
	}
	ctx := context.Background()
	// a bystander bucket that must stay usable throughout
	by, err := rosmar.OpenBucket(rosmar.InMemoryURL, name+"_by", rosmar.CreateNew)
	if err != nil {
		s.Report("setup", err.Error())
		return
	}
	defer func() { func() { defer func() { _ = recover() }(); _ = by.CloseAndDelete(ctx) }() }()
	byCol := by.DefaultDataStore()

	var stale *rosmar.Bucket
	if s.StaleSibling {
		// the predecessor: same name, same URL, two handles; deleted through one of them
		if p1, e1 := rosmar.OpenBucket(url, name, rosmar.CreateNew); e1 == nil {
			if p2, e2 := rosmar.OpenBucket(url, name, rosmar.ReOpenExisting); e2 == nil {
				stale = p2
			}
			s.safely("CloseAndDelete(predecessor)", func() { _ = p1.CloseAndDelete(ctx) })
		}
	}
	var handles []*rosmar.Bucket
	var cols [][2]*rosmar.Collection
	for h := 0; h < s.Handles; h++ {
		b, err := rosmar.OpenBucket(url, name, rosmar.CreateOrOpen)
		if err != nil {
			s.Report("setup", err.Error())
			return
		}
		handles = append(handles, b)
		var cc [2]*rosmar.Collection
		cc[0] = b.DefaultDataStore().(*rosmar.Collection)
		ds, err := b.NamedDataStore(collY)
		if err != nil {
			s.Report("setup", err.Error())
			return
		}
		cc[1] = ds.(*rosmar.Collection)
		cols = append(cols, cc)
	}
	defer func() {
		for _, h := range handles {
			func() { defer func() { _ = recover() }(); _ = h.CloseAndDelete(ctx) }()
		}
		if dir != "" {
			_ = os.RemoveAll(dir)
		}
	}()
	if stale != nil {
		// closing the leftover handle of the deleted predecessor must not touch the new bucket's reference count
		s.safely("Close(stale handle of the deleted predecessor)", func() { stale.Close(ctx) })
		s.Count("stale_predecessor_handles_closed", 1)
	}
	has := func(a string) bool {
		for _, x := range s.Activity {
			if x == a {
				return true
			}
		}
		return false
	}
	if has("views") {
		dd := &sgbucket.DesignDoc{Language: "javascript", Views: sgbucket.ViewMap{"v": sgbucket.ViewDef{Map: shutdownViewMap}}}
		_ = cols[0][0].PutDDoc(ctx, "dd", dd)
	}
	for i := 0; i < 10; i++ {
		_ = cols[0][i%2].Set(fmt.Sprintf("seed%d", i), 0, nil, []byte(fmt.Sprintf(`{"n":%d}`, i)))
	}

	var trigger sync.Once
	fire := make(chan struct{})
	var hits atomic.Int64
	if s.Point != "" {
		hold := time.Duration(200+r.Intn(800)) * time.Microsecond
		rosmar.VerifSetPointHandler(func(p string) {
			if p == s.Point && int(hits.Add(1)) == s.Nth {
				trigger.Do(func() { close(fire) })
				time.Sleep(hold) // hold the window open while the shutdown starts
			}
		})
		defer rosmar.VerifSetPointHandler(nil)
	}
	stop := make(chan struct{})
	var wg sync.WaitGroup
	var calls atomic.Int64
	run := func(name string, body func(i int)) {
		wg.Add(1)
		go func() {
			defer wg.Done()
			for i := 0; ; i++ {
				select {
				case <-stop:
					return
				default:
				}
				s.safely(name, func() { body(i) })
				calls.Add(1)
			}
		}()
	}
	if has("writers") {
		for w := 0; w < 2; w++ {
			w := w
			run("writer", func(i int) {
				c := cols[(w+i)%len(cols)][i%2]
				switch i % 4 {
				case 0:
					_ = c.Set(fmt.Sprintf("w%d", i%7), 0, nil, []byte(fmt.Sprintf(`{"n":%d}`, i)))
				case 1:
					_, _ = c.Update(fmt.Sprintf("w%d", i%7), 0, func(cur []byte) ([]byte, *uint32, bool, error) { return []byte(`{"n":1}`), nil, false, nil })
				case 2:
					_, _ = c.WriteWithXattrs(ctx, fmt.Sprintf("x%d", i%5), 0, 0, []byte(`{"n":2}`), map[string][]byte{"_sync": []byte(`{"s":1}`)}, nil, nil)
				default:
					_ = c.Delete(fmt.Sprintf("w%d", i%7))
				}
			})
		}
	}
	var feedDones []chan struct{}
	var liveTerms []chan bool
	var fmu sync.Mutex
	if has("feeds") {
		_ = cols[0][1].SetRaw("cpj:multi", 0, nil, []byte("not a checkpoint {"))
		run("feed-start", func(i int) {
			c := cols[i%len(cols)][i%2]
			done := make(chan struct{})
			term := make(chan bool)
			if i%5 == 4 {
				// a multi-collection feed one of whose parts cannot start (unreadable checkpoint document): the call is
				// refused, but whatever it started must end and its done channel close
				// (a call refused before anything was started - closed handle, dropped collection - leaves done alone, like a
				// refused single-collection feed; what a partly refused call leaves behind shows in the goroutine profile)
				err := handles[i%len(handles)].StartDCPFeed(ctx, sgbucket.FeedArguments{ID: "multi", Backfill: sgbucket.FeedResume, CheckpointPrefix: "cpj", Terminator: term, DoneChan: done,
					Scopes: map[string][]string{sgbucket.DefaultScope: {sgbucket.DefaultCollection}, collY.Scope: {collY.Collection}}}, func(sgbucket.FeedEvent) bool { return true }, nil)
				if err == nil {
					fmu.Lock()
					feedDones = append(feedDones, done)
					fmu.Unlock()
				}
				close(term)
				return
			}
			err := c.StartDCPFeed(ctx, sgbucket.FeedArguments{ID: fmt.Sprintf("s%d", i), Backfill: 0, Dump: i%3 == 0, Terminator: term, DoneChan: done}, func(sgbucket.FeedEvent) bool { return true }, nil)
			if err == nil {
				fmu.Lock()
				feedDones = append(feedDones, done)
				fmu.Unlock()
				if i%2 == 0 {
					close(term)
				} else {
					// at most 48 feeds stay registered at a time (every write fans out to all of them)
					fmu.Lock()
					liveTerms = append(liveTerms, term)
					var oldest chan bool
					if len(liveTerms) > 48 {
						oldest, liveTerms = liveTerms[0], liveTerms[1:]
					}
					fmu.Unlock()
					if oldest != nil {
						close(oldest)
					}
				}
			}
			time.Sleep(time.Duration((i*37)%400) * time.Microsecond)
		})
	}
	if has("views") {
		run("view", func(i int) {
			c := cols[i%len(cols)][0]
			p := map[string]interface{}{}
			if i%2 == 0 {
				p["stale"] = "updateAfter"
			}
			_, _ = c.View(ctx, "dd", "v", p)
		})
	}
	if has("ddocs") {
		// design documents are put, listed and deleted through the very handles that are being closed
		dd2 := &sgbucket.DesignDoc{Language: "javascript", Views: sgbucket.ViewMap{"w": sgbucket.ViewDef{Map: shutdownViewMap}}}
		for w := 0; w < 2; w++ {
			w := w
			run("design-doc", func(i int) {
				c := cols[(w+i)%len(cols)][i%2]
				switch i % 3 {
				case 0:
					_ = c.PutDDoc(ctx, fmt.Sprintf("dd%d", w), dd2)
				case 1:
					_, _ = c.GetDDocs()
				default:
					_ = c.DeleteDDoc(fmt.Sprintf("dd%d", w))
				}
			})
		}
	}
	expiring := has("expiry") || has("touch") || has("mass-expiry")
	if has("mass-expiry") {
		// many documents share one deadline, so that the expiration run is long enough for a shutdown to land inside it
		exp := uint32(time.Now().Unix()) + 1
		for i := 0; i < 500; i++ {
			_ = cols[0][i%2].SetRaw(fmt.Sprintf("m%d", i), exp, nil, []byte("x"))
		}
	}
	if has("expiry") {
		exp := uint32(time.Now().Unix()) + 1
		for i := 0; i < 4; i++ {
			_ = cols[0][i%2].Set(fmt.Sprintf("e%d", i), exp+uint32(i%2), nil, []byte(`{"n":9}`))
		}
	}
	if has("touch") {
		_ = cols[0][0].Set("t0", 0, nil, []byte(`{"n":8}`))
		_, _ = cols[0][0].Touch("t0", uint32(time.Now().Unix())+1)
	}
	// wait for the trigger
	delay := time.Duration(2+r.Intn(30)) * time.Millisecond
	if s.Point == "expiry.fire" {
		delay = 2500 * time.Millisecond
	}
	select {
	case <-fire:
		s.Count("shutdowns_at_hook:"+s.Point, 1)
	case <-time.After(delay):
		s.Count("shutdowns_after_delay", 1)
	}
	// the shutdown itself
	shutDone := make(chan struct{})
	go func() {
		defer close(shutDone)
		s.safely("shutdown:"+s.Shutdown, func() {
			switch s.Shutdown {
			case "close-all":
				for _, h := range handles {
					h.Close(ctx)
				}
			case "close-one":
				handles[0].Close(ctx)
			case "close+delete":
				// the usual teardown, raced: one handle was closed before; now the last open one is closed while the
				// bucket is deleted through the closed one
				if len(handles) < 2 {
					_ = handles[0].CloseAndDelete(ctx)
					break
				}
				handles[0].Close(ctx)
				var pair sync.WaitGroup
				pair.Add(2)
				go func() {
					defer pair.Done()
					s.safely("CloseAndDelete(closed handle)", func() { _ = handles[0].CloseAndDelete(ctx) })
				}()
				go func() {
					defer pair.Done()
					s.safely("Close(last open handle)", func() {
						for _, h := range handles[1:] {
							h.Close(ctx)
						}
					})
				}()
				pair.Wait()
			case "delete":
				_ = handles[len(handles)-1].CloseAndDelete(ctx)
			case "drop":
				_ = handles[0].DropDataStore(collY)
			}
		})
	}()
	select {
	case <-shutDone:
	case <-time.After(20 * time.Second):
		s.Report("hang|shutdown:"+s.Shutdown, fmt.Sprintf("%s did not return within 20s with %v in flight: %s", s.Shutdown, s.Activity, BlockedSummary()))
		return
	}
	time.Sleep(3 * time.Millisecond)
	close(stop)
	waited := make(chan struct{})
	go func() { wg.Wait(); close(waited) }()
	select {
	case <-waited:
	case <-time.After(20 * time.Second):
		s.Report("hang|activity", fmt.Sprintf("calls in flight during %s never returned (20s): %s", s.Shutdown, BlockedSummary()))
		return
	}
	s.Count("calls_during_shutdown", calls.Load())
	// the bystander bucket must still work (no lock left held)
	byDone := make(chan error, 1)
	go func() { byDone <- byCol.SetRaw("after", 0, nil, []byte("x")) }()
	select {
	case err := <-byDone:
		if err != nil {
			s.Report("bystander", "an unrelated bucket stopped working after the shutdown: "+err.Error())
		}
	case <-time.After(10 * time.Second):
		s.Report("hang|bystander", "a write to an unrelated bucket blocks after the shutdown: "+BlockedSummary())
		return
	}
	storeDown := s.Shutdown == "delete" || s.Shutdown == "close+delete" || (s.Shutdown == "close-all" && s.Disk)
	if s.Shutdown == "delete" && len(handles) > 1 {
		// the bucket was deleted through the last handle; handle 0 was never closed and still has its collections
		// cached: a feed started through it now has lost the race and must be refused (nobody could ever end it)
		s.safely("StartDCPFeed(surviving handle)", func() {
			done := make(chan struct{})
			err := cols[0][0].StartDCPFeed(ctx, sgbucket.FeedArguments{ID: "late", Backfill: sgbucket.FeedNoBackfill, DoneChan: done}, func(sgbucket.FeedEvent) bool { return true }, nil)
			s.Count("feeds_tried_through_a_surviving_handle_of_a_deleted_bucket", 1)
			if err == nil {
				s.Report("late-feed|"+s.Shutdown, "a live feed started through a still-open handle after its sibling had deleted the bucket was accepted (StartDCPFeed returned nil): nothing can end it any more")
			}
		})
	}
	if s.Shutdown == "close-one" || s.Shutdown == "drop" || (s.Shutdown == "close-all" && !s.Disk) {
		// the store is still up: a remaining / fresh handle must work
		probe := func() error {
			h, err := rosmar.OpenBucket(url, name, rosmar.CreateOrOpen)
			if err != nil {
				return err
			}
			defer h.Close(ctx)
			ds := h.DefaultDataStore()
			if ds == nil {
				return fmt.Errorf("DefaultDataStore is nil")
			}
			return ds.SetRaw("probe", 0, nil, []byte("p"))
		}
		pd := make(chan error, 1)
		go func() { pd <- probe() }()
		select {
		case err := <-pd:
			if err != nil {
				s.Report("survivor|"+s.Shutdown, fmt.Sprintf("after %s the bucket (still existing) cannot be used through a fresh handle: %v", s.Shutdown, err))
			}
		case <-time.After(10 * time.Second):
			s.Report("hang|survivor", "opening / writing the still-existing bucket blocks after "+s.Shutdown+": "+BlockedSummary())
			return
		}
	}
	// wait past every armed deadline: a timer firing on a shut-down store kills the process (observed by the supervisor)
	if expiring {
		time.Sleep(2600 * time.Millisecond)
	}
	if storeDown {
		// feeds started during the run must have ended
		fmu.Lock()
		dones := append([]chan struct{}(nil), feedDones...)
		fmu.Unlock()
		for _, d := range dones {
			select {
			case <-d:
			case <-time.After(5 * time.Second):
				s.Report("feed-alive|"+s.Shutdown, "a feed started before the store was shut down never ended")
				return
			}
		}
		time.Sleep(20 * time.Millisecond)
		if n := leaked(); n != "" {
			time.Sleep(400 * time.Millisecond)
			if n = leaked(); n != "" {
				s.Report("goroutine-leak|"+s.Shutdown, "after the store was shut down these rosmar goroutines are still alive: "+n)
			}
		}
		s.Count("goroutine_profiles_after_shutdown", 1)
	}
}

func leaked() string {
	buf := make([]byte, 2<<20)
	buf = buf[:runtime.Stack(buf, true)]
	d := string(buf)
	var out []string
	// (prefixes: the closures a feed starts - its terminator watcher is "(*dcpFeed).run.func1" - count too)
	for _, fn := range []string{"rosmar.(*dcpFeed).run", "rosmar.(*expiryManager).runExpiry", "rosmar.(*Collection).updateView", "rosmar.(*Bucket).StartDCPFeed.func"} {
		if n := strings.Count(d, fn); n > 0 {
			out = append(out, fmt.Sprintf("%dx %s", n, strings.TrimPrefix(fn, "rosmar.")))
		}
	}
	return strings.Join(out, ", ")
}

// BlockedSummary lists rosmar functions of goroutines currently waiting on a mutex.
func BlockedSummary() string {
	buf := make([]byte, 2<<20)
	buf = buf[:runtime.Stack(buf, true)]
	var out []string
	for _, blk := range strings.Split(string(buf), "\n\n") {
		first := blk
		if i := strings.IndexByte(blk, '\n'); i > 0 {
			first = blk[:i]
		}
		if !(strings.Contains(first, "sync.Mutex.Lock") || strings.Contains(first, "semacquire") || strings.Contains(first, "sync.Cond.Wait")) {
			continue
		}
		for _, line := range strings.Split(blk, "\n") {
			if strings.HasPrefix(line, "github.com/couchbaselabs/rosmar.") {
				fn := strings.TrimPrefix(line, "github.com/couchbaselabs/rosmar.")
				if i := strings.LastIndex(fn, "("); i > 0 {
					fn = fn[:i]
				}
				out = append(out, fn)
				break
			}
		}
	}
	if len(out) == 0 {
		return "(no rosmar goroutine is waiting on a lock)"
	}
	return "blocked on locks in: " + strings.Join(out, ", ")
}
