package life

import (
	"context"
	"fmt"
	"os"
	"path/filepath"
	"runtime"
	"strings"
	"sync"
	"sync/atomic"
	"time"

	"verifharness/internal/rng"

	sgbucket "github.com/couchbase/sg-bucket"
	"github.com/couchbaselabs/rosmar"
)

var feedSerial atomic.Uint64

var collY = sgbucket.DataStoreNameImpl{Scope: "ls", Collection: "y"}

// feed kinds
const (
	FLive = iota
	FBackfillLive
	FDump
	FMulti
	FDumpNoBackfill // Dump with FeedNoBackfill: nothing to deliver, ends at once
	FMultiDump      // Dump over both collections through Bucket.StartDCPFeed: the coalesced done channel closes
	FCheckpoint     // backfill + live with a checkpoint prefix: when the store shuts down under it, its last checkpoint write fails
	FPreTerminated  // live feed whose terminator is closed already when it is started: it must report done like any other
	FMultiPartial   // multi-collection feed one of whose parts cannot start (unreadable checkpoint document in Y): the call fails, its done channel must still close
	NFeedKinds
)

var feedKindNames = []string{"live", "backfill+live", "dump", "multi-collection", "dump-nobackfill", "multi-collection-dump", "checkpointed", "terminator-closed-before-start", "multi-collection-partial"}

func isDumpKind(k int) bool { return k == FDump || k == FDumpNoBackfill || k == FMultiDump }

type lfeed struct {
	id          int
	kind        int
	handle      int
	coll        int // 0 = default (X), 1 = named (Y); multi covers both
	term        chan bool
	done        chan struct{}
	mu          sync.Mutex
	got         map[string]bool // tokens received
	after       int             // callbacks after done was closed
	termed      bool
	expectEnded bool
	partial     bool // its start was refused for one collection; whether the other part runs is not pinned, only that done closes
}

func (f *lfeed) cb(e sgbucket.FeedEvent) bool {
	f.mu.Lock()
	select {
	case <-f.done:
		f.after++
	default:
	}
	if e.Opcode == sgbucket.FeedOpMutation {
		f.got[string(e.Key)] = true
	}
	f.mu.Unlock()
	return true
}

func (f *lfeed) has(key string) bool { f.mu.Lock(); defer f.mu.Unlock(); return f.got[key] }

// FeedScenario is one feed-lifecycle script.
type FeedScenario struct {
	Disk     bool
	H2OpensY bool
	Feeds    [][3]int // kind, handle, coll
	Actions  []string
	Report   func(kind, msg string)
	Cell     func(string)
	Count    func(string, int64)
	steps    []string
}

const feedBound = 10 * time.Second

// Run executes the script. Expectations follow the statement of C16 (and C11's "drop removes its feeds").
func (s *FeedScenario) Run(tmp string, r *rng.R) {
	name := fmt.Sprintf("fd%d_%d", os.Getpid(), feedSerial.Add(1))
	url, dir := rosmar.InMemoryURL, ""
	if s.Disk {
		dir = filepath.Join(tmp, name)
		url = "rosmar://" + dir
	}
	ctx := context.Background()
	var handles [2]*rosmar.Bucket
	var open [2]bool
	var colls [2][2]*rosmar.Collection
	deleted := false
	for h := 0; h < 2; h++ {
		b, err := rosmar.OpenBucket(url, name, rosmar.CreateOrOpen)
		if err != nil {
			s.Report("setup", "cannot open bucket: "+err.Error())
			return
		}
		handles[h], open[h] = b, true
		colls[h][0] = b.DefaultDataStore().(*rosmar.Collection)
		if h == 0 || s.H2OpensY {
			ds, err := b.NamedDataStore(collY)
			if err != nil {
				s.Report("setup", "cannot create collection: "+err.Error())
				return
			}
			colls[h][1] = ds.(*rosmar.Collection)
		}
	}
	defer func() {
		for h := 0; h < 2; h++ {
			func() { defer func() { _ = recover() }(); _ = handles[h].CloseAndDelete(ctx) }()
		}
		if dir != "" {
			_ = os.RemoveAll(dir)
		}
	}()
	yDropped := false
	// some pre-existing documents (for backfill / dump feeds)
	_ = colls[0][0].SetRaw("pre", 0, nil, []byte("p"))
	_ = colls[0][1].SetRaw("pre", 0, nil, []byte("p"))

	var feeds []*lfeed
	for i, spec := range s.Feeds {
		f := &lfeed{id: i, kind: spec[0], handle: spec[1], coll: spec[2], term: make(chan bool), done: make(chan struct{}), got: map[string]bool{}}
		if f.coll == 1 && colls[f.handle][1] == nil {
			f.handle = 0 // only handle 0 has opened Y
		}
		args := sgbucket.FeedArguments{ID: fmt.Sprintf("f%d", i), Terminator: f.term, DoneChan: f.done, Backfill: sgbucket.FeedNoBackfill}
		var err error
		switch f.kind {
		case FLive:
			err = colls[f.handle][f.coll].StartDCPFeed(ctx, args, f.cb, nil)
		case FBackfillLive:
			args.Backfill = 0
			err = colls[f.handle][f.coll].StartDCPFeed(ctx, args, f.cb, nil)
		case FPreTerminated:
			close(f.term)
			f.termed, f.expectEnded = true, true
			if i%2 == 1 {
				args.Backfill = 0
			}
			err = colls[f.handle][f.coll].StartDCPFeed(ctx, args, f.cb, nil)
		case FCheckpoint:
			args.Backfill, args.CheckpointPrefix = sgbucket.FeedResume, fmt.Sprintf("cp:f%d", i)
			err = colls[f.handle][f.coll].StartDCPFeed(ctx, args, f.cb, nil)
		case FDump:
			args.Backfill, args.Dump = 0, true
			err = colls[f.handle][f.coll].StartDCPFeed(ctx, args, f.cb, nil)
			f.expectEnded = true
		case FMulti:
			args.Scopes = map[string][]string{sgbucket.DefaultScope: {sgbucket.DefaultCollection}, collY.Scope: {collY.Collection}}
			f.handle = 0
			err = handles[0].StartDCPFeed(ctx, args, f.cb, nil)
		case FMultiPartial:
			_ = colls[0][1].SetRaw(fmt.Sprintf("cpj:f%d", i), 0, nil, []byte("not a checkpoint {"))
			args.Backfill, args.CheckpointPrefix = sgbucket.FeedResume, "cpj"
			args.Scopes = map[string][]string{sgbucket.DefaultScope: {sgbucket.DefaultCollection}, collY.Scope: {collY.Collection}}
			f.handle = 0
			if perr := handles[0].StartDCPFeed(ctx, args, f.cb, nil); perr != nil {
				f.partial = true // refused, as it should be
				s.Count("multi_collection_feeds_with_a_part_that_cannot_start", 1)
			} else {
				f.kind = FMulti
			}
		case FDumpNoBackfill:
			args.Dump = true
			err = colls[f.handle][f.coll].StartDCPFeed(ctx, args, f.cb, nil)
			f.expectEnded = true
		case FMultiDump:
			args.Backfill, args.Dump = 0, true
			args.Scopes = map[string][]string{sgbucket.DefaultScope: {sgbucket.DefaultCollection}, collY.Scope: {collY.Collection}}
			f.handle = 0
			err = handles[0].StartDCPFeed(ctx, args, f.cb, nil)
			f.expectEnded = true
		}
		if err != nil {
			s.Report("start|"+feedKindNames[f.kind], fmt.Sprintf("cannot start %s feed: %v", feedKindNames[f.kind], err))
			return
		}
		feeds = append(feeds, f)
		s.Cell(fmt.Sprintf("feed|%s|h%d|c%d|%s", feedKindNames[f.kind], f.handle, f.coll, ifs(s.Disk, "disk", "mem")))
	}
	// a background writer keeps both collections busy through whatever handle is open
	stopW := make(chan struct{})
	var wwg sync.WaitGroup
	wwg.Add(1)
	var mu sync.Mutex // guards open/handles view for the writer
	go func() {
		defer wwg.Done()
		i := 0
		for {
			select {
			case <-stopW:
				return
			default:
			}
			mu.Lock()
			var c *rosmar.Collection
			for h := 0; h < 2; h++ {
				if open[h] {
					c = colls[h][i%2]
					if c == nil {
						c = colls[h][0]
					}
					break
				}
			}
			mu.Unlock()
			if c != nil {
				func() { defer func() { _ = recover() }(); _ = c.SetRaw(fmt.Sprintf("bg%d", i%5), 0, nil, []byte("x")) }()
			}
			i++
			time.Sleep(300 * time.Microsecond)
		}
	}()
	defer func() { close(stopW); wwg.Wait() }()

	tokN := 0
	// probe: which feeds receive a fresh write on their collection, which are ended
	check := func(after string) {
		// 1. ended feeds: done closed within the bound
		for _, f := range feeds {
			if f.expectEnded {
				select {
				case <-f.done:
					s.Count("done_channel_observations", 1)
				case <-time.After(feedBound):
					s.Report("not-ended|"+feedKindNames[f.kind]+"|"+actionKind(after), fmt.Sprintf("%s feed %d (started through handle %d on %s) did not end within %s after %s   [script: %s]", feedKindNames[f.kind], f.id, f.handle, ifs(f.coll == 0, "X", "Y"), feedBound, after, strings.Join(s.steps, " ")))
					f.expectEnded = false // reported once
					f.termed = true
				}
			}
		}
		if deleted || (!open[0] && !open[1]) {
			return
		}
		// 2. running feeds: a fresh write on their collection must arrive
		wh := 0
		if !open[0] {
			wh = 1
		}
		for ci := 0; ci < 2; ci++ {
			if ci == 1 && (yDropped || colls[wh][1] == nil) {
				continue
			}
			tokN++
			key := fmt.Sprintf("tok%d", tokN)
			if err := colls[wh][ci].SetRaw(key, 0, nil, []byte("t")); err != nil {
				s.Report("write-failed|"+actionKind(after), fmt.Sprintf("a write through open handle %d failed after %s: %v", wh, after, err))
				continue
			}
			for _, f := range feeds {
				covers := f.coll == ci || f.kind == FMulti
				if !covers || isDumpKind(f.kind) || f.partial {
					continue
				}
				ended := f.termed
				if ended {
					continue
				}
				select {
				case <-f.done:
					s.Report("done-early|"+feedKindNames[f.kind]+"|"+actionKind(after), fmt.Sprintf("the done channel of %s feed %d closed after %s although the feed should still be running (and may still deliver)   [script: %s]", feedKindNames[f.kind], f.id, after, strings.Join(s.steps, " ")))
					f.termed = true
					continue
				default:
				}
				deadline := time.Now().Add(feedBound)
				for !f.has(key) && time.Now().Before(deadline) {
					time.Sleep(500 * time.Microsecond)
				}
				s.Count("barrier_checks", 1)
				if !f.has(key) {
					s.Report("starved|"+feedKindNames[f.kind]+"|"+actionKind(after), fmt.Sprintf("%s feed %d (handle %d, %s) should still be running after %s but did not receive a fresh write within %s   [script: %s]", feedKindNames[f.kind], f.id, f.handle, ifs(ci == 0, "X", "Y"), after, feedBound, strings.Join(s.steps, " ")))
					f.termed = true // report once
				}
			}
		}
		// 3. no callback after done
		for _, f := range feeds {
			f.mu.Lock()
			a := f.after
			f.mu.Unlock()
			if a > 0 {
				s.Report("callback-after-done|"+feedKindNames[f.kind], fmt.Sprintf("feed %d's callback was invoked %d times after its done channel closed", f.id, a))
				f.mu.Lock()
				f.after = 0
				f.mu.Unlock()
			}
		}
	}
	check("start")
	for _, a := range s.Actions {
		s.steps = append(s.steps, a)
		var panicked any
		func() {
			defer func() { panicked = recover() }()
			switch {
			case strings.HasPrefix(a, "term"):
				i := int(a[4] - '0')
				if i < len(feeds) && !feeds[i].termed {
					close(feeds[i].term)
					feeds[i].termed, feeds[i].expectEnded = true, true
				}
			case a == "dropY":
				if yDropped || deleted {
					return
				}
				// usually through handle 0 (which created Y); sometimes through handle 1, which - unless H2OpensY -
				// has never opened Y: the collection's feeds were all started through handle 0 then
				dh := 0
				if open[1] && (!open[0] || len(s.steps)%3 == 0) {
					dh = 1
				}
				if !open[dh] {
					return
				}
				if colls[dh][1] == nil {
					s.Count("drops_through_a_handle_that_never_opened_the_collection", 1)
				}
				if err := handles[dh].DropDataStore(collY); err != nil {
					s.Report("drop-failed", "DropDataStore failed: "+err.Error())
					return
				}
				yDropped = true
				for _, f := range feeds {
					if f.coll == 1 && f.kind != FMulti && f.kind != FMultiDump && !f.partial && !f.termed {
						f.termed, f.expectEnded = true, true // its collection is gone
					}
				}
			case a == "dropYclosed":
				// DropDataStore through a handle that has been closed: whatever it answers (the bucket-closed error is
				// C13's business), a call that is refused must not have ended the collection's feeds
				h := -1
				for i := 0; i < 2; i++ {
					if !open[i] && open[1-i] {
						h = i
					}
				}
				if h < 0 || yDropped || deleted {
					return
				}
				s.Count("drops_tried_through_a_closed_handle", 1)
				if err := handles[h].DropDataStore(collY); err == nil {
					yDropped = true
					for _, f := range feeds {
						if f.coll == 1 && f.kind != FMulti && f.kind != FMultiDump && !f.partial && !f.termed {
							f.termed, f.expectEnded = true, true
						}
					}
				}
			case a == "close0" || a == "close1":
				h := int(a[5] - '0')
				if !open[h] {
					if !deleted {
						// closing a handle again must not change anything for the other handle and its feeds
						handles[h].Close(ctx)
						s.Count("handles_closed_twice", 1)
					}
					return
				}
				mu.Lock()
				open[h] = false
				mu.Unlock()
				handles[h].Close(ctx)
				if open[1-h] {
					// a multi-collection feed through the closed handle must be refused (its collections may still be
					// cached by that handle), not half-started with a done channel nobody will close
					pdone := make(chan struct{})
					perr := handles[h].StartDCPFeed(ctx, sgbucket.FeedArguments{ID: "closedprobe", Backfill: sgbucket.FeedNoBackfill, DoneChan: pdone,
						Scopes: map[string][]string{sgbucket.DefaultScope: {sgbucket.DefaultCollection}, collY.Scope: {collY.Collection}}}, func(sgbucket.FeedEvent) bool { return true }, nil)
					s.Count("multi_collection_feeds_tried_through_a_closed_handle", 1)
					if perr == nil && !yDropped {
						s.Report("closed-handle-feed", fmt.Sprintf("Bucket.StartDCPFeed over two collections through handle %d, which had been closed, returned nil instead of the bucket-closed error   [script: %s]", h, strings.Join(s.steps, " ")))
					}
				}
				if s.Disk && !open[0] && !open[1] {
					for _, f := range feeds { // last handle of an on-disk bucket: the store shuts down
						if !f.termed {
							f.termed, f.expectEnded = true, true
						}
					}
				}
			case a == "delete":
				h := 0
				if !open[0] {
					h = 1
				}
				if !open[h] {
					return
				}
				if open[0] != open[1] && len(s.steps)%2 == 0 {
					h = 1 - h // delete the bucket through the handle that was closed before (the clean-up idiom)
				}
				mu.Lock()
				open[0], open[1] = false, false
				mu.Unlock()
				deleted = true
				if err := handles[h].CloseAndDelete(ctx); err != nil {
					s.Report("delete-failed", "CloseAndDelete failed: "+err.Error())
				}
				for _, f := range feeds {
					if !f.termed {
						f.termed, f.expectEnded = true, true
					}
				}
			}
		}()
		if panicked != nil {
			s.Report("panic|"+actionKind(a), fmt.Sprintf("%s panicked: %v   [script: %s]", a, panicked, strings.Join(s.steps, " ")))
		}
		s.Cell("action|" + actionKind(a) + "|" + ifs(s.Disk, "disk", "mem"))
		check(a)
	}
	// a feed whose start was refused for one of its collections: once its terminator is closed (or the store is
	// gone) the caller's done channel must close like any other
	fin := false
	for _, f := range feeds {
		if f.partial && !f.termed {
			close(f.term)
			f.termed, f.expectEnded, fin = true, true, true
		}
	}
	if fin {
		check("the terminator of a partly refused feed")
	}
	// store shut down? then no feed goroutine may be left
	if deleted || (s.Disk && !open[0] && !open[1]) {
		time.Sleep(20 * time.Millisecond)
		if n := feedGoroutines(); n > 0 {
			time.Sleep(300 * time.Millisecond)
			if n = feedGoroutines(); n > 0 {
				s.Report("goroutine-leak", fmt.Sprintf("%d dcpFeed.run goroutine(s) still alive after the store was shut down   [script: %s]", n, strings.Join(s.steps, " ")))
			}
		}
		s.Count("goroutine_profiles_inspected", 1)
	}
}

func actionKind(a string) string {
	if strings.HasPrefix(a, "term") {
		return "terminator"
	}
	if strings.HasPrefix(a, "close") {
		return "close-handle"
	}
	return a
}

// feedGoroutines counts goroutines currently inside rosmar's feed run loop.
func feedGoroutines() int {
	buf := make([]byte, 1<<20)
	buf = buf[:runtime.Stack(buf, true)]
	return strings.Count(string(buf), "rosmar.(*dcpFeed).run") // (prefix: the terminator watcher closure counts too)
}

// QueuedTerminator: a feed with many events still queued has its terminator closed while its callback is parked
// on the first event. After the callback returns the feed must end without working through the queue.
func QueuedTerminator(tmp string, disk bool, kind int, docs int) (callsAfter int, msg string) {
	return QueuedEnd(tmp, disk, kind, docs, "terminator")
}

// QueuedEnd is the same for the other ways a feed ends under a parked callback: how = "terminator", "delete"
// (CloseAndDelete) or "close-last" (Close of the only handle of an on-disk bucket).
func QueuedEnd(tmp string, disk bool, kind int, docs int, how string) (callsAfter int, msg string) {
	name := fmt.Sprintf("qt%d_%d", os.Getpid(), feedSerial.Add(1))
	url, dir := rosmar.InMemoryURL, ""
	if disk {
		dir = filepath.Join(tmp, name)
		url = "rosmar://" + dir
	}
	ctx := context.Background()
	b, err := rosmar.OpenBucket(url, name, rosmar.CreateNew)
	if err != nil {
		return 0, "setup|" + err.Error()
	}
	defer func() {
		func() { defer func() { _ = recover() }(); _ = b.CloseAndDelete(ctx) }()
		if dir != "" {
			_ = os.RemoveAll(dir)
		}
	}()
	col := b.DefaultDataStore().(*rosmar.Collection)
	for i := 0; i < docs; i++ {
		_ = col.SetRaw(fmt.Sprintf("d%d", i), 0, nil, []byte("x"))
	}
	term, done := make(chan bool), make(chan struct{})
	first, release := make(chan struct{}), make(chan struct{})
	var once sync.Once
	var total, after atomic.Int64
	var released atomic.Bool
	args := sgbucket.FeedArguments{ID: "qt", Backfill: 0, Dump: kind == FDump, Terminator: term, DoneChan: done}
	if kind == FCheckpoint {
		args.Backfill, args.CheckpointPrefix = sgbucket.FeedResume, "cp:qt"
	}
	err = col.StartDCPFeed(ctx, args, func(e sgbucket.FeedEvent) bool {
		if e.Opcode != sgbucket.FeedOpMutation {
			return true
		}
		total.Add(1)
		if released.Load() {
			after.Add(1)
		}
		once.Do(func() { close(first); <-release })
		return true
	}, nil)
	if err != nil {
		return 0, "setup|" + err.Error()
	}
	select {
	case <-first:
	case <-time.After(feedBound):
		return 0, "setup|the feed delivered nothing"
	}
	switch how {
	case "terminator":
		close(term)
	case "delete":
		if err := b.CloseAndDelete(ctx); err != nil {
			return 0, "setup|CloseAndDelete: " + err.Error()
		}
	case "close-last":
		b.Close(ctx)
	}
	time.Sleep(150 * time.Millisecond) // let the feed notice
	released.Store(true)
	close(release)
	select {
	case <-done:
	case <-time.After(feedBound):
		return int(after.Load()), fmt.Sprintf("not-ended|%s|%s feed did not end within %s of %s (callback parked meanwhile)", how, feedKindNames[kind], feedBound, howText(how))
	}
	time.Sleep(20 * time.Millisecond)
	if n := after.Load(); n > 2 {
		return int(n), fmt.Sprintf("callbacks-after-%s|%s feed: the callback was invoked %d more times after %s (%d documents were queued)", how, feedKindNames[kind], n, howText(how), docs)
	}
	return int(after.Load()), ""
}

func howText(how string) string {
	switch how {
	case "delete":
		return "CloseAndDelete had returned"
	case "close-last":
		return "the last handle of the on-disk bucket had been closed"
	}
	return "the terminator had been closed"
}

// RecreatedCollectionSweep: an expiry sweep runs while the first incarnation of collection Y exists; Y is dropped
// and created again and a live feed is started on the new incarnation; then a document of another collection
// expires. Nobody ended the feed: it must still deliver a fresh write to Y (and its done channel stay open).
func RecreatedCollectionSweep(tmp string, disk bool) string {
	name := fmt.Sprintf("rs%d_%d", os.Getpid(), feedSerial.Add(1))
	url, dir := rosmar.InMemoryURL, ""
	if disk {
		dir = filepath.Join(tmp, name)
		url = "rosmar://" + dir
	}
	ctx := context.Background()
	b, err := rosmar.OpenBucket(url, name, rosmar.CreateNew)
	if err != nil {
		return "setup|" + err.Error()
	}
	defer func() {
		func() { defer func() { _ = recover() }(); _ = b.CloseAndDelete(ctx) }()
		if dir != "" {
			_ = os.RemoveAll(dir)
		}
	}()
	expire := func(c sgbucket.DataStore, key string) string {
		if err := c.SetRaw(key, 1, nil, []byte("x")); err != nil {
			return "setup|" + err.Error()
		}
		for t := 0; t < 1200; t++ {
			if _, _, err := c.GetRaw(key); err != nil {
				return ""
			}
			time.Sleep(5 * time.Millisecond)
		}
		return "setup|a document with a one-second expiry was still readable after 6 s"
	}
	y1, err := b.NamedDataStore(collY)
	if err != nil {
		return "setup|" + err.Error()
	}
	if m := expire(y1, "first"); m != "" {
		return m
	}
	if err := b.DropDataStore(collY); err != nil {
		return "setup|" + err.Error()
	}
	y2, err := b.NamedDataStore(collY)
	if err != nil {
		return "setup|" + err.Error()
	}
	f := &lfeed{term: make(chan bool), done: make(chan struct{}), got: map[string]bool{}}
	defer close(f.term)
	if err := y2.(*rosmar.Collection).StartDCPFeed(ctx, sgbucket.FeedArguments{ID: "rs", Backfill: sgbucket.FeedNoBackfill, Terminator: f.term, DoneChan: f.done}, f.cb, nil); err != nil {
		return "setup|" + err.Error()
	}
	if m := expire(b.DefaultDataStore(), "second"); m != "" {
		return m
	}
	time.Sleep(50 * time.Millisecond)
	select {
	case <-f.done:
		return "done-early|the done channel of a live feed on a re-created collection closed when a document of another collection expired; nobody had ended the feed"
	default:
	}
	if err := y2.SetRaw("tok", 0, nil, []byte("t")); err != nil {
		return "setup|" + err.Error()
	}
	deadline := time.Now().Add(feedBound)
	for !f.has("tok") && time.Now().Before(deadline) {
		time.Sleep(time.Millisecond)
	}
	if !f.has("tok") {
		return fmt.Sprintf("starved|a live feed on a re-created collection did not receive a fresh write within %s after an expiry sweep had run", feedBound)
	}
	return ""
}
