// Package life is engine C: bucket-handle lifecycle (C13), feed termination (C16) and shutdown safety (C20).
package life

import (
	"context"
	"errors"
	"fmt"
	"os"
	"path/filepath"
	"sort"
	"strings"
	"sync/atomic"
	"time"

	"verifharness/internal/rng"

	sgbucket "github.com/couchbase/sg-bucket"
	"github.com/couchbaselabs/rosmar"
)

// ---------------------------------------------------------------- model of the registry

type store struct {
	name  string
	url   string
	disk  bool
	gen   int
	data  map[string]string
	alive bool // data exists (memory: until CloseAndDelete; disk: directory exists)
	inc   int  // incarnation: grows whenever an on-disk store is opened while no handle of it is open
}

type handle struct {
	id         int
	st         *store
	b          *rosmar.Bucket
	ds         sgbucket.DataStore // the default collection, fetched while the handle was open
	closed     bool               // closed through Close
	dead       bool               // its store was deleted
	inc        int                // the store's incarnation this handle belongs to
	incDeleted bool               // the store was deleted through a handle of this very incarnation
}

type Model struct {
	prefix       string
	tmp          string
	registry     map[string]*store // name -> store currently registered (in-memory stores stay registered with 0 handles)
	disk         map[string]*store // url -> persisted on-disk store
	foreign      map[string]bool   // url -> the directory holds a file that is not rosmar's (so it outlives the bucket)
	handles      []*handle
	gen          int
	nprobe       int
	nwrite       int
	ClosedProbes int // calls issued on closed handles beyond Set/Get
	Report       func(kind, msg string)
	Cell         func(string)
	Steps        []string
}

var scnSerial atomic.Uint64

func NewModel(tmp string, report func(kind, msg string), cell func(string)) *Model {
	return &Model{prefix: fmt.Sprintf("lf%d_%d_", os.Getpid(), scnSerial.Add(1)), tmp: tmp, registry: map[string]*store{}, disk: map[string]*store{}, foreign: map[string]bool{}, Report: report, Cell: cell}
}

func (m *Model) name(i int) string { return m.prefix + string(rune('A'+i)) }

// url returns the URL for (name index, url index): url index 0 is memory, 1.. are directories owned by that name.
func (m *Model) url(ni, ui int) string {
	if ui == 0 {
		return rosmar.InMemoryURL
	}
	return "rosmar://" + filepath.Join(m.tmp, fmt.Sprintf("%s%c_d%d", m.prefix, 'A'+ni, ui))
}

func dirOf(url string) string { return strings.TrimPrefix(url, "rosmar://") }

// spelled returns one of the accepted spellings of an on-disk bucket URL (rosmar://dir, file://dir, the plain
// path), chosen by the step number: they all name the same bucket, for "share one store" as for "another URL".
func (m *Model) spelled(url string) string {
	if !strings.HasPrefix(url, "rosmar://") {
		return url
	}
	switch len(m.Steps) % 3 {
	case 1:
		return "file://" + dirOf(url)
	case 2:
		return dirOf(url)
	}
	return url
}

func (m *Model) openCount(s *store) int {
	n := 0
	for _, h := range m.handles {
		if h.st == s && !h.closed && !h.dead {
			n++
		}
	}
	return n
}

func modeName(mode rosmar.OpenMode) string {
	return []string{"CreateOrOpen", "CreateNew", "ReOpenExisting"}[int(mode)]
}

func (m *Model) step(s string) {
	m.Steps = append(m.Steps, s)
}

// Open performs OpenBucket and compares success/failure with the mode rules.
func (m *Model) Open(ni, ui int, mode rosmar.OpenMode) {
	name, url := m.name(ni), m.url(ni, ui)
	disk := ui != 0
	m.step(fmt.Sprintf("Open(%c,u%d,%s)", 'A'+ni, ui, modeName(mode)))
	reg := m.registry[name]
	// expectation
	wantOK, why := true, ""
	either := false // the statement does not pin this case
	var target *store
	switch {
	case reg != nil:
		switch {
		case mode == rosmar.CreateNew:
			wantOK, why = false, "CreateNew on a bucket that exists"
		case reg.url != encode(url):
			wantOK, why = false, "name already open at another URL"
		default:
			target = reg
		}
	case !disk:
		if mode == rosmar.ReOpenExisting {
			wantOK, why = false, "ReOpenExisting on an in-memory bucket that does not exist"
		}
	default:
		persisted := m.disk[url]
		switch {
		case mode == rosmar.CreateNew && persisted != nil:
			wantOK, why = false, "CreateNew on an on-disk bucket whose directory exists"
		case mode == rosmar.ReOpenExisting && persisted == nil:
			// (also when the directory is there but holds no database: a directory is not a bucket)
			wantOK, why = false, "ReOpenExisting on an on-disk bucket that does not exist"
		case mode == rosmar.CreateNew && m.foreign[url]:
			either = true // no bucket, but the directory exists: rosmar refuses, and the statement does not say
		default:
			target = persisted
		}
	}
	var b *rosmar.Bucket
	var err error
	func() {
		defer func() {
			if r := recover(); r != nil {
				err = fmt.Errorf("panic: %v", r)
			}
		}()
		b, err = rosmar.OpenBucket(m.spelled(url), name, mode)
	}()
	state := "absent"
	if reg != nil {
		state = fmt.Sprintf("registered(%s,handles=%d)", ifs(reg.disk, "disk", "mem"), min(m.openCount(reg), 2))
	} else if disk && m.disk[url] != nil {
		state = "persisted"
	} else if disk && m.foreign[url] {
		state = "directory-without-bucket"
	}
	m.Cell(fmt.Sprintf("open|%s|%s|%s|%s", modeName(mode), ifs(disk, "disk", "mem"), state, ifs(err == nil, "ok", "refused")))
	if err != nil && strings.HasPrefix(err.Error(), "panic") {
		m.Report("open.panic", fmt.Sprintf("OpenBucket(%s) panicked: %v", modeName(mode), err))
		return
	}
	if either {
		wantOK = err == nil
	}
	if (err == nil) != wantOK {
		if wantOK {
			m.Report("open.refused|"+modeName(mode)+"|"+state, fmt.Sprintf("OpenBucket(%s, %s) on %s must succeed but failed: %v", ifs(disk, "disk", "mem"), modeName(mode), state, err))
			// the failed open must not have damaged the registry: checked by the invariants below
		} else {
			m.Report("open.accepted|"+modeName(mode)+"|"+state, fmt.Sprintf("OpenBucket(%s, %s) must fail (%s) but succeeded", ifs(disk, "disk", "mem"), modeName(mode), why))
			if b != nil {
				// adopt: treat it as a handle on whatever the registry holds
				st := reg
				if st == nil {
					st = m.newStore(name, url, disk)
				}
				m.handles = append(m.handles, &handle{id: len(m.handles), st: st, b: b, ds: dsOf(b)})
			}
		}
		return
	}
	if err != nil {
		return
	}
	if target == nil {
		target = m.newStore(name, url, disk)
	}
	if target.disk && m.openCount(target) == 0 {
		target.inc++ // nobody had it open: rosmar builds a new store object for the same files
	}
	m.registry[name] = target
	h := &handle{id: len(m.handles), st: target, b: b, ds: dsOf(b), inc: target.inc}
	if h.ds == nil {
		m.Report("open.nodatastore", "DefaultDataStore() of a freshly opened handle is nil")
	}
	m.handles = append(m.handles, h)
	// the store must show the data it had
	m.checkData(h, "after open")
}

func encode(url string) string {
	// rosmar normalises the URL; compare on what the model can see: memory vs the directory path
	return url
}

func (m *Model) newStore(name, url string, disk bool) *store {
	m.gen++
	s := &store{name: name, url: url, disk: disk, gen: m.gen, data: map[string]string{}, alive: true}
	if disk {
		m.disk[url] = s
	}
	return s
}

func (m *Model) pick(r *rng.R, pred func(*handle) bool) *handle {
	var c []*handle
	for _, h := range m.handles {
		if pred(h) {
			c = append(c, h)
		}
	}
	if len(c) == 0 {
		return nil
	}
	return c[r.Intn(len(c))]
}

// Close closes a handle (possibly again).
func (m *Model) Close(h *handle) {
	m.step(fmt.Sprintf("Close(h%d%s)", h.id, ifs(h.closed, ",again", ifs(h.dead, ",dead", ""))))
	m.Cell(fmt.Sprintf("close|%s|%s|siblings=%d", ifs(h.st.disk, "disk", "mem"), ifs(h.closed, "again", ifs(h.dead, "dead", "first")), min(m.openCount(h.st), 2)))
	func() {
		defer func() {
			if r := recover(); r != nil {
				m.Report("close.panic", fmt.Sprintf("Close panicked: %v", r))
			}
		}()
		h.b.Close(context.Background())
	}()
	if h.closed || h.dead {
		return
	}
	h.closed = true
	if h.st.disk && m.openCount(h.st) == 0 && m.registry[h.st.name] == h.st {
		delete(m.registry, h.st.name) // last handle of an on-disk bucket: the store is shut, its data stays on disk
	}
}

// CloseAndDelete deletes the store behind a handle.
func (m *Model) CloseAndDelete(h *handle) {
	m.step(fmt.Sprintf("CloseAndDelete(h%d%s)", h.id, ifs(h.closed, ",closed", ifs(h.dead, ",dead", ""))))
	m.Cell(fmt.Sprintf("delete|%s|%s|siblings=%d", ifs(h.st.disk, "disk", "mem"), ifs(h.closed, "closed", ifs(h.dead, "dead", "open")), min(m.openCount(h.st), 2)))
	var err error
	func() {
		defer func() {
			if r := recover(); r != nil {
				err = fmt.Errorf("panic: %v", r)
			}
		}()
		err = h.b.CloseAndDelete(context.Background())
	}()
	if err != nil && strings.HasPrefix(err.Error(), "panic") {
		m.Report("delete.panic", fmt.Sprintf("CloseAndDelete panicked: %v", err))
	}
	if h.dead {
		// deleting an already deleted store: nothing to expect beyond "no panic, nobody else harmed" - in particular
		// not the bucket that has been created at the same place since
		// (only for a handle of the incarnation the deletion went through: a handle left over from an earlier
		// open-close cycle of the same files is indistinguishable, for rosmar, from the clean-up idiom "Close, then
		// CloseAndDelete through the closed handle", and what it does to a bucket created since is not pinned)
		if cur := m.disk[h.st.url]; h.st.disk && h.incDeleted && cur != nil && cur != h.st && cur.alive {
			if _, serr := os.Stat(filepath.Join(dirOf(cur.url), "rosmar.sqlite3")); serr != nil {
				m.Report("delete.stale-destroys-successor", fmt.Sprintf("CloseAndDelete through h%d, whose bucket had been deleted long before, removed the database file of the bucket created at the same URL since (%v)   [steps: %s]", h.id, serr, strings.Join(m.Steps, " ")))
			}
		}
		return
	}
	s := h.st
	for _, o := range m.handles {
		if o.st == s {
			o.dead = true
			if o.inc == h.inc {
				o.incDeleted = true
			}
		}
	}
	s.alive = false
	if m.registry[s.name] == s {
		delete(m.registry, s.name)
	}
	if s.disk && m.disk[s.url] == s {
		delete(m.disk, s.url)
	}
}

// Foreign puts a file that is not rosmar's into an on-disk bucket's directory (creating the directory if need be):
// from then on the directory outlives the bucket, CloseAndDelete reports that it could not remove it, and an
// existing directory is no longer the same thing as an existing bucket.
func (m *Model) Foreign(ni, ui int) {
	url := m.url(ni, ui)
	m.step(fmt.Sprintf("ForeignFile(%c,u%d)", 'A'+ni, ui))
	m.Cell(fmt.Sprintf("foreign-file|%s", ifs(m.disk[url] != nil, "bucket-exists", "no-bucket")))
	dir := dirOf(url)
	_ = os.MkdirAll(dir, 0700)
	_ = os.WriteFile(filepath.Join(dir, "notes.txt"), []byte("not rosmar's"), 0600)
	m.foreign[url] = true
}

// Write stores a fresh value through an open handle.
func (m *Model) Write(h *handle) {
	m.nwrite++
	k, v := fmt.Sprintf("d%d", m.nwrite), fmt.Sprintf("v%d", m.nwrite)
	m.step(fmt.Sprintf("Write(h%d)", h.id))
	err := safeSet(h.ds, k, v)
	if err != nil {
		m.Report("write.failed", fmt.Sprintf("a write through open handle h%d failed: %v", h.id, err))
		return
	}
	h.st.data[k] = v
}

func dsOf(b *rosmar.Bucket) (ds sgbucket.DataStore) {
	defer func() { _ = recover() }()
	return b.DefaultDataStore()
}

// DS exposes the helper to other files of the package.
func safeSet(ds sgbucket.DataStore, k, v string) (err error) {
	defer func() {
		if r := recover(); r != nil {
			err = fmt.Errorf("panic: %v", r)
		}
	}()
	if ds == nil {
		return errors.New("no data store")
	}
	return ds.SetRaw(k, 0, nil, []byte(v))
}

func safeGet(ds sgbucket.DataStore, k string) (v string, err error) {
	defer func() {
		if r := recover(); r != nil {
			err = fmt.Errorf("panic: %v", r)
		}
	}()
	if ds == nil {
		return "", errors.New("no data store")
	}
	raw, _, err := ds.GetRaw(k)
	return string(raw), err
}

func (m *Model) checkData(h *handle, when string) {
	keys := make([]string, 0, len(h.st.data))
	for k := range h.st.data {
		keys = append(keys, k)
	}
	sort.Strings(keys)
	if len(keys) > 3 {
		keys = append(keys[:1], keys[len(keys)-2:]...)
	}
	for _, k := range keys {
		v, err := safeGet(h.ds, k)
		if err != nil || v != h.st.data[k] {
			m.Report("data.lost|"+ifs(h.st.disk, "disk", "mem"), fmt.Sprintf("%s: key %s written earlier to bucket %s reads %q (err %v), want %q", when, k, h.st.name, v, err, h.st.data[k]))
			return
		}
	}
}

// Invariants probes every handle ever created and compares the registry's observable state with the model.
func (m *Model) Invariants() {
	for _, h := range m.handles {
		probeKey := fmt.Sprintf("probe_h%d", h.id)
		err := safeSet(h.ds, probeKey, "p")
		if err == nil {
			_, err = safeGet(h.ds, probeKey)
		}
		switch {
		case h.dead:
			if err == nil {
				m.Report("probe.deleted-works", fmt.Sprintf("h%d belongs to a deleted bucket but reads and writes still succeed", h.id))
			} else if strings.HasPrefix(err.Error(), "panic") {
				m.Report("probe.panic", fmt.Sprintf("probe of h%d (deleted bucket) panicked: %v", h.id, err))
			}
		case h.closed:
			if err == nil {
				m.Report("probe.closed-works", fmt.Sprintf("h%d was closed but reads and writes still succeed", h.id))
			} else if !errors.Is(err, rosmar.ErrBucketClosed) {
				m.Report("probe.closed-errclass", fmt.Sprintf("h%d was closed; its calls fail with %q instead of the bucket-closed error", h.id, err))
			}
			m.probeClosedMore(h)
		default:
			if err != nil {
				m.Report("probe.open-fails|"+ifs(h.st.disk, "disk", "mem"), fmt.Sprintf("h%d is open (bucket %s, %s) but a read/write failed: %v   [steps: %s]", h.id, h.st.name, ifs(h.st.disk, "disk", "mem"), err, strings.Join(m.Steps, " ")))
			} else {
				m.checkData(h, "probe")
			}
		}
	}
	// registry names
	var want []string
	for n := range m.registry {
		want = append(want, n)
	}
	sort.Strings(want)
	var got []string
	for _, n := range rosmar.GetBucketNames() {
		if strings.HasPrefix(n, m.prefix) {
			got = append(got, n)
		}
	}
	sort.Strings(got)
	if strings.Join(got, ",") != strings.Join(want, ",") {
		m.Report("names", fmt.Sprintf("GetBucketNames() = %v, model says %v   [steps: %s]", trimPrefix(got, m.prefix), trimPrefix(want, m.prefix), strings.Join(m.Steps, " ")))
	}
	// reference counts
	counts, _ := rosmar.VerifRegistryCounts()
	for n, s := range m.registry {
		if c := int(counts[n]); c != m.openCount(s) {
			m.Report("refcount", fmt.Sprintf("bucket %s: registry reference count %d, open handles %d   [steps: %s]", strings.TrimPrefix(n, m.prefix), c, m.openCount(s), strings.Join(m.Steps, " ")))
		}
	}
	for n, c := range counts {
		if strings.HasPrefix(n, m.prefix) && m.registry[n] == nil && c != 0 {
			m.Report("refcount.orphan", fmt.Sprintf("bucket %s is not registered but has reference count %d", strings.TrimPrefix(n, m.prefix), c))
		}
	}
	// directories
	for ni := 0; ni < 2; ni++ {
		for ui := 1; ui <= 2; ui++ {
			u := m.url(ni, ui)
			_, err := os.Stat(filepath.Join(dirOf(u), "rosmar.sqlite3"))
			exists := err == nil
			if exists != (m.disk[u] != nil) {
				m.Report("directory", fmt.Sprintf("database file of %s exists=%v, model says %v   [steps: %s]", filepath.Base(dirOf(u)), exists, m.disk[u] != nil, strings.Join(m.Steps, " ")))
			}
		}
	}
}

func trimPrefix(l []string, p string) []string {
	out := make([]string, len(l))
	for i, s := range l {
		out[i] = strings.TrimPrefix(s, p)
	}
	return out
}

// Cleanup deletes everything the scenario created.
func (m *Model) Cleanup() {
	ctx := context.Background()
	for _, h := range m.handles {
		func() {
			defer func() { _ = recover() }()
			_ = h.b.CloseAndDelete(ctx)
		}()
	}
	// in-memory stores whose handles are all closed are still registered: reopen and delete them
	for _, n := range rosmar.GetBucketNames() {
		if strings.HasPrefix(n, m.prefix) {
			if b, err := rosmar.OpenBucket(rosmar.InMemoryURL, n, rosmar.CreateOrOpen); err == nil {
				_ = b.CloseAndDelete(ctx)
			}
		}
	}
	for ni := 0; ni < 2; ni++ {
		for ui := 1; ui <= 2; ui++ {
			_ = os.RemoveAll(dirOf(m.url(ni, ui)))
		}
	}
}

func ifs(c bool, a, b string) string {
	if c {
		return a
	}
	return b
}

// RandomStep performs one PRNG-chosen lifecycle step.
func (m *Model) RandomStep(r *rng.R) {
	switch x := r.Intn(21); {
	case x == 20:
		if r.Chance(1, 3) {
			m.Foreign(r.Intn(2), 1+r.Intn(2))
		}
	case x < 7 || len(m.handles) == 0:
		m.Open(r.Intn(2), r.Intn(3), rosmar.OpenMode(r.Intn(3)))
	case x < 11:
		if h := m.pick(r, func(h *handle) bool { return !h.closed && !h.dead }); h != nil {
			m.Close(h)
		}
	case x < 13:
		if h := m.pick(r, func(h *handle) bool { return h.closed || h.dead }); h != nil {
			m.Close(h) // close again
		}
	case x < 15:
		// CloseAndDelete through an open handle, or (the usual clean-up idiom) through a handle that was closed
		// before, provided no other handle of that bucket is open at that moment
		if r.Chance(1, 4) {
			// ... or through a leftover handle of a bucket that was deleted before (a successor may exist by now)
			if h := m.pick(r, func(h *handle) bool { return h.dead && h.incDeleted }); h != nil {
				m.CloseAndDelete(h)
				return
			}
		}
		if h := m.pick(r, func(h *handle) bool { return !h.dead && (!h.closed || m.openCount(h.st) == 0) }); h != nil {
			m.CloseAndDelete(h)
		}
	default:
		if h := m.pick(r, func(h *handle) bool { return !h.closed && !h.dead }); h != nil {
			m.Write(h)
		}
	}
}

// NSteps is the number of distinct step kinds for the bounded-exhaustive enumeration.
const NSteps = 13

// EnumStep performs step kind k (0..NSteps-1) deterministically; handle choices come from sel.
func (m *Model) EnumStep(k int, sel int) {
	open := func() *handle {
		var c []*handle
		for _, h := range m.handles {
			if !h.closed && !h.dead {
				c = append(c, h)
			}
		}
		if len(c) == 0 {
			return nil
		}
		return c[sel%len(c)]
	}
	notOpen := func() *handle {
		var c []*handle
		for _, h := range m.handles {
			if h.closed || h.dead {
				c = append(c, h)
			}
		}
		if len(c) == 0 {
			return nil
		}
		return c[sel%len(c)]
	}
	switch k {
	case 0, 1, 2: // open memory bucket A with each mode
		m.Open(0, 0, rosmar.OpenMode(k))
	case 3, 4, 5: // open on-disk bucket A at its first directory with each mode
		m.Open(0, 1, rosmar.OpenMode(k-3))
	case 6: // same name at another URL
		m.Open(0, 2, rosmar.CreateOrOpen)
	case 7:
		if h := open(); h != nil {
			m.Close(h)
		}
	case 8:
		if h := notOpen(); h != nil {
			m.Close(h)
		}
	case 9:
		if h := open(); h != nil {
			m.CloseAndDelete(h)
		} else if h := notOpen(); h != nil && !h.dead && m.openCount(h.st) == 0 {
			m.CloseAndDelete(h) // clean-up idiom: Close, then CloseAndDelete on the same handle
		}
	case 10:
		if h := open(); h != nil {
			m.Write(h)
		}
	case 11: // a second name in memory
		m.Open(1, 0, rosmar.CreateOrOpen)
	case 12: // a foreign file in the on-disk bucket's directory
		m.Foreign(0, 1)
	}
}

// probeClosedMore: a closed handle's other calls - feeds, xattr and sub-document entry points, counters, queries,
// views - must be refused too (with the bucket-closed error where an error value is returned).
func (m *Model) probeClosedMore(h *handle) {
	col, ok := h.ds.(*rosmar.Collection)
	if !ok || col == nil {
		return
	}
	ctx := context.Background()
	m.nprobe++
	type call struct {
		name string
		f    func() error
	}
	feed := func(args sgbucket.FeedArguments, viaBucket bool) func() error {
		return func() error {
			term, done := make(chan bool), make(chan struct{})
			args.Terminator, args.DoneChan = term, done
			var err error
			if viaBucket {
				err = h.b.StartDCPFeed(ctx, args, func(sgbucket.FeedEvent) bool { return true }, nil)
			} else {
				err = col.StartDCPFeed(ctx, args, func(sgbucket.FeedEvent) bool { return true }, nil)
			}
			if err == nil {
				close(term) // it started: stop it again
				select {
				case <-done:
				case <-time.After(5 * time.Second):
				}
			}
			return err
		}
	}
	calls := []call{
		{"StartDCPFeed(live)", feed(sgbucket.FeedArguments{ID: "closedprobe", Backfill: sgbucket.FeedNoBackfill}, false)},
		{"StartDCPFeed(backfill)", feed(sgbucket.FeedArguments{ID: "closedprobe", Backfill: 0}, false)},
		{"StartDCPFeed(dump)", feed(sgbucket.FeedArguments{ID: "closedprobe", Backfill: 0, Dump: true}, false)},
		{"Bucket.StartDCPFeed(live)", feed(sgbucket.FeedArguments{ID: "closedprobe", Backfill: sgbucket.FeedNoBackfill}, true)},
		{"NamedDataStore(cached)", func() error {
			// the handle fetched its default collection while it was open: asking for it again is a call like any other
			_, e := h.b.NamedDataStore(sgbucket.DataStoreNameImpl{Scope: sgbucket.DefaultScope, Collection: sgbucket.DefaultCollection})
			return e
		}},
		{"Add", func() error { _, e := col.Add("closedprobe", 0, "v"); return e }},
		{"Incr", func() error { _, e := col.Incr("closedprobe-n", 1, 1, 0); return e }},
		{"WriteCas", func() error { _, e := col.WriteCas("closedprobe", 0, 0, []byte(`{"a":1}`), 0); return e }},
		{"Touch", func() error { _, e := col.Touch("gen", 0); return e }},
		{"GetWithXattrs", func() error { _, _, _, e := col.GetWithXattrs(ctx, "gen", []string{"_sync"}); return e }},
		{"SetXattrs", func() error {
			_, e := col.SetXattrs(ctx, "gen", map[string][]byte{"_sync": []byte(`{"a":1}`)})
			return e
		}},
		{"WriteSubDoc", func() error { _, e := col.WriteSubDoc(ctx, "closedprobe-doc", "p", 0, []byte(`1`)); return e }},
		{"Exists", func() error { _, e := col.Exists("gen"); return e }},
		{"Delete", func() error { return col.Delete("gen") }},
		{"Update", func() error {
			_, e := col.Update("closedprobe", 0, func(cur []byte) ([]byte, *uint32, bool, error) { return []byte(`{"u":1}`), nil, false, nil })
			return e
		}},
		{"Query", func() error {
			it, e := col.Query(sgbucket.SQLiteLanguage, `SELECT id FROM $_keyspace`, nil, sgbucket.RequestPlus, false)
			if e == nil && it != nil {
				_ = it.Close()
			}
			return e
		}},
	}
	// a rotating third of the calls per probe keeps the scripts fast
	for i, c := range calls {
		if (i+m.nprobe)%3 != 0 {
			continue
		}
		var err error
		func() {
			defer func() {
				if r := recover(); r != nil {
					err = fmt.Errorf("panic: %v", r)
				}
			}()
			err = c.f()
		}()
		m.ClosedProbes++
		switch {
		case err == nil:
			m.Report("probe.closed-works|"+c.name, fmt.Sprintf("h%d was closed (other handles of the bucket: %d open) but its %s still succeeds   [steps: %s]", h.id, m.openCount(h.st), c.name, strings.Join(m.Steps, " ")))
		case strings.HasPrefix(err.Error(), "panic"):
			m.Report("probe.closed-panic|"+c.name, fmt.Sprintf("h%d was closed; its %s panicked: %v", h.id, c.name, err))
		case !errors.Is(err, rosmar.ErrBucketClosed):
			m.Report("probe.closed-errclass|"+c.name, fmt.Sprintf("h%d was closed; its %s fails with %q instead of the bucket-closed error", h.id, c.name, err))
		}
	}
}
