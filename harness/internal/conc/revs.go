package conc

import (
	"context"
	"encoding/json"
	"fmt"
	"strconv"
	"sync"
	"sync/atomic"

	"verifharness/internal/kv"
	"verifharness/internal/rng"

	sgbucket "github.com/couchbase/sg-bucket"
)

type RevResult struct {
	Clients   int            `json:"clients"`
	Acked     int64          `json:"acknowledgedMutations"`
	Refused   int64          `json:"refused"`
	StartRev  uint64         `json:"startRev"`
	FinalRev  uint64         `json:"finalRev"`
	Events    int            `json:"eventsForKey"`
	ByKind    map[string]int `json:"acknowledgedByKind"`
	TouchAcks int64          `json:"touchAcks"`
}

func revOf(o *kv.Obs) (uint64, bool) {
	var s string
	if json.Unmarshal([]byte(o.RevID), &s) != nil {
		return 0, false
	}
	n, err := strconv.ParseUint(s, 10, 64)
	return n, err == nil
}

// RevCountRun: several goroutines on several handles mutate ONE key through every kind of entry point (body writes,
// touches, xattr-only writes, sub-document writes, deletions and re-creations). Every acknowledged mutation must have
// raised the key's revision number by exactly one: the final $document.revid is the start value plus the number of
// acknowledged mutations, and the RevNo values on a live feed are strictly increasing (touches leave gaps) and never
// exceed the final number (C17).
func RevCountRun(m *MultiBucket, clients, opsEach int, r *rng.R) (RevResult, string, map[string]any) {
	res := RevResult{Clients: clients, ByKind: map[string]int{}}
	const key = "rk"
	ctx := context.Background()
	col0 := m.CollsBy[0][0]
	if err := col0.Set(key, 0, nil, []byte(`{"n":0,"p":{"q":1}}`)); err != nil {
		return res, "setup|" + err.Error(), nil
	}
	for i := r.Intn(4); i > 0; i-- {
		_, _ = col0.Touch(key, 2000000000+uint32(i))
	}
	pre := kv.ReadBack(col0, key)
	start, ok := revOf(&pre)
	if !ok {
		return res, "setup|cannot read the start revision: " + pre.RevID, nil
	}
	res.StartRev = start
	f := NewFeedLog("revs", 0, 0)
	var revMu sync.Mutex
	var revs []uint64
	if err := m.CollsBy[len(m.CollsBy)-1][0].StartDCPFeed(ctx, sgbucket.FeedArguments{ID: "revs", Backfill: sgbucket.FeedNoBackfill, Terminator: f.Term, DoneChan: f.Done}, func(e sgbucket.FeedEvent) bool {
		if string(e.Key) == key {
			revMu.Lock()
			revs = append(revs, e.RevNo)
			revMu.Unlock()
		}
		return f.Callback(e)
	}, nil); err != nil {
		return res, "setup|cannot start feed: " + err.Error(), nil
	}
	var acked, refused, touches atomic.Int64
	var kindMu sync.Mutex
	var wg sync.WaitGroup
	startCh := make(chan struct{})
	for ci := 0; ci < clients; ci++ {
		wg.Add(1)
		cr := rng.New(r.U64(), uint64(ci))
		go func(ci int, cr *rng.R) {
			defer wg.Done()
			col := m.CollsBy[ci%len(m.CollsBy)][0]
			<-startCh
			for i := 0; i < opsEach; i++ {
				body := []byte(fmt.Sprintf(`{"n":%d,"c":%d,"p":{"q":2}}`, i, ci))
				var err error
				kind := ""
				added := true
				func() {
					defer func() {
						if p := recover(); p != nil {
							err = fmt.Errorf("panic: %v", p)
						}
					}()
					switch cr.Intn(14) {
					case 0, 1:
						kind = "Set"
						err = col.Set(key, 0, nil, body)
					case 2, 3:
						kind = "Touch"
						_, err = col.Touch(key, 2000000100+uint32(cr.Intn(1000)))
					case 4:
						kind = "GetAndTouchRaw"
						_, _, err = col.GetAndTouchRaw(key, 2000002000+uint32(cr.Intn(1000)))
					case 5:
						kind = "SetXattrs"
						_, err = col.SetXattrs(ctx, key, map[string][]byte{"_sync": []byte(fmt.Sprintf(`{"c":%d,"i":%d}`, ci, i))})
					case 6:
						kind = "WriteSubDoc"
						_, err = col.WriteSubDoc(ctx, key, "p.q", 0, []byte(fmt.Sprintf(`%d`, i)))
					case 7:
						kind = "Update"
						_, err = col.Update(key, 0, func(cur []byte) ([]byte, *uint32, bool, error) { return body, nil, false, nil })
					case 8:
						kind = "Delete"
						err = col.Delete(key)
					case 9:
						kind = "Add"
						added, err = col.Add(key, 0, body)
					case 10:
						kind = "WriteWithXattrs"
						var cas uint64
						if _, c0, e0 := col.GetRaw(key); e0 == nil {
							cas = c0
						}
						_, err = col.WriteWithXattrs(ctx, key, 0, cas, body, map[string][]byte{"_sync": []byte(`{"w":1}`)}, nil, nil)
					case 11:
						kind = "RemoveXattrs"
						var cas uint64
						if _, c0, e0 := col.GetRaw(key); e0 == nil {
							cas = c0
						}
						err = col.RemoveXattrs(ctx, key, []string{"_sync"}, cas)
					case 12:
						kind = "WriteUpdateWithXattrs"
						_, err = col.WriteUpdateWithXattrs(ctx, key, []string{"_sync"}, 0, nil, &sgbucket.MutateInOptions{}, func(doc []byte, x map[string][]byte, cas uint64) (sgbucket.UpdatedDoc, error) {
							return sgbucket.UpdatedDoc{Doc: body, Xattrs: map[string][]byte{"_sync": []byte(`{"u":1}`)}}, nil
						})
					default:
						kind = "SetRaw"
						err = col.SetRaw(key, 0, nil, body)
					}
				}()
				if err == nil && added {
					acked.Add(1)
					if kind == "Touch" || kind == "GetAndTouchRaw" {
						touches.Add(1)
					}
					kindMu.Lock()
					res.ByKind[kind]++
					kindMu.Unlock()
				} else {
					refused.Add(1)
				}
			}
		}(ci, cr)
	}
	close(startCh)
	wg.Wait()
	// fence: one more acknowledged write whose event closes the feed log for this key
	if err := col0.Set(key, 0, nil, []byte(`{"n":-1,"fence":true}`)); err != nil {
		return res, "setup|fence write failed: " + err.Error(), nil
	}
	acked.Add(1)
	_, fcas, _ := col0.GetRaw(key)
	arrived := f.WaitCas(key, fcas, 20e9)
	close(f.Term)
	<-f.Done
	res.Acked, res.Refused, res.TouchAcks = acked.Load(), refused.Load(), touches.Load()
	post := kv.ReadBack(col0, key)
	final, ok := revOf(&post)
	if !ok {
		return res, "revid|the final $document.revid is unreadable: " + post.RevID, map[string]any{"result": res}
	}
	res.FinalRev = final
	revMu.Lock()
	seq := append([]uint64(nil), revs...)
	revMu.Unlock()
	res.Events = len(seq)
	detail := map[string]any{"result": res}
	if want := start + uint64(res.Acked); final != want {
		return res, fmt.Sprintf("count|%d goroutines were acknowledged %d mutations of one key (of them %d touches) starting from revision %d, so its revision must be %d, but $document.revid says %d", clients, res.Acked, res.TouchAcks, start, want, final), detail
	}
	if !arrived {
		return res, "setup|the fence event did not arrive within 20s", detail
	}
	for i := 1; i < len(seq); i++ {
		if seq[i] <= seq[i-1] {
			detail["revnos"] = seq[max(0, i-4):min(len(seq), i+3)]
			return res, fmt.Sprintf("event-revno|consecutive events of the key carry RevNo %d and then %d: two mutations share a revision number or the number went backwards", seq[i-1], seq[i]), detail
		}
	}
	if len(seq) > 0 && seq[len(seq)-1] != final {
		return res, fmt.Sprintf("event-revno|the last event of the key carries RevNo %d but $document.revid says %d", seq[len(seq)-1], final), detail
	}
	return res, "", nil
}
