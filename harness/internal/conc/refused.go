package conc

import (
	"context"
	"encoding/json"
	"fmt"
	"sync"
	"time"

	"verifharness/internal/kv"
	"verifharness/internal/rng"

	sgbucket "github.com/couchbase/sg-bucket"
)

type RefusedResult struct {
	Index      string         `json:"index"`
	Calls      int            `json:"calls"`
	Acked      int            `json:"acknowledged"`
	Refused    int            `json:"refused"`
	RefusedBy  map[string]int `json:"refusedByKind"`
	AckedBy    map[string]int `json:"acknowledgedByKind"`
	EventsSeen int            `json:"eventsForKey"`
	InTxn      int            `json:"refusedInsideTheTransaction"` // calls refused by the index (the statement itself failed)
}

type revEv struct {
	key   string
	revNo uint64
	cas   uint64
}

// the smallest integer has no absolute value: abs() of it fails with "integer overflow", and so does the
// INSERT / UPDATE that has to evaluate the index expression over the new row.
const minInt = `(-9223372036854775807 - 1)`

var refusingIndexes = []struct{ name, expr string }{
	{"xattr-u", `abs(ifnull(json_extract(xattrs, '$.u'), ` + minInt + `))`},
	{"body-n", `abs(ifnull(json_extract(body, '$.n'), ` + minInt + `))`},
	{"xattr-_sync", `abs(ifnull(json_extract(xattrs, '$._sync.s'), ` + minInt + `))`},
}

// RefusedWriteRun: an expression index that cannot be evaluated over some rows makes the INSERT / UPDATE of a write
// fail INSIDE its transaction - after the entry point has read the revision, incremented it and filled in its event.
// One key goes through a random history of every kind of mutating entry point; the verdict on each call is taken from
// what the call itself returned: an acknowledged mutation raises $document.revid by exactly one (1 on creation) and
// its live event carries that number; a refused call leaves the revision where it was (C17), leaves the whole
// read-back of the key as it was (C01) and posts no event (C08, C17).
// After every call a fence write on another key closes the window in which an event of the call can arrive.
func RefusedWriteRun(m *MultiBucket, coll, variant, steps int, r *rng.R) (RefusedResult, string, map[string]any) {
	ix := refusingIndexes[variant%len(refusingIndexes)]
	res := RefusedResult{Index: ix.name, RefusedBy: map[string]int{}, AckedBy: map[string]int{}}
	ctx := context.Background()
	col := m.CollsBy[0][coll]
	const key, fence = "doc", "fence"
	good := func(i int) ([]byte, map[string][]byte) {
		return []byte(fmt.Sprintf(`{"n":%d,"p":{"q":1}}`, i)), map[string][]byte{"u": []byte(`1`), "v": []byte(`2`), "_sync": []byte(`{"s":1,"t":2}`)}
	}
	fb, fx := good(0)
	if _, err := col.WriteWithXattrs(ctx, fence, 0, 0, fb, fx, nil, nil); err != nil {
		return res, "setup|fence document: " + err.Error(), nil
	}
	if err := col.CreateIndex("refusing", ix.expr, ""); err != nil {
		return res, "setup|CreateIndex: " + err.Error(), nil
	}

	var mu sync.Mutex
	cond := sync.NewCond(&mu)
	var evs []revEv
	term := make(chan bool)
	done := make(chan struct{})
	args := sgbucket.FeedArguments{ID: "refused", Backfill: sgbucket.FeedNoBackfill, Terminator: term, DoneChan: done}
	if err := col.StartDCPFeed(ctx, args, func(e sgbucket.FeedEvent) bool {
		mu.Lock()
		evs = append(evs, revEv{string(e.Key), e.RevNo, e.Cas})
		cond.Broadcast()
		mu.Unlock()
		return true
	}, nil); err != nil {
		return res, "setup|cannot start feed: " + err.Error(), nil
	}
	defer func() { close(term); <-done }()

	// doFence writes the fence key and waits for its event; it returns the events of `key` that arrived since `from`.
	pos := 0
	doFence := func(i int) ([]revEv, bool) {
		cas, err := col.SetXattrs(ctx, fence, map[string][]byte{"f": []byte(fmt.Sprint(i))})
		if err != nil {
			return nil, false
		}
		deadline := time.Now().Add(20 * time.Second)
		timer := time.AfterFunc(20*time.Second, func() { mu.Lock(); cond.Broadcast(); mu.Unlock() })
		defer timer.Stop()
		mu.Lock()
		defer mu.Unlock()
		for {
			for j := pos; j < len(evs); j++ {
				if evs[j].key == fence && evs[j].cas == uint64(cas) {
					var mine []revEv
					for _, e := range evs[pos:j] {
						if e.key == key {
							mine = append(mine, e)
						}
					}
					pos = j + 1
					return mine, true
				}
			}
			if time.Now().After(deadline) {
				return nil, false
			}
			cond.Wait()
		}
	}

	var lastObs kv.Obs
	rev := func() (uint64, bool) {
		lastObs = kv.ReadBack(col, key)
		return revOf(&lastObs)
	}
	curCas := func() uint64 {
		_, _, cas, err := col.GetWithXattrs(ctx, key, []string{"u"})
		if err != nil {
			return 0
		}
		return uint64(cas)
	}

	created := false
	var history []string
	for i := 1; i <= steps; i++ {
		pre, preOK := rev()
		preObs, _ := json.Marshal(lastObs)
		gb, gx := good(i)
		bad := r.Intn(3) == 0 // a write that the index will refuse (when it reaches the statement)
		body := gb
		xs := gx
		if bad {
			switch variant % len(refusingIndexes) {
			case 0:
				xs = map[string][]byte{"v": []byte(`3`), "_sync": []byte(`{"s":1}`)}
			case 1:
				body = []byte(fmt.Sprintf(`{"m":%d,"p":{"q":1}}`, i))
			default:
				xs = map[string][]byte{"u": []byte(`1`), "_sync": []byte(`{"t":3}`)}
			}
		}
		var err error
		kind := ""
		added := true
		touch := false
		func() {
			defer func() {
				if p := recover(); p != nil {
					err = fmt.Errorf("panic: %v", p)
				}
			}()
			pick := r.Intn(20)
			if !created && r.Intn(2) == 0 {
				pick = 0
			}
			switch pick {
			case 0, 1:
				kind = "WriteWithXattrs"
				_, err = col.WriteWithXattrs(ctx, key, 0, curCas(), body, xs, nil, nil)
			case 2:
				kind = "SetXattrs"
				if bad {
					xs = map[string][]byte{"_sync": []byte(`{"t":9}`), "u": []byte(`null`)}
				}
				_, err = col.SetXattrs(ctx, key, xs)
			case 3, 4:
				kind = "DeleteSubDocPaths"
				name := "v"
				if bad {
					name = []string{"u", "_sync", "u"}[variant%3]
				}
				err = col.DeleteSubDocPaths(ctx, key, name)
			case 5:
				kind = "RemoveXattrs"
				name := "v"
				if bad {
					name = []string{"u", "_sync", "u"}[variant%3]
				}
				err = col.RemoveXattrs(ctx, key, []string{name}, curCas())
			case 6:
				kind = "Set"
				err = col.Set(key, 0, nil, body)
			case 7:
				kind = "SetRaw"
				err = col.SetRaw(key, 0, nil, body)
			case 8:
				kind = "Delete"
				err = col.Delete(key)
			case 9:
				kind = "DeleteWithXattrs"
				names := []string{"v"}
				if bad {
					names = []string{"u", "v", "_sync"}
				}
				err = col.DeleteWithXattrs(ctx, key, names)
			case 10:
				kind = "WriteSubDoc"
				path := "n"
				if bad {
					path = "p.q"
				}
				_, err = col.WriteSubDoc(ctx, key, path, 0, []byte(fmt.Sprint(i)))
			case 11:
				kind = "UpdateXattrs"
				_, err = col.UpdateXattrs(ctx, key, 0, curCas(), map[string][]byte{"v": []byte(fmt.Sprint(i))}, nil)
			case 12:
				kind = "WriteTombstoneWithXattrs"
				_, err = col.WriteTombstoneWithXattrs(ctx, key, 0, curCas(), map[string][]byte{"_sync": []byte(`{"s":1,"d":true}`)}, nil, true, nil)
			case 13:
				kind = "Update"
				_, err = col.Update(key, 0, func(cur []byte) ([]byte, *uint32, bool, error) { return body, nil, false, nil })
			case 14:
				kind = "Touch"
				touch = true
				_, err = col.Touch(key, 2000000100+uint32(i))
			case 15:
				kind = "WriteUpdateWithXattrs"
				_, err = col.WriteUpdateWithXattrs(ctx, key, []string{"u", "v", "_sync"}, 0, nil, &sgbucket.MutateInOptions{}, func(doc []byte, x map[string][]byte, cas uint64) (sgbucket.UpdatedDoc, error) {
					return sgbucket.UpdatedDoc{Doc: body, Xattrs: xs}, nil
				})
			case 16:
				kind = "Add"
				added, err = col.Add(key, 0, body)
			case 17:
				kind = "WriteResurrectionWithXattrs"
				_, err = col.WriteResurrectionWithXattrs(ctx, key, 0, body, xs, nil)
			case 18:
				kind = "UpdateXattrDeleteBody"
				_, err = col.UpdateXattrDeleteBody(ctx, key, "_sync", 0, curCas(), map[string]any{"s": 1, "gone": true}, nil)
			default:
				kind = "WriteCas"
				_, err = col.WriteCas(key, 0, curCas(), body, 0)
			}
		}()
		res.Calls++
		ok := err == nil && added
		errText := ""
		if err != nil {
			errText = err.Error()
		}
		history = append(history, fmt.Sprintf("%d %s bad=%v pre=%d/%v -> ok=%v %s", i, kind, bad, pre, preOK, ok, errText))
		if len(history) > 12 {
			history = history[1:]
		}
		mine, arrived := doFence(i)
		if !arrived {
			return res, "setup|the fence event did not arrive within 20s", map[string]any{"history": history}
		}
		post, postOK := rev()
		res.EventsSeen += len(mine)
		detail := map[string]any{"index": ix.expr, "lastCalls": history, "eventsOfTheCall": fmt.Sprint(mine), "revBefore": pre, "revAfter": post}
		if !ok {
			res.Refused++
			res.RefusedBy[kind]++
			if err != nil && containsAny(errText, "overflow", "malformed", "constraint") {
				res.InTxn++
			}
			if preOK && postOK && pre != post {
				return res, fmt.Sprintf("refused-bump|%s was refused (%s) but $document.revid went from %d to %d", kind, kv.ErrClass(err), pre, post), detail
			}
			if postObs, _ := json.Marshal(lastObs); string(preObs) != string(postObs) {
				detail["readBackBefore"], detail["readBackAfter"] = json.RawMessage(preObs), json.RawMessage(postObs)
				return res, fmt.Sprintf("refused-frame|%s was refused (%s) but the key's read-back (body, CAS, expiry, xattrs, virtual xattrs) is not what it was before the call", kind, kv.ErrClass(err)), detail
			}
			if len(mine) > 0 {
				return res, fmt.Sprintf("refused-event|%s was refused (%s), the key stays at revision %d, but a live event with RevNo %d was posted for it", kind, kv.ErrClass(err), post, mine[0].revNo), detail
			}
			continue
		}
		res.Acked++
		res.AckedBy[kind]++
		if !postOK {
			return res, fmt.Sprintf("revid|after an acknowledged %s the key's $document.revid is unreadable", kind), detail
		}
		switch {
		case !created:
			if post != 1 {
				return res, fmt.Sprintf("count|%s created the key, its revision must be 1 but $document.revid says %d", kind, post), detail
			}
		case preOK && post != pre+1:
			return res, fmt.Sprintf("count|an acknowledged %s took $document.revid from %d to %d", kind, pre, post), detail
		}
		created = true
		if len(mine) > 1 || (len(mine) == 0 && !touch) {
			return res, fmt.Sprintf("event-count|an acknowledged %s posted %d live events for the key", kind, len(mine)), detail
		}
		if len(mine) == 1 && mine[0].revNo != post {
			return res, fmt.Sprintf("event-revno|the live event of an acknowledged %s carries RevNo %d but $document.revid says %d", kind, mine[0].revNo, post), detail
		}
	}
	return res, "", nil
}

func containsAny(s string, subs ...string) bool {
	for _, x := range subs {
		if len(x) > 0 && len(s) >= len(x) {
			for i := 0; i+len(x) <= len(s); i++ {
				if s[i:i+len(x)] == x {
					return true
				}
			}
		}
	}
	return false
}
