package conc

import (
	"context"
	"encoding/json"
	"fmt"
	"os"
	"path/filepath"
	"runtime"
	"sync"
	"sync/atomic"
	"time"

	"verifharness/internal/kv"
	"verifharness/internal/rng"

	"github.com/anishathalye/porcupine"
	sgbucket "github.com/couchbase/sg-bucket"
	"github.com/couchbaselabs/rosmar"
)

var Tick atomic.Int64 // one logical clock for call / return stamps of every history in the process

type Rec struct {
	Client int   `json:"client"`
	In     In    `json:"in"`
	Out    Out   `json:"out"`
	Call   int64 `json:"call"`
	Ret    int64 `json:"ret"`
}

type Bucket struct {
	Name    string
	URL     string
	Dir     string
	Handles []*rosmar.Bucket
	Colls   []*rosmar.Collection // default collection of each handle
}

var serial atomic.Uint64

// OpenBucket creates a bucket with n handles (memory or disk).
func OpenBucket(tmp string, disk bool, n int) (*Bucket, error) {
	b := &Bucket{Name: fmt.Sprintf("cb%d_%d", os.Getpid(), serial.Add(1))}
	if disk {
		b.Dir = filepath.Join(tmp, b.Name)
		b.URL = "rosmar://" + b.Dir
	} else {
		b.URL = rosmar.InMemoryURL
	}
	for i := 0; i < n; i++ {
		mode := rosmar.CreateNew
		if i > 0 {
			mode = rosmar.CreateOrOpen
		}
		h, err := rosmar.OpenBucket(b.URL, b.Name, rosmar.OpenMode(mode))
		if err != nil {
			b.Close()
			return nil, err
		}
		b.Handles = append(b.Handles, h)
		ds := h.DefaultDataStore()
		if ds == nil {
			b.Close()
			return nil, fmt.Errorf("DefaultDataStore is nil")
		}
		b.Colls = append(b.Colls, ds.(*rosmar.Collection))
	}
	return b, nil
}

func (b *Bucket) Close() {
	ctx := context.Background()
	for i, h := range b.Handles {
		func() {
			defer func() { _ = recover() }()
			if i == len(b.Handles)-1 {
				_ = h.CloseAndDelete(ctx)
			} else {
				h.Close(ctx)
			}
		}()
	}
	if b.Dir != "" {
		_ = os.RemoveAll(b.Dir)
	}
}

var xNames = []string{"_x", "u1"}

// Call executes one client op against a collection and returns what was observed.
func Call(c *rosmar.Collection, in In) (out Out) {
	ctx := context.Background()
	defer func() {
		if r := recover(); r != nil {
			out.Err = "panic"
			out.ErrMsg = fmt.Sprint(r)
		}
	}()
	var err error
	switch in.Kind {
	case OGet:
		var b []byte
		b, out.Cas, err = c.GetRaw(in.Key)
		out.Body, out.HasBody = string(b), b != nil
	case OExists:
		out.Bool, err = c.Exists(in.Key)
	case OGetX:
		var b []byte
		var x map[string][]byte
		b, x, out.Cas, err = c.GetWithXattrs(ctx, in.Key, xNames)
		out.Body, out.HasBody = string(b), b != nil
		if len(x) > 0 {
			out.X = map[string]string{}
			for k, v := range x {
				out.X[k] = string(v)
			}
		}
	case OSet:
		err = c.Set(in.Key, 0, nil, []byte(in.Body))
	case OAdd:
		out.Added, err = c.Add(in.Key, 0, []byte(in.Body))
	case OWriteCas:
		out.Cas, err = c.WriteCas(in.Key, 0, in.Cas, []byte(in.Body), 0)
	case ORemove:
		out.Cas, err = c.Remove(in.Key, in.Cas)
	case ODelete:
		err = c.Delete(in.Key)
	case OIncr:
		out.Num, err = c.Incr(in.Key, in.Amt, in.Def, 0)
	case OUpdate:
		out.Cas, err = c.Update(in.Key, 0, func(cur []byte) ([]byte, *uint32, bool, error) {
			out.Calls++
			out.Saw, out.SawNil = string(cur), cur == nil
			return []byte(appendTok(string(cur), cur != nil, in.Token)), nil, false, nil
		})
	case OUpdDel:
		out.Cas, err = c.Update(in.Key, 0, func(cur []byte) ([]byte, *uint32, bool, error) {
			out.Calls++
			out.Saw, out.SawNil = string(cur), cur == nil
			return nil, nil, true, nil
		})
	case OWriteUpd:
		out.Cas, err = c.WriteUpdateWithXattrs(ctx, in.Key, xNames, 0, nil, &sgbucket.MutateInOptions{},
			func(doc []byte, xattrs map[string][]byte, cas uint64) (sgbucket.UpdatedDoc, error) {
				out.Calls++
				out.Saw, out.SawNil, out.SawCas = string(doc), doc == nil, cas
				out.SawX = ""
				if v, ok := xattrs[in.XName]; ok {
					var l any
					_ = json.Unmarshal(v, &l)
					b, _ := json.Marshal(l)
					out.SawX = string(b)
				}
				body := doc
				if doc == nil {
					body = []byte(fmt.Sprintf(`{"init":%q}`, in.Token))
				}
				return sgbucket.UpdatedDoc{Doc: body, Xattrs: map[string][]byte{in.XName: []byte(appendTokList(out.SawX, in.Token))}}, nil
			})
	case OSetX:
		out.Cas, err = c.SetXattrs(ctx, in.Key, map[string][]byte{in.XName: []byte(fmt.Sprintf("%q", in.Token))})
	case OSubDoc:
		out.Cas, err = c.WriteSubDoc(ctx, in.Key, in.Path, 0, []byte(fmt.Sprintf("%q", in.Token)))
	case OTouch:
		_, err = c.Touch(in.Key, in.Exp)
	case OGetTouch:
		var b []byte
		b, out.Cas, err = c.GetAndTouchRaw(in.Key, in.Exp)
		out.Body, out.HasBody = string(b), b != nil
	case OGetExp:
		out.Exp, err = c.GetExpiry(ctx, in.Key)
	}
	if err != nil {
		out.Err = kv.ErrClass(err)
		out.ErrMsg = err.Error()
		if len(out.ErrMsg) > 160 {
			out.ErrMsg = out.ErrMsg[:160]
		}
	}
	return out
}

// Workload describes one concurrent history.
type Workload struct {
	Twins    bool // the first two document keys start out sharing one CAS
	Clients  int
	OpsEach  int
	DocKeys  []string
	CtrKeys  []string
	Weights  map[string]int
	Noise    bool // PRNG-determined yields/sleeps at the out-of-mutex hook points
}

// Run executes the workload with Clients goroutines spread over the bucket's handles and returns the history.
func Run(b *Bucket, w Workload, r *rng.R) []Rec {
	var mu sync.Mutex
	var hist []Rec
	var wg sync.WaitGroup
	start := make(chan struct{})
	if w.Twins && len(w.DocKeys) >= 2 {
		// two documents start out with one and the same CAS (replicated versions, written through SetWithMeta): a CAS
		// identifies a version of ONE key, so whatever a client then does to one twin must leave the other alone.
		// For the model these are two blind writes that completed before the clients start.
		shared := uint64(time.Now().UnixNano())&^0xFFFF | 0x4242
		for i, key := range w.DocKeys[:2] {
			tok := fmt.Sprintf("twin.%d", i)
			body := fmt.Sprintf(`{"l":[],"v":%q}`, tok)
			call := Tick.Add(1)
			err := b.Colls[0].SetWithMeta(ctxBG, key, 0, shared, 0, nil, []byte(body), sgbucket.FeedDataTypeJSON)
			ret := Tick.Add(1)
			if err == nil {
				hist = append(hist, Rec{Client: w.Clients, In: In{Kind: OSet, Key: key, Body: body, Token: tok}, Call: call, Ret: ret})
			}
		}
	}
	for ci := 0; ci < w.Clients; ci++ {
		wg.Add(1)
		cr := rng.New(r.U64(), uint64(ci))
		go func(ci int, cr *rng.R) {
			defer wg.Done()
			col := b.Colls[ci%len(b.Colls)]
			lastCas := map[string]uint64{}
			staleCas := map[string]uint64{}
			n := 0
			<-start
			for i := 0; i < w.OpsEach; i++ {
				in := genOp(cr, w, ci, &n, lastCas, staleCas)
				call := Tick.Add(1)
				out := Call(col, in)
				ret := Tick.Add(1)
				if out.Err == "" && out.Cas != 0 {
					if lastCas[in.Key] != out.Cas {
						staleCas[in.Key] = lastCas[in.Key]
					}
					lastCas[in.Key] = out.Cas
				}
				mu.Lock()
				hist = append(hist, Rec{Client: ci, In: in, Out: out, Call: call, Ret: ret})
				mu.Unlock()
			}
		}(ci, cr)
	}
	close(start)
	wg.Wait()
	return hist
}

func genOp(r *rng.R, w Workload, client int, n *int, lastCas, staleCas map[string]uint64) In {
	*n++
	tok := fmt.Sprintf("c%d.%d", client, *n)
	// counter keys only see the counter mix
	if len(w.CtrKeys) > 0 && r.Chance(len(w.CtrKeys), len(w.CtrKeys)+len(w.DocKeys)) {
		key := rng.Pick(r, w.CtrKeys)
		switch r.Intn(10) {
		case 0:
			return In{Kind: OGet, Key: key}
		case 1:
			if w.Weights[ODelete] > 0 {
				return In{Kind: ODelete, Key: key}
			}
		}
		return In{Kind: OIncr, Key: key, Amt: uint64(1 + r.Intn(9)), Def: 1000}
	}
	key := rng.Pick(r, w.DocKeys)
	kinds := []string{OGet, OGetX, OExists, OSet, OAdd, OWriteCas, ORemove, ODelete, OUpdate, OWriteUpd, OSetX, OSubDoc, OTouch, OUpdDel, OGetTouch, OGetExp}
	ws := make([]int, len(kinds))
	for i, k := range kinds {
		ws[i] = w.Weights[k]
	}
	kind := kinds[r.Weighted(ws)]
	in := In{Kind: kind, Key: key, Token: tok}
	body := fmt.Sprintf(`{"l":[],"v":%q}`, tok)
	switch kind {
	case OSet, OAdd:
		in.Body = body
	case OWriteCas:
		in.Body = body
		switch r.Intn(5) {
		case 0:
			in.Cas = 0
		case 1:
			in.Cas = staleCas[key]
		default:
			in.Cas = lastCas[key]
		}
	case ORemove:
		in.Cas = lastCas[key]
		if r.Chance(1, 5) {
			in.Cas = staleCas[key]
		}
	case OWriteUpd:
		in.XName = "_x"
	case OSetX:
		in.XName = "u1"
	case OSubDoc:
		in.Path = fmt.Sprintf("p%d", client)
	case OTouch, OGetTouch:
		in.Exp = 2000000000 + uint32(client)*100000 + uint32(*n) // absolute, far away, unique: a read identifies the touch it saw
	}
	return in
}

// ToOperations converts records to porcupine operations.
func ToOperations(h []Rec) []porcupine.Operation {
	ops := make([]porcupine.Operation, len(h))
	for i, r := range h {
		ops[i] = porcupine.Operation{ClientId: r.Client, Input: r.In, Call: r.Call, Output: r.Out, Return: r.Ret}
	}
	return ops
}

// Stats of a history: overlap degree and forced retries.
type Stats struct {
	Ops        int
	MaxOverlap int
	Retries    int // callbacks invoked more than once (a CAS retry loop went round)
	Mismatches int // CAS-mismatch outcomes observed by clients
	Finger     string
}

func Analyze(h []Rec) Stats {
	st := Stats{Ops: len(h)}
	type ev struct {
		t    int64
		open bool
	}
	var evs []ev
	for _, r := range h {
		evs = append(evs, ev{r.Call, true}, ev{r.Ret, false})
		if r.Out.Calls > 1 {
			st.Retries += r.Out.Calls - 1
		}
		if r.Out.Err == "casmismatch" || r.Out.Err == "keyexists" {
			st.Mismatches++
		}
	}
	// sort by time
	for i := 1; i < len(evs); i++ {
		for j := i; j > 0 && evs[j].t < evs[j-1].t; j-- {
			evs[j], evs[j-1] = evs[j-1], evs[j]
		}
	}
	cur := 0
	for _, e := range evs {
		if e.open {
			cur++
			if cur > st.MaxOverlap {
				st.MaxOverlap = cur
			}
		} else {
			cur--
		}
	}
	// interleaving fingerprint: per key the (client, kind) sequence in return order
	byRet := append([]Rec(nil), h...)
	for i := 1; i < len(byRet); i++ {
		for j := i; j > 0 && byRet[j].Ret < byRet[j-1].Ret; j-- {
			byRet[j], byRet[j-1] = byRet[j-1], byRet[j]
		}
	}
	var fp uint64 = 1469598103934665603
	for _, r := range byRet {
		s := fmt.Sprintf("%s|%d|%s;", r.In.Key, r.Client, r.In.Kind)
		for i := 0; i < len(s); i++ {
			fp ^= uint64(s[i])
			fp *= 1099511628211
		}
	}
	st.Finger = fmt.Sprintf("%016x", fp)
	return st
}

// Check decides one history. verdict: "ok", "illegal", "unknown".
func Check(h []Rec, timeout time.Duration) (verdict string, badKey string, witness []Rec) {
	ops := ToOperations(h)
	res, _ := porcupine.CheckOperationsVerbose(Model, ops, timeout)
	switch res {
	case porcupine.Ok:
		return "ok", "", nil
	case porcupine.Unknown:
		return "unknown", "", nil
	}
	// find the offending key partition
	for _, part := range Model.Partition(ops) {
		if porcupine.CheckOperationsTimeout(Model, part, timeout) == porcupine.Illegal {
			key := part[0].Input.(In).Key
			for _, r := range h {
				if r.In.Key == key {
					witness = append(witness, r)
				}
			}
			return "illegal", key, witness
		}
	}
	return "illegal", "?", h
}

// Noise installs a hook handler that yields / sleeps at the out-of-mutex points; returns a restore func and a hit counter.
func Noise(seed uint64) (restore func(), hits *sync.Map) {
	hits = &sync.Map{}
	var ctr atomic.Uint64
	rosmar.VerifSetPointHandler(func(p string) {
		v, _ := hits.LoadOrStore(p, new(atomic.Int64))
		v.(*atomic.Int64).Add(1)
		switch p {
		case "event.prepost", "subdoc.rw", "feed.registered", "close.mid":
			x := rng.New(seed, ctr.Add(1)).Intn(8)
			switch {
			case x < 3:
				// no delay
			case x < 6:
				for i := 0; i < x; i++ {
					runtime.Gosched()
				}
			default:
				time.Sleep(time.Duration(50*(x-5)) * time.Microsecond)
			}
		}
	})
	return func() { rosmar.VerifSetPointHandler(nil) }, hits
}
