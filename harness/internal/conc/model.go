// Package conc is engine B: concurrent histories recorded at the client boundary and decided by
// porcupine against a compact sequential model of one key, plus order / conservation checkers.
package conc

import (
	"encoding/json"
	"fmt"
	"sort"
	"strconv"
	"strings"

	"github.com/anishathalye/porcupine"
)

// Op kinds of the concurrent workload.
const (
	OGet      = "GetRaw"
	OGetX     = "GetWithXattrs"
	OExists   = "Exists"
	OSet      = "Set"
	OAdd      = "Add"
	OWriteCas = "WriteCas"
	ORemove   = "Remove"
	ODelete   = "Delete"
	OIncr     = "Incr"
	OUpdate   = "Update"
	OWriteUpd = "WriteUpdateWithXattrs"
	OSetX     = "SetXattrs"
	OSubDoc   = "WriteSubDoc"
	OTouch    = "Touch"
	OUpdDel   = "Update(delete)"
	OGetTouch = "GetAndTouchRaw"
	OGetExp   = "GetExpiry"
)

// In is the input of one client call.
type In struct {
	Kind  string `json:"kind"`
	Key   string `json:"key"`
	Body  string `json:"body,omitempty"`  // Set/Add/WriteCas body
	Cas   uint64 `json:"cas,omitempty"`   // expected-CAS argument
	Token string `json:"token,omitempty"` // unique token appended / written by this call
	Amt   uint64 `json:"amt,omitempty"`
	Def   uint64 `json:"def,omitempty"`
	Path  string `json:"path,omitempty"`
	XName string `json:"xname,omitempty"`
	Exp   uint32 `json:"exp,omitempty"` // Touch / GetAndTouchRaw: the (absolute, unique) expiry to set
}

// Out is what the client observed.
type Out struct {
	Err     string            `json:"err,omitempty"`
	ErrMsg  string            `json:"errMsg,omitempty"`
	Cas     uint64            `json:"cas,omitempty"` // casOut of writes / cas of reads
	Added   bool              `json:"added,omitempty"`
	Bool    bool              `json:"bool,omitempty"`
	Body    string            `json:"body,omitempty"`
	HasBody bool              `json:"hasBody,omitempty"`
	X       map[string]string `json:"x,omitempty"`
	Num     uint64            `json:"num,omitempty"`
	Saw     string            `json:"saw,omitempty"` // last value shown to the callback
	SawNil  bool              `json:"sawNil,omitempty"`
	SawX    string            `json:"sawX,omitempty"`
	SawCas  uint64            `json:"sawCas,omitempty"`
	Calls   int               `json:"calls,omitempty"`
	Exp     uint32            `json:"exp,omitempty"` // GetExpiry
}

// St is the model state of one key. C == 0 means "CAS not yet observed" (blind writes do not return it).
type St struct {
	P bool   // a row exists
	L bool   // it has a body
	B string // body
	X string // canonical xattrs: "name=value;" sorted
	C uint64
	E int64 // expiry of the live document; -1 = not pinned (after a sub-document write)
}

func xcanon(m map[string]string) string {
	if len(m) == 0 {
		return ""
	}
	ks := make([]string, 0, len(m))
	for k := range m {
		ks = append(ks, k)
	}
	sort.Strings(ks)
	var sb strings.Builder
	for _, k := range ks {
		var v any
		_ = json.Unmarshal([]byte(m[k]), &v)
		b, _ := json.Marshal(v)
		sb.WriteString(k + "=" + string(b) + ";")
	}
	return sb.String()
}

func xparse(s string) map[string]string {
	m := map[string]string{}
	for _, kv := range strings.Split(s, ";") {
		if i := strings.IndexByte(kv, '='); i > 0 {
			m[kv[:i]] = kv[i+1:]
		}
	}
	return m
}

func xset(s, name, val string) string {
	m := xparse(s)
	m[name] = val
	return xcanon(m)
}

func xsys(s string) string {
	m := xparse(s)
	for k := range m {
		if k == "" || k[0] != '_' {
			delete(m, k)
		}
	}
	return xcanon(m)
}

func casOK(st St, got uint64) bool { return st.C == 0 || st.C == got }

// appendTok appends a token to the JSON list "l" of an object body (creating it).
func appendTok(body string, has bool, tok string) string {
	doc := map[string]any{}
	if has {
		_ = json.Unmarshal([]byte(body), &doc)
		if doc == nil {
			doc = map[string]any{}
		}
	}
	l, _ := doc["l"].([]any)
	doc["l"] = append(l, tok)
	b, _ := json.Marshal(doc)
	return string(b)
}

func appendTokList(list string, tok string) string {
	var l []any
	if list != "" {
		_ = json.Unmarshal([]byte(list), &l)
	}
	l = append(l, tok)
	b, _ := json.Marshal(l)
	return string(b)
}

func isRefusal(e string) bool {
	switch e {
	case "casmismatch", "keyexists", "missing":
		return true
	}
	return false
}

// step is the sequential specification of one key (DESIGN.md §3 / Appendix A restricted to the concurrent op mix).
func step(st St, in In, out Out) (bool, St) {
	switch in.Kind {
	case OGet:
		if out.Err == "" {
			if !st.L || out.Body != st.B || !casOK(st, out.Cas) {
				return false, st
			}
			st.C = out.Cas
			return true, st
		}
		return out.Err == "missing" && !st.L, st
	case OExists:
		return out.Err == "" && out.Bool == st.L, st
	case OGetX:
		if out.Err == "missing" {
			return !st.P || (!st.L && st.X == ""), st
		}
		if out.Err != "" || !st.P {
			return false, st
		}
		if out.HasBody != st.L || (st.L && out.Body != st.B) || xcanon(out.X) != st.X || !casOK(st, out.Cas) {
			return false, st
		}
		st.C = out.Cas
		return true, st
	case OSet:
		if out.Err != "" {
			return false, st
		}
		if !st.L {
			st.X = ""
		}
		st.P, st.L, st.B, st.C, st.E = true, true, in.Body, 0, 0
		return true, st
	case OAdd:
		if out.Err != "" {
			return false, st
		}
		if out.Added {
			if st.L {
				return false, st
			}
			return true, St{P: true, L: true, B: in.Body}
		}
		return st.L, st
	case OWriteCas:
		should := false
		if in.Cas == 0 {
			should = !st.L
		} else {
			should = st.P && (st.C == 0 || st.C == in.Cas)
		}
		if out.Err == "" {
			if !should {
				return false, st
			}
			if !st.L {
				st.X = ""
			}
			st.P, st.L, st.B, st.C, st.E = true, true, in.Body, out.Cas, 0
			return true, st
		}
		if !isRefusal(out.Err) {
			return false, st
		}
		// a refusal is illegal only when the CAS is known to match
		if in.Cas == 0 {
			return st.L, st
		}
		return !(st.P && st.C != 0 && st.C == in.Cas), st
	case ORemove:
		if out.Err == "" {
			if !st.P || !(st.C == 0 || st.C == in.Cas) {
				return false, st
			}
			return true, St{P: true, X: xsys(st.X), C: out.Cas}
		}
		if !isRefusal(out.Err) {
			return false, st
		}
		return !(st.L && st.C != 0 && st.C == in.Cas), st
	case ODelete:
		if out.Err == "" {
			if !st.P {
				return false, st
			}
			return true, St{P: true, X: xsys(st.X)}
		}
		return out.Err == "missing" && !st.L, st
	case OIncr:
		if st.L {
			n, err := strconv.ParseUint(st.B, 10, 64)
			if err != nil {
				return out.Err != "" && out.Err != "panic", st
			}
			if out.Err != "" || out.Num != n+in.Amt {
				return false, st
			}
			st.B, st.C, st.E = strconv.FormatUint(out.Num, 10), 0, 0
			return true, st
		}
		if out.Err != "" || out.Num != in.Def {
			return false, st
		}
		return true, St{P: true, L: true, B: strconv.FormatUint(in.Def, 10)}
	case OUpdate:
		if out.Err != "" {
			return false, st
		}
		// the stored value was built on exactly the version the callback was shown last
		if out.SawNil == st.L || (st.L && out.Saw != st.B) {
			return false, st
		}
		if !st.L {
			st.X = ""
		}
		st.P, st.L, st.B, st.C, st.E = true, true, appendTok(out.Saw, !out.SawNil, in.Token), out.Cas, 0
		return true, st
	case OUpdDel:
		if out.Err != "" {
			return !st.L && isRefusal(out.Err), st // deleting what has no body may be refused (§3.16)
		}
		// the deletion was applied on exactly the version the callback was shown last
		if out.SawNil == st.L || (st.L && out.Saw != st.B) {
			return false, st
		}
		x := ""
		if st.L {
			x = st.X // a body-less write through WriteCas keeps the xattrs of a live document
		}
		return true, St{P: true, X: x, C: out.Cas}
	case OWriteUpd:
		if out.Err != "" {
			return false, st
		}
		if out.SawNil == st.L || (st.L && out.Saw != st.B) {
			return false, st
		}
		cur := xparse(st.X)
		sawList := out.SawX
		if st.P && cur[in.XName] != sawList {
			return false, st
		}
		if st.P && !(st.C == 0 || st.C == out.SawCas) {
			return false, st
		}
		body := out.Saw
		if out.SawNil {
			body = fmt.Sprintf(`{"init":%q}`, in.Token)
		}
		x := st.X
		if !st.L {
			x = "" // resurrection / insert: the tombstone's xattrs are gone
		}
		x = xset(x, in.XName, appendTokList(sawList, in.Token))
		return true, St{P: true, L: true, B: body, X: x, C: out.Cas}
	case OSetX:
		if out.Err != "" {
			return !st.P && out.Err != "panic", st // only an absent key may refuse (§3.16)
		}
		st.X = xset(st.X, in.XName, strconv.Quote(in.Token))
		st.P, st.C = true, out.Cas
		return true, st
	case OSubDoc:
		var doc map[string]any
		if st.L {
			if json.Unmarshal([]byte(st.B), &doc) != nil || doc == nil {
				return out.Err != "" && out.Err != "panic", st
			}
		} else {
			doc = map[string]any{}
		}
		if out.Err != "" {
			return false, st
		}
		doc[in.Path] = in.Token
		b, _ := json.Marshal(doc)
		if !st.L {
			st.X = ""
		}
		st.P, st.L, st.B, st.C, st.E = true, true, string(b), out.Cas, -1 // the expiry after a sub-document write is not pinned
		return true, st
	case OTouch:
		if out.Err == "" {
			if !st.L {
				return false, st
			}
			st.E = int64(in.Exp)
			return true, st
		}
		return out.Err == "missing" && !st.L, st
	case OGetTouch:
		// an atomic read + touch: the body and CAS returned are those of the version that received the new expiry
		if out.Err == "" {
			if !st.L || out.Body != st.B || !casOK(st, out.Cas) {
				return false, st
			}
			st.E = int64(in.Exp)
			return true, st
		}
		return out.Err == "missing" && !st.L, st
	case OGetExp:
		if out.Err == "" {
			if !st.L {
				return false, st // a deleted key is reported missing by GetExpiry too (C01)
			}
			if !(st.E == -1 || st.E == int64(out.Exp)) {
				return false, st
			}
			st.E = int64(out.Exp)
			return true, st
		}
		return out.Err == "missing" && !st.L, st
	}
	return false, st
}

func ifStr(c bool, a, b string) string {
	if c {
		return a
	}
	return b
}

// Model is the porcupine model, partitioned by key.
var Model = porcupine.Model{
	Partition: func(h []porcupine.Operation) [][]porcupine.Operation {
		by := map[string][]porcupine.Operation{}
		var keys []string
		for _, op := range h {
			k := op.Input.(In).Key
			if _, ok := by[k]; !ok {
				keys = append(keys, k)
			}
			by[k] = append(by[k], op)
		}
		sort.Strings(keys)
		out := make([][]porcupine.Operation, 0, len(keys))
		for _, k := range keys {
			out = append(out, by[k])
		}
		return out
	},
	Init: func() interface{} { return St{} },
	Step: func(state, input, output interface{}) (bool, interface{}) {
		ok, ns := step(state.(St), input.(In), output.(Out))
		return ok, ns
	},
	Equal: func(a, b interface{}) bool { return a.(St) == b.(St) },
	DescribeOperation: func(input, output interface{}) string {
		i, o := input.(In), output.(Out)
		return fmt.Sprintf("%s(%s cas=%d exp=%d %s%s) -> err=%q cas=%d body=%q num=%d saw=%q exp=%d", i.Kind, i.Key, i.Cas, i.Exp, i.Body, i.Token, o.Err, o.Cas, o.Body, o.Num, o.Saw, o.Exp)
	},
}
