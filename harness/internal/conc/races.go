package conc

import (
	"context"
	"encoding/json"
	"fmt"
	"strings"
	"sort"
	"sync"

	"verifharness/internal/kv"
	"verifharness/internal/rng"

	sgbucket "github.com/couchbase/sg-bucket"
	"github.com/couchbaselabs/rosmar"
)

// ---------------------------------------------------------------- one-winner races of conditional writers (C02)

// Racer is a conditional write that would succeed if it ran alone against the prepared version.
type Racer struct {
	Name string
	Do   func(c *rosmar.Collection, key string, cas uint64, tok string) (casOut uint64, hasCas bool, err error)
}

var ctxBG = context.Background()

func xj(tok string) []byte { return []byte(fmt.Sprintf(`{"by":%q}`, tok)) }

// RacersLive can replace a live document (with xattrs _sync, u1) given its CAS.
var RacersLive = []Racer{
	{"WriteCas", func(c *rosmar.Collection, k string, cas uint64, t string) (uint64, bool, error) {
		o, err := c.WriteCas(k, 0, cas, []byte(fmt.Sprintf(`{"w":%q}`, t)), 0)
		return o, true, err
	}},
	{"WriteCas+raw", func(c *rosmar.Collection, k string, cas uint64, t string) (uint64, bool, error) {
		o, err := c.WriteCas(k, 0, cas, []byte("raw:"+t), sgbucket.Raw)
		return o, true, err
	}},
	{"Remove", func(c *rosmar.Collection, k string, cas uint64, t string) (uint64, bool, error) {
		o, err := c.Remove(k, cas)
		return o, true, err
	}},
	{"WriteWithXattrs", func(c *rosmar.Collection, k string, cas uint64, t string) (uint64, bool, error) {
		o, err := c.WriteWithXattrs(ctxBG, k, 0, cas, []byte(fmt.Sprintf(`{"w":%q}`, t)), map[string][]byte{"_sync": xj(t)}, nil, nil)
		return o, true, err
	}},
	{"WriteTombstoneWithXattrs", func(c *rosmar.Collection, k string, cas uint64, t string) (uint64, bool, error) {
		o, err := c.WriteTombstoneWithXattrs(ctxBG, k, 0, cas, map[string][]byte{"_sync": xj(t)}, nil, true, nil)
		return o, true, err
	}},
	{"UpdateXattrs", func(c *rosmar.Collection, k string, cas uint64, t string) (uint64, bool, error) {
		o, err := c.UpdateXattrs(ctxBG, k, 0, cas, map[string][]byte{"_vv": xj(t)}, nil)
		return o, true, err
	}},
	{"RemoveXattrs", func(c *rosmar.Collection, k string, cas uint64, t string) (uint64, bool, error) {
		return 0, false, c.RemoveXattrs(ctxBG, k, []string{"u1"}, cas)
	}},
	{"SetWithMeta", func(c *rosmar.Collection, k string, cas uint64, t string) (uint64, bool, error) {
		n := cas + 0x10000*uint64(1+len(t))
		return n, true, c.SetWithMeta(ctxBG, k, cas, n, 0, nil, []byte(fmt.Sprintf(`{"m":%q}`, t)), sgbucket.FeedDataTypeJSON)
	}},
	{"DeleteWithMeta", func(c *rosmar.Collection, k string, cas uint64, t string) (uint64, bool, error) {
		n := cas + 0x10000*uint64(100+len(t))
		return n, true, c.DeleteWithMeta(ctxBG, k, cas, n, 0, nil)
	}},
	{"WriteSubDoc", func(c *rosmar.Collection, k string, cas uint64, t string) (uint64, bool, error) {
		o, err := c.WriteSubDoc(ctxBG, k, "sub", cas, []byte(fmt.Sprintf("%q", t)))
		return o, true, err
	}},
	{"SubdocInsert", func(c *rosmar.Collection, k string, cas uint64, t string) (uint64, bool, error) {
		return 0, false, c.SubdocInsert(ctxBG, k, "ins_"+t, cas, t)
	}},
}

// RacersAbsent create a document that does not exist (expected CAS 0 / insert-only).
var RacersAbsent = []Racer{
	{"WriteCas@0", func(c *rosmar.Collection, k string, cas uint64, t string) (uint64, bool, error) {
		o, err := c.WriteCas(k, 0, 0, []byte(fmt.Sprintf(`{"w":%q}`, t)), 0)
		return o, true, err
	}},
	{"WriteCas+addonly", func(c *rosmar.Collection, k string, cas uint64, t string) (uint64, bool, error) {
		o, err := c.WriteCas(k, 0, 0, []byte(fmt.Sprintf(`{"w":%q}`, t)), sgbucket.AddOnly)
		return o, true, err
	}},
	{"Add", func(c *rosmar.Collection, k string, cas uint64, t string) (uint64, bool, error) {
		added, err := c.Add(k, 0, []byte(fmt.Sprintf(`{"w":%q}`, t)))
		if err == nil && !added {
			err = sgbucket.ErrKeyExists
		}
		return 0, false, err
	}},
	{"WriteWithXattrs@0", func(c *rosmar.Collection, k string, cas uint64, t string) (uint64, bool, error) {
		o, err := c.WriteWithXattrs(ctxBG, k, 0, 0, []byte(fmt.Sprintf(`{"w":%q}`, t)), map[string][]byte{"_sync": xj(t)}, nil, nil)
		return o, true, err
	}},
	{"WriteResurrectionWithXattrs", func(c *rosmar.Collection, k string, cas uint64, t string) (uint64, bool, error) {
		o, err := c.WriteResurrectionWithXattrs(ctxBG, k, 0, []byte(fmt.Sprintf(`{"w":%q}`, t)), map[string][]byte{"_sync": xj(t)}, nil)
		return o, true, err
	}},
	{"SetWithMeta@0", func(c *rosmar.Collection, k string, cas uint64, t string) (uint64, bool, error) {
		n := uint64(1790000000000000000) + 0x10000*uint64(len(t))
		return n, true, c.SetWithMeta(ctxBG, k, 0, n, 0, nil, []byte(fmt.Sprintf(`{"m":%q}`, t)), sgbucket.FeedDataTypeJSON)
	}},
}

type RaceResult struct {
	Racers  []string `json:"racers"`
	Errs    []string `json:"errs"`
	Winners int      `json:"winners"`
	Final   kv.Obs   `json:"final"`
	PreCas  uint64   `json:"preCas"`
}

// OneWinnerRace prepares a version, lets the racers go at once and returns what happened.
func OneWinnerRace(b *Bucket, key string, absent bool, racers []Racer, r *rng.R) (RaceResult, string) {
	col0 := b.Colls[0]
	var cas uint64
	if !absent {
		var err error
		cas, err = col0.WriteWithXattrs(ctxBG, key, 0, 0, []byte(`{"n":1,"sub":"orig"}`), map[string][]byte{"_sync": []byte(`{"seq":1}`), "u1": []byte(`{"u":1}`)}, nil, nil)
		if err != nil {
			return RaceResult{}, "setup failed: " + err.Error()
		}
	}
	res := RaceResult{PreCas: cas, Errs: make([]string, len(racers))}
	casOuts := make([]uint64, len(racers))
	hasCas := make([]bool, len(racers))
	start := make(chan struct{})
	var wg sync.WaitGroup
	for i, rc := range racers {
		res.Racers = append(res.Racers, rc.Name)
		wg.Add(1)
		go func(i int, rc Racer) {
			defer wg.Done()
			defer func() {
				if p := recover(); p != nil {
					res.Errs[i] = fmt.Sprintf("panic: %v", p)
				}
			}()
			col := b.Colls[i%len(b.Colls)]
			<-start
			o, h, err := rc.Do(col, key, cas, fmt.Sprintf("r%d", i))
			casOuts[i], hasCas[i] = o, h
			if err != nil {
				res.Errs[i] = kv.ErrClass(err)
				if res.Errs[i] == "other" || res.Errs[i] == "db" {
					res.Errs[i] += ":" + err.Error()
				}
			}
		}(i, rc)
	}
	close(start)
	wg.Wait()
	res.Final = kv.ReadBack(col0, key)
	winner := -1
	for i, e := range res.Errs {
		if e == "" {
			res.Winners++
			winner = i
		}
	}
	if res.Winners != 1 {
		return res, fmt.Sprintf("%d of %d conditional writers that all held version %d succeeded (exactly one must)", res.Winners, len(racers), cas)
	}
	for i, e := range res.Errs {
		if racers[i].Name == "WriteSubDoc" || racers[i].Name == "SubdocInsert" {
			continue // they read first: if the winner stored a non-JSON body they fail while parsing it, which is a refusal too
		}
		if i != winner && e != "casmismatch" && e != "keyexists" && e != "missing" {
			return res, fmt.Sprintf("losing writer %s failed with %q instead of a CAS-mismatch / key-exists / missing error", racers[i].Name, e)
		}
	}
	if hasCas[winner] {
		got := res.Final.RawCas
		if res.Final.RawErr != "" {
			got = res.Final.VCas
		}
		if got != casOuts[winner] {
			return res, fmt.Sprintf("the winner %s returned CAS %d but the document has CAS %d: a loser's write was applied too", racers[winner].Name, casOuts[winner], got)
		}
	}
	return res, ""
}

// ---------------------------------------------------------------- forced retry windows (C02, C03, C18)

// RivalKinds are the writes placed inside a read-modify-write window.
var RivalKinds = []string{"Set", "Delete", "SetXattrs", "WriteCas", "Incr-like-Set", "WriteSubDoc", "Remove+Set"}

// LiveRivalKinds are further rivals, placed only inside windows that opened on a live document: the rarely used
// entry points must produce a new version (a new CAS) just like the common ones, or the loop cannot notice them.
var LiveRivalKinds = []string{"DeleteSubDocPaths", "Set+PreserveExpiry"}

func doRival(c *rosmar.Collection, key, kind, tok string) error {
	switch kind {
	case "Set", "Incr-like-Set":
		return c.Set(key, 0, nil, []byte(fmt.Sprintf(`{"l":[],"rival":%q}`, tok)))
	case "Delete":
		err := c.Delete(key)
		if kv.ErrClass(err) == "missing" {
			return nil
		}
		return err
	case "SetXattrs":
		_, err := c.SetXattrs(ctxBG, key, map[string][]byte{"_x": []byte(fmt.Sprintf(`[%q]`, tok))})
		return err
	case "WriteCas":
		_, cas, _ := c.GetRaw(key)
		_, err := c.WriteCas(key, 0, cas, []byte(fmt.Sprintf(`{"l":[],"rival":%q}`, tok)), 0)
		return err
	case "WriteSubDoc":
		_, err := c.WriteSubDoc(ctxBG, key, "rivalprop", 0, []byte(fmt.Sprintf("%q", tok)))
		return err
	case "Remove+Set":
		_ = c.Delete(key)
		return c.Set(key, 0, nil, []byte(fmt.Sprintf(`{"l":[],"rival":%q}`, tok)))
	case "Set+PreserveExpiry":
		return c.Set(key, 0, &sgbucket.UpsertOptions{PreserveExpiry: true}, []byte(fmt.Sprintf(`{"l":[],"rival":%q}`, tok)))
	case "DeleteSubDocPaths":
		return c.DeleteSubDocPaths(ctxBG, key, "_x")
	}
	return nil
}

type WindowResult struct {
	Loop    string `json:"loop"`
	Rival   string `json:"rival"`
	Pre     string `json:"pre"`
	Calls   int    `json:"calls"`
	Err     string `json:"err"`
	Final   kv.Obs `json:"final"`
	RivalOK bool   `json:"rivalOk"`
	Saw     []string `json:"saw"`
}

func prepare(c *rosmar.Collection, key, pre string) error {
	switch pre {
	case "absent":
		return nil
	case "live":
		_, err := c.WriteWithXattrs(ctxBG, key, 0, 0, []byte(`{"l":[],"orig":1}`), map[string][]byte{"_x": []byte(`["x0"]`)}, nil, nil)
		return err
	case "tomb":
		if _, err := c.WriteWithXattrs(ctxBG, key, 0, 0, []byte(`{"l":[],"orig":1}`), map[string][]byte{"_x": []byte(`["x0"]`)}, nil, nil); err != nil {
			return err
		}
		return c.Delete(key)
	}
	return nil
}

func bodyHas(o *kv.Obs, field, val string) bool {
	var doc map[string]any
	if o.RawErr != "" || json.Unmarshal(o.Raw, &doc) != nil {
		return false
	}
	switch t := doc[field].(type) {
	case string:
		return t == val
	case []any:
		for _, x := range t {
			if s, ok := x.(string); ok && s == val {
				return true
			}
		}
	}
	return false
}

// UpdateWindow: inside the first Update callback a rival write commits on the same key through another handle;
// the loop must notice (callback re-invoked with the rival's version) and the final document must contain both effects.
func UpdateWindow(b *Bucket, key, pre, rival string) (WindowResult, string) {
	c0, c1 := b.Colls[0], b.Colls[len(b.Colls)-1]
	res := WindowResult{Loop: "Update", Rival: rival, Pre: pre}
	if err := prepare(c0, key, pre); err != nil {
		return res, "setup: " + err.Error()
	}
	var rivalErr error
	_, err := c0.Update(key, 0, func(cur []byte) ([]byte, *uint32, bool, error) {
		res.Calls++
		res.Saw = append(res.Saw, string(cur))
		if res.Calls == 1 {
			rivalErr = doRival(c1, key, rival, "R")
		}
		return []byte(appendTok(string(cur), cur != nil, "U")), nil, false, nil
	})
	res.Err = kv.ErrClass(err)
	res.Final = kv.ReadBack(c0, key)
	res.RivalOK = rivalErr == nil
	if rivalErr != nil {
		return res, "rival write failed: " + rivalErr.Error()
	}
	if err != nil {
		return res, fmt.Sprintf("Update failed with %s after a rival %s committed inside its read-write window", res.Err, rival)
	}
	// Update only sees the body: a rival that leaves the key without a body (Delete / xattr-only write on a key
	// that had none) does not change the version Update was shown (CAS 0 stands for "no live document").
	changes := !((rival == "Delete" || rival == "SetXattrs") && pre != "live")
	if changes && res.Calls < 2 {
		return res, fmt.Sprintf("a rival %s committed between Update's read and write but the callback was not re-invoked (calls=%d): the update was stored on a version the callback never saw", rival, res.Calls)
	}
	if !bodyHas(&res.Final, "l", "U") {
		return res, "the Update's own effect is missing from the final document"
	}
	switch rival {
	case "Set", "WriteCas", "Incr-like-Set", "Remove+Set", "Set+PreserveExpiry":
		if !bodyHas(&res.Final, "rival", "R") {
			return res, fmt.Sprintf("the rival %s's write was lost: Update overwrote it with a value computed from the older version", rival)
		}
	case "WriteSubDoc":
		if !bodyHas(&res.Final, "rivalprop", "R") {
			return res, "the rival WriteSubDoc's property was lost"
		}
	case "SetXattrs":
		// resurrecting a tombstone legitimately drops its xattrs, so this is only checked on a live document
		if pre == "live" && res.Final.GX["_x"] != `["R"]` {
			return res, fmt.Sprintf("the rival SetXattrs was lost: _x=%s", res.Final.GX["_x"])
		}
	case "DeleteSubDocPaths":
		if _, back := res.Final.GX["_x"]; back {
			return res, fmt.Sprintf("the rival DeleteSubDocPaths was lost: _x=%s is back", res.Final.GX["_x"])
		}
	}
	return res, ""
}

// WriteUpdateWindow is the same for WriteUpdateWithXattrs (the callback appends to the xattr list _x).
func WriteUpdateWindow(b *Bucket, key, pre, rival string) (WindowResult, string) {
	c0, c1 := b.Colls[0], b.Colls[len(b.Colls)-1]
	res := WindowResult{Loop: "WriteUpdateWithXattrs", Rival: rival, Pre: pre}
	if err := prepare(c0, key, pre); err != nil {
		return res, "setup: " + err.Error()
	}
	var rivalErr error
	_, err := c0.WriteUpdateWithXattrs(ctxBG, key, []string{"_x"}, 0, nil, &sgbucket.MutateInOptions{},
		func(doc []byte, xattrs map[string][]byte, cas uint64) (sgbucket.UpdatedDoc, error) {
			res.Calls++
			res.Saw = append(res.Saw, string(doc)+"|"+string(xattrs["_x"]))
			if res.Calls == 1 {
				rivalErr = doRival(c1, key, rival, "R")
			}
			body := doc
			if doc == nil {
				body = []byte(`{"l":[],"init":"W"}`)
			}
			return sgbucket.UpdatedDoc{Doc: body, Xattrs: map[string][]byte{"_x": []byte(appendTokList(string(xattrs["_x"]), "W"))}}, nil
		})
	res.Err = kv.ErrClass(err)
	res.Final = kv.ReadBack(c0, key)
	if rivalErr != nil {
		return res, "rival write failed: " + rivalErr.Error()
	}
	if err != nil {
		return res, fmt.Sprintf("WriteUpdateWithXattrs failed with %s after a rival %s committed inside its read-write window", res.Err, rival)
	}
	changes := !(rival == "Delete" && pre != "live")
	if changes && res.Calls < 2 {
		return res, fmt.Sprintf("a rival %s committed between the read and the write of WriteUpdateWithXattrs but the callback was not re-invoked (calls=%d)", rival, res.Calls)
	}
	var l []any
	_ = json.Unmarshal([]byte(res.Final.GX["_x"]), &l)
	if len(l) == 0 || l[len(l)-1] != "W" {
		return res, fmt.Sprintf("the update's own xattr effect is missing: _x=%s", res.Final.GX["_x"])
	}
	switch rival {
	case "Set", "WriteCas", "Incr-like-Set", "Remove+Set", "Set+PreserveExpiry":
		if !bodyHas(&res.Final, "rival", "R") {
			return res, fmt.Sprintf("the rival %s's body was lost", rival)
		}
	case "WriteSubDoc":
		if !bodyHas(&res.Final, "rivalprop", "R") {
			return res, "the rival WriteSubDoc's property was lost"
		}
	case "SetXattrs":
		if len(l) != 2 || l[0] != "R" {
			return res, fmt.Sprintf("the rival SetXattrs was lost: _x=%s", res.Final.GX["_x"])
		}
	case "DeleteSubDocPaths":
		if len(l) != 1 {
			return res, fmt.Sprintf("the rival DeleteSubDocPaths removed _x inside the window, yet the stored list was built on the removed one: _x=%s", res.Final.GX["_x"])
		}
	}
	return res, ""
}

// SubdocWindow parks WriteSubDoc / SubdocInsert at the subdoc.rw hook (between its read and its WriteCas) and
// commits a rival there. With cas==0 the call must retry and both effects survive; with an explicit CAS it must
// fail and leave the rival's document intact.
func SubdocWindow(b *Bucket, key, pre, rival string, explicitCas, insert bool) (WindowResult, string) {
	c0, c1 := b.Colls[0], b.Colls[len(b.Colls)-1]
	name := ifStr(insert, "SubdocInsert", "WriteSubDoc")
	res := WindowResult{Loop: name + ifStr(explicitCas, "@cas", "@0"), Rival: rival, Pre: pre}
	if err := prepare(c0, key, pre); err != nil {
		return res, "setup: " + err.Error()
	}
	var cas uint64
	if explicitCas {
		_, cas, _ = c0.GetRaw(key)
	}
	var rivalErr error
	fired := false
	rosmar.VerifSetPointHandler(func(p string) {
		if p == "subdoc.rw" && !fired {
			fired = true
			res.Calls++
			rivalErr = doRival(c1, key, rival, "R")
		}
	})
	var err error
	if insert {
		err = c0.SubdocInsert(ctxBG, key, "mine", cas, "S")
	} else {
		_, err = c0.WriteSubDoc(ctxBG, key, "mine", cas, []byte(`"S"`))
	}
	rosmar.VerifSetPointHandler(nil)
	res.Err = kv.ErrClass(err)
	res.Final = kv.ReadBack(c0, key)
	if !fired {
		return res, "" // the call was refused before its window (e.g. SubdocInsert on a missing document): nothing to judge
	}
	if rivalErr != nil {
		return res, "rival write failed: " + rivalErr.Error()
	}
	rivalIntact := func() string {
		switch rival {
		case "Set", "WriteCas", "Incr-like-Set", "Remove+Set", "Set+PreserveExpiry":
			if !bodyHas(&res.Final, "rival", "R") {
				return fmt.Sprintf("the rival %s's write was lost", rival)
			}
		case "WriteSubDoc":
			if !bodyHas(&res.Final, "rivalprop", "R") {
				return "the rival WriteSubDoc's property was lost"
			}
		case "SetXattrs":
			if pre == "live" && res.Final.GX["_x"] != `["R"]` {
				return "the rival SetXattrs was lost"
			}
		case "DeleteSubDocPaths":
			if _, back := res.Final.GX["_x"]; back {
				return "the rival DeleteSubDocPaths was lost: _x is back"
			}
		case "Delete":
			// with cas==0 the retry re-creates the document; nothing of the rival remains to check
		}
		return ""
	}
	if explicitCas {
		if err == nil {
			return res, fmt.Sprintf("%s with an explicit CAS succeeded although a rival %s replaced that version inside its read-write window", name, rival)
		}
		if res.Err != "casmismatch" && res.Err != "missing" && res.Err != "keyexists" {
			return res, fmt.Sprintf("%s failed with %s, want a CAS-mismatch class", name, res.Err)
		}
		if bodyHas(&res.Final, "mine", "S") {
			return res, name + " reported failure but its property was written"
		}
		return res, rivalIntact()
	}
	if err != nil {
		if insert && rival == "Delete" {
			return res, "" // the document is gone when SubdocInsert retries: refusing is right
		}
		return res, fmt.Sprintf("%s (cas 0) failed with %s after a rival %s; it must retry", name, res.Err, rival)
	}
	if !bodyHas(&res.Final, "mine", "S") {
		return res, name + "'s own property is missing from the final document"
	}
	return res, rivalIntact()
}

// ---------------------------------------------------------------- sub-document property ownership (C18)

// SubdocOwners: every client owns one property of one document and sets / removes it; a list client appends
// tokens through Update; an xattr client writes xattrs. At the end each property must reflect its owner's last
// acknowledged operation and no token may be missing.
func SubdocOwners(b *Bucket, key string, clients, opsEach int, r *rng.R) (map[string]any, string) {
	if err := b.Colls[0].Set(key, 0, nil, []byte(`{"l":[],"base":{"keep":true}}`)); err != nil {
		return nil, "setup: " + err.Error()
	}
	type last struct {
		present bool
		tok     string
		errs    []string
	}
	lasts := make([]last, clients)
	var listToks []string
	var mu sync.Mutex
	var wg sync.WaitGroup
	start := make(chan struct{})
	inserted := map[string]string{}
	for ci := 0; ci < clients; ci++ {
		wg.Add(1)
		cr := rng.New(r.U64(), uint64(ci))
		go func(ci int, cr *rng.R) {
			defer wg.Done()
			defer func() {
				if p := recover(); p != nil {
					mu.Lock()
					lasts[ci].errs = append(lasts[ci].errs, fmt.Sprintf("panic: %v", p))
					mu.Unlock()
				}
			}()
			col := b.Colls[ci%len(b.Colls)]
			path := fmt.Sprintf("p%d", ci)
			<-start
			for i := 0; i < opsEach; i++ {
				tok := fmt.Sprintf("c%d.%d", ci, i)
				switch {
				case ci == 0: // list client
					_, err := col.Update(key, 0, func(cur []byte) ([]byte, *uint32, bool, error) {
						return []byte(appendTok(string(cur), cur != nil, tok)), nil, false, nil
					})
					mu.Lock()
					if err == nil {
						listToks = append(listToks, tok)
					} else {
						lasts[ci].errs = append(lasts[ci].errs, "Update: "+err.Error())
					}
					mu.Unlock()
				case ci == 1 && cr.Chance(1, 2): // xattr client
					if _, err := col.SetXattrs(ctxBG, key, map[string][]byte{"u1": []byte(fmt.Sprintf("%q", tok))}); err != nil {
						mu.Lock()
						lasts[ci].errs = append(lasts[ci].errs, "SetXattrs: "+err.Error())
						mu.Unlock()
					}
				case cr.Chance(1, 4): // remove own property
					_, err := col.WriteSubDoc(ctxBG, key, path, 0, nil)
					mu.Lock()
					if err == nil {
						lasts[ci].present = false
					} else {
						lasts[ci].errs = append(lasts[ci].errs, "WriteSubDoc(remove): "+err.Error())
					}
					mu.Unlock()
				case cr.Chance(1, 5): // insert a brand-new property
					p := fmt.Sprintf("i%d_%d", ci, i)
					err := col.SubdocInsert(ctxBG, key, p, 0, tok)
					mu.Lock()
					if err == nil {
						inserted[p] = tok
					} else {
						lasts[ci].errs = append(lasts[ci].errs, "SubdocInsert: "+err.Error())
					}
					mu.Unlock()
				default:
					_, err := col.WriteSubDoc(ctxBG, key, path, 0, []byte(fmt.Sprintf("%q", tok)))
					mu.Lock()
					if err == nil {
						lasts[ci].present, lasts[ci].tok = true, tok
					} else {
						lasts[ci].errs = append(lasts[ci].errs, "WriteSubDoc: "+err.Error())
					}
					mu.Unlock()
				}
			}
		}(ci, cr)
	}
	close(start)
	wg.Wait()
	raw, _, err := b.Colls[0].GetRaw(key)
	info := map[string]any{"final": string(raw), "clients": clients, "ops_each": opsEach}
	if err != nil {
		return info, "final read failed: " + err.Error()
	}
	var doc map[string]any
	if json.Unmarshal(raw, &doc) != nil {
		return info, "final document is not a JSON object"
	}
	for ci := range lasts {
		if len(lasts[ci].errs) > 0 {
			return info, fmt.Sprintf("client %d: %s", ci, lasts[ci].errs[0])
		}
		if ci == 0 {
			continue
		}
		path := fmt.Sprintf("p%d", ci)
		v, ok := doc[path]
		if lasts[ci].present && (!ok || v != lasts[ci].tok) {
			return info, fmt.Sprintf("property %s should hold its owner's last acknowledged value %q but the document has %v (present=%v): a concurrent writer's retry lost or overwrote it", path, lasts[ci].tok, v, ok)
		}
		if !lasts[ci].present && ok {
			return info, fmt.Sprintf("property %s was removed by its owner's last acknowledged operation but is back (%v): a concurrent writer wrote a stale copy of the document", path, v)
		}
	}
	keys := make([]string, 0, len(inserted))
	for p := range inserted {
		keys = append(keys, p)
	}
	sort.Strings(keys)
	for _, p := range keys {
		if doc[p] != inserted[p] {
			return info, fmt.Sprintf("inserted property %s=%q is missing from the final document", p, inserted[p])
		}
	}
	if b, ok := doc["base"].(map[string]any); !ok || b["keep"] != true {
		return info, "the untouched property 'base' was not preserved"
	}
	l, _ := doc["l"].([]any)
	have := map[string]int{}
	for _, x := range l {
		if s, ok := x.(string); ok {
			have[s]++
		}
	}
	for _, t := range listToks {
		if have[t] != 1 {
			return info, fmt.Sprintf("token %s of an acknowledged Update appears %d times in the list", t, have[t])
		}
	}
	info["list_tokens"] = len(listToks)
	info["inserted"] = len(inserted)
	return info, ""
}

// UpdateDeleteWindow: an Update whose callback asks for deletion; a rival write commits inside its read-write
// window. The deletion may only be applied to the version the callback saw, so the callback must be shown the
// rival's version before the document is deleted.
func UpdateDeleteWindow(b *Bucket, key, pre, rival string) (WindowResult, string) {
	c0, c1 := b.Colls[0], b.Colls[len(b.Colls)-1]
	res := WindowResult{Loop: "Update(delete)", Rival: rival, Pre: pre}
	if err := prepare(c0, key, pre); err != nil {
		return res, "setup: " + err.Error()
	}
	var rivalErr error
	_, err := c0.Update(key, 0, func(cur []byte) ([]byte, *uint32, bool, error) {
		res.Calls++
		res.Saw = append(res.Saw, string(cur))
		if res.Calls == 1 {
			rivalErr = doRival(c1, key, rival, "R")
		}
		if cur == nil {
			return nil, nil, false, nil // nothing to delete: cancel
		}
		if bodyHasRaw(cur, "rival", "R") || bodyHasRaw(cur, "rivalprop", "R") {
			return nil, nil, false, nil // the rival's version is worth keeping: cancel
		}
		return nil, nil, true, nil
	})
	res.Err = kv.ErrClass(err)
	res.Final = kv.ReadBack(c0, key)
	if rivalErr != nil {
		return res, "rival write failed: " + rivalErr.Error()
	}
	if err != nil {
		return res, fmt.Sprintf("Update(delete) failed with %s after a rival %s committed inside its read-write window", res.Err, rival)
	}
	switch rival {
	case "Set", "WriteCas", "Incr-like-Set", "Remove+Set", "Set+PreserveExpiry", "WriteSubDoc":
		// the callback would have cancelled had it been shown the rival's version: the rival's document must survive
		if res.Final.RawErr != "" {
			return res, fmt.Sprintf("Update(delete) deleted the rival %s's document although its callback was only shown the older version (calls=%d)", rival, res.Calls)
		}
	}
	return res, ""
}

func bodyHasRaw(raw []byte, field, val string) bool {
	var doc map[string]any
	if json.Unmarshal(raw, &doc) != nil {
		return false
	}
	s, _ := doc[field].(string)
	return s == val
}

// UpdateExpiryWindow: what an attempt of Update's loop that lost its CAS check had asked for must not leak into the
// attempt that wins. mode "first-attempt-expiry": the first callback invocation (during which a rival Set commits)
// returns an expiry, the second one none - the stored expiry must be the call's exp argument (0). mode
// "expiry-only": the callback keeps the body and only sets an expiry, every time - after the rival's Set the
// callback must be shown the rival's version before its expiry is applied.
func UpdateExpiryWindow(b *Bucket, key, mode string) (WindowResult, string) {
	c0, c1 := b.Colls[0], b.Colls[len(b.Colls)-1]
	res := WindowResult{Loop: "Update", Rival: "Set", Pre: "live/" + mode}
	if err := prepare(c0, key, "live"); err != nil {
		return res, "setup: " + err.Error()
	}
	const E = uint32(2000000555)
	var rivalErr error
	_, err := c0.Update(key, 0, func(cur []byte) ([]byte, *uint32, bool, error) {
		res.Calls++
		res.Saw = append(res.Saw, string(cur))
		e := E
		if res.Calls == 1 {
			rivalErr = doRival(c1, key, "Set", "R")
			if mode == "first-attempt-expiry" {
				return []byte(appendTok(string(cur), cur != nil, "U")), &e, false, nil
			}
		}
		if mode == "expiry-only" {
			return nil, &e, false, nil
		}
		return []byte(appendTok(string(cur), cur != nil, "U")), nil, false, nil
	})
	res.Err = kv.ErrClass(err)
	res.Final = kv.ReadBack(c0, key)
	if rivalErr != nil {
		return res, "rival write failed: " + rivalErr.Error()
	}
	if err != nil {
		return res, fmt.Sprintf("Update failed with %s after a rival Set committed inside its read-write window", res.Err)
	}
	if res.Calls < 2 {
		return res, fmt.Sprintf("a rival Set committed between Update's read and write but the callback was not re-invoked (calls=%d, mode %s): its result was applied to a version it never saw", res.Calls, mode)
	}
	if !bodyHas(&res.Final, "rival", "R") {
		return res, "the rival Set's write was lost"
	}
	switch mode {
	case "first-attempt-expiry":
		if res.Final.Exp != 0 {
			return res, fmt.Sprintf("the attempt that lost its CAS check asked for expiry %d, the attempt that won asked for none (exp argument 0), yet the document is stored with expiry %d", E, res.Final.Exp)
		}
	case "expiry-only":
		if res.Final.Exp != E {
			return res, fmt.Sprintf("the expiry-only update was acknowledged but the document's expiry is %d, not %d", res.Final.Exp, E)
		}
	}
	return res, ""
}

// WriteUpdateLeakWindow: the same for WriteUpdateWithXattrs - expiry and macro-expansion spec returned by an attempt
// that lost its CAS check must not be applied by the attempt that wins; and the call's own exp argument is what
// the document gets when the winning callback result names no expiry.
func WriteUpdateLeakWindow(b *Bucket, key string, expArg uint32) (WindowResult, string) {
	c0, c1 := b.Colls[0], b.Colls[len(b.Colls)-1]
	res := WindowResult{Loop: "WriteUpdateWithXattrs", Rival: "Set", Pre: fmt.Sprintf("live/leak/exp=%d", expArg)}
	if err := prepare(c0, key, "live"); err != nil {
		return res, "setup: " + err.Error()
	}
	const E = uint32(2000000777)
	var rivalErr error
	opts := &sgbucket.MutateInOptions{}
	_, err := c0.WriteUpdateWithXattrs(ctxBG, key, []string{"_x2"}, expArg, nil, opts,
		func(doc []byte, xattrs map[string][]byte, cas uint64) (sgbucket.UpdatedDoc, error) {
			res.Calls++
			res.Saw = append(res.Saw, string(doc)+"|"+string(xattrs["_x2"]))
			ud := sgbucket.UpdatedDoc{Doc: doc, Xattrs: map[string][]byte{"_x2": []byte(fmt.Sprintf(`{"attempt":%d}`, res.Calls))}}
			if res.Calls == 1 {
				rivalErr = doRival(c1, key, "Set", "R")
				e := E
				ud.Expiry = &e
				ud.Spec = []sgbucket.MacroExpansionSpec{sgbucket.NewMacroExpansionSpec("_x2.first", sgbucket.MacroCas)}
			}
			return ud, nil
		})
	res.Err = kv.ErrClass(err)
	res.Final = kv.ReadBack(c0, key)
	if rivalErr != nil {
		return res, "rival write failed: " + rivalErr.Error()
	}
	if err != nil {
		return res, fmt.Sprintf("WriteUpdateWithXattrs failed with %s after a rival Set committed inside its read-write window", res.Err)
	}
	if res.Calls < 2 {
		return res, fmt.Sprintf("a rival Set committed between the read and the write but the callback was not re-invoked (calls=%d)", res.Calls)
	}
	if res.Final.Exp != expArg {
		return res, fmt.Sprintf("the winning attempt named no expiry and the call's exp argument is %d, but the document is stored with expiry %d (the attempt that lost its CAS check had asked for %d)", expArg, res.Final.Exp, E)
	}
	if m := res.Final.GX["_x2"]; strings.Contains(m, "first") || !strings.Contains(m, `"attempt":2`) {
		return res, fmt.Sprintf("xattr _x2=%s: the macro expansion spec of the attempt that lost its CAS check was applied by the attempt that won", m)
	}
	if len(opts.MacroExpansion) != 0 {
		return res, fmt.Sprintf("the caller's MutateInOptions were modified: %d macro expansion specs were added to them", len(opts.MacroExpansion))
	}
	return res, ""
}

// WriteUpdateTombstoneWindow: WriteUpdateWithXattrs whose callback turns a live document into a tombstone (keeping
// the xattr list _x) while a rival commits inside its read-write window. Whatever the rival did - another body, an
// xattr write, or a deletion of its own - the call must come back as in some one-at-a-time order: it re-reads, is
// shown the rival's version and ends with the key deleted and its own token last in _x; it must not give up with
// an error no sequential order produces.
func WriteUpdateTombstoneWindow(b *Bucket, key, rival string) (WindowResult, string) {
	c0, c1 := b.Colls[0], b.Colls[len(b.Colls)-1]
	res := WindowResult{Loop: "WriteUpdateWithXattrs(tombstone)", Rival: rival, Pre: "live"}
	if err := prepare(c0, key, "live"); err != nil {
		return res, "setup: " + err.Error()
	}
	var rivalErr error
	_, err := c0.WriteUpdateWithXattrs(ctxBG, key, []string{"_x"}, 0, nil, &sgbucket.MutateInOptions{},
		func(doc []byte, xattrs map[string][]byte, cas uint64) (sgbucket.UpdatedDoc, error) {
			res.Calls++
			res.Saw = append(res.Saw, string(doc)+"|"+string(xattrs["_x"]))
			if res.Calls == 1 {
				rivalErr = doRival(c1, key, rival, "R")
			}
			return sgbucket.UpdatedDoc{IsTombstone: true, Xattrs: map[string][]byte{"_x": []byte(appendTokList(string(xattrs["_x"]), "W"))}}, nil
		})
	res.Err = kv.ErrClass(err)
	res.Final = kv.ReadBack(c0, key)
	if rivalErr != nil {
		return res, "rival write failed: " + rivalErr.Error()
	}
	if err != nil {
		return res, fmt.Sprintf("WriteUpdateWithXattrs (callback deletes the document) failed with %s (%v) after a rival %s committed inside its read-write window; it must re-read and try again", res.Err, err, rival)
	}
	if res.Calls < 2 {
		return res, fmt.Sprintf("a rival %s committed between the read and the write of WriteUpdateWithXattrs but the callback was not re-invoked (calls=%d)", rival, res.Calls)
	}
	if res.Final.RawErr == "" {
		return res, "the callback asked for a tombstone, yet the key still has a body"
	}
	var l []any
	_ = json.Unmarshal([]byte(res.Final.GX["_x"]), &l)
	if len(l) == 0 || l[len(l)-1] != "W" {
		return res, fmt.Sprintf("the update's own xattr effect is missing from the tombstone: _x=%s", res.Final.GX["_x"])
	}
	return res, ""
}
