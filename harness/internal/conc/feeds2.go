package conc

import (
	"strings"
	"sort"
	"bytes"
	"context"
	"encoding/json"
	"fmt"
	"sync"
	"sync/atomic"
	"time"

	"verifharness/internal/kv"
	"verifharness/internal/rng"

	sgbucket "github.com/couchbase/sg-bucket"
	"github.com/couchbaselabs/rosmar"
)

// ---------------------------------------------------------------- backfill + live join (C09)

type JoinResult struct {
	Writes        int   `json:"writes"`
	InWindow      int64 `json:"writesCommittedInsideRegistrationWindow"`
	BackfillEvs   int   `json:"backfillEvents"`
	LiveEvs       int   `json:"liveEvents"`
	WindowReached bool  `json:"windowReached"`
}

// JoinRun starts a backfill+live feed while writers run. The feed.registered hook (between end of backfill and
// registration) parks the starter until at least one more write has been acknowledged, so a write lands in the
// window every time. Afterwards the newest event received for every key must be the key's final version.
func JoinRun(m *MultiBucket, writers, opsEach, keys int, r *rng.R) (JoinResult, string, map[string]any) {
	var res JoinResult
	col := m.CollsBy[0][0]
	// some documents exist before the feed starts
	for i := 0; i < keys; i++ {
		if r.Bool() {
			_ = col.Set(fmt.Sprintf("k%d", i), 0, nil, []byte(`{"pre":1}`))
		}
	}
	var acked atomic.Int64
	var onceMu sync.Mutex
	var onceKeys []string // keys written exactly once (by the replicating writers)
	stop := make(chan struct{})
	var wg sync.WaitGroup
	var starterGoid atomic.Uint64
	var inWindow atomic.Int64
	rosmar.VerifSetPointHandler(func(p string) {
		if p == "feed.registered" && goid() == starterGoid.Load() {
			res.WindowReached = true
			before := acked.Load()
			deadline := time.Now().Add(150 * time.Millisecond)
			for acked.Load() < before+2 && time.Now().Before(deadline) {
				time.Sleep(200 * time.Microsecond)
			}
			inWindow.Store(acked.Load() - before)
		}
	})
	defer rosmar.VerifSetPointHandler(nil)
	for wi := 0; wi < writers; wi++ {
		wg.Add(1)
		wr := rng.New(r.U64(), uint64(wi))
		go func(wi int, wr *rng.R) {
			defer wg.Done()
			c := m.CollsBy[wi%len(m.CollsBy)][0]
			last := map[string]uint64{}
			for i := 0; i < opsEach; i++ {
				select {
				case <-stop:
					return
				default:
				}
				key := fmt.Sprintf("k%d", wr.Intn(keys))
				var cas uint64
				var ok bool
				if wi%2 == 1 && wr.Intn(2) == 0 {
					// every other writer is a replicator half of the time: its versions carry a CAS of its own choosing, a little
					// ahead of the key's current one and of the clock - mutations like any other for "none is lost"
					_, cur, _ := c.GetRaw(key)
					mcas := cur
					if now := uint64(time.Now().UnixNano()); now > mcas {
						mcas = now
					}
					mcas = (mcas+uint64(1+wr.Intn(500))*0x10000)&^0xFFFF | uint64(0x8001+wr.Intn(0x7000))
					if wr.Bool() {
						// ... into a key of its own, written once: that version is the key's final one, so it must arrive
						key, cur = fmt.Sprintf("m%d_%d", wi, i), 0
						onceMu.Lock()
						onceKeys = append(onceKeys, key)
						onceMu.Unlock()
					}
					ok = c.SetWithMeta(ctxBG, key, cur, mcas, 0, nil, []byte(fmt.Sprintf(`{"v":"m%d.%d"}`, wi, i)), sgbucket.FeedDataTypeJSON) == nil
				} else {
					_, cas, ok, _ = writerOp(c, wr, key, fmt.Sprintf("w%d.%d", wi, i), last, true)
				}
				if ok {
					acked.Add(1)
					if cas != 0 {
						last[key] = cas
					}
				}
				if i%4 == 3 {
					time.Sleep(time.Duration(wr.Intn(300)) * time.Microsecond)
				}
			}
		}(wi, wr)
	}
	// let the writers get going, then start the feed
	for acked.Load() < 3 {
		time.Sleep(100 * time.Microsecond)
	}
	f := NewFeedLog("join", 0, 0)
	args := sgbucket.FeedArguments{ID: f.ID, Backfill: 0, Terminator: f.Term, DoneChan: f.Done}
	startErr := make(chan error, 1)
	go func() {
		starterGoid.Store(goid())
		startErr <- m.CollsBy[len(m.CollsBy)-1][0].StartDCPFeed(context.Background(), args, f.Callback, nil)
	}()
	if err := <-startErr; err != nil {
		close(stop)
		wg.Wait()
		return res, "setup|StartDCPFeed failed: " + err.Error(), nil
	}
	wg.Wait()
	res.Writes = int(acked.Load())
	res.InWindow = inWindow.Load()
	defer func() { close(f.Term); <-f.Done }()
	cas, err := col.WriteCas("~fence", 0, 0, []byte(`"f"`), sgbucket.Raw)
	if err != nil {
		return res, "setup|fence: " + err.Error(), nil
	}
	if !f.WaitCas("~fence", cas, 30*time.Second) {
		return res, "lost|the fence event did not arrive within 30s", map[string]any{"events": len(f.Snapshot())}
	}
	evs := f.Snapshot()
	newest := map[string]uint64{}
	inBackfill := false
	for _, e := range evs {
		switch e.Op {
		case uint8(sgbucket.FeedOpBeginBackfill):
			inBackfill = true
			continue
		case uint8(sgbucket.FeedOpEndBackfill):
			inBackfill = false
			continue
		}
		if inBackfill {
			res.BackfillEvs++
		} else {
			res.LiveEvs++
		}
		if e.Cas > newest[e.Key] {
			newest[e.Key] = e.Cas
		}
	}
	// every key's final version must have been delivered by backfill or live
	names := []string{}
	for i := 0; i < keys; i++ {
		names = append(names, fmt.Sprintf("k%d", i), fmt.Sprintf("nk%d", i))
	}
	names = append(names, onceKeys...)
	for _, k := range names {
		out := Call(col, In{Kind: OGetX, Key: k})
		var final uint64
		switch out.Err {
		case "":
			final = out.Cas
		case "missing":
			// tombstone without xattrs or never written: ask for the tombstone's CAS through GetRaw
			_, c2, _ := col.GetRaw(k)
			final = c2
		}
		if final == 0 {
			continue
		}
		if newest[k] != final {
			return res, fmt.Sprintf("gap|key %s has final CAS %d but the newest event the feed received for it has CAS %d: a mutation that committed while the feed was starting was delivered by neither backfill nor live", k, final, newest[k]),
				map[string]any{"key": k, "final_cas": final, "newest_event_cas": newest[k], "result": res}
		}
	}
	return res, "", nil
}

// ---------------------------------------------------------------- checkpointed feeds (C15)

type CheckpointResult struct {
	Runs                   int      `json:"runs"`
	Delivered              int      `json:"delivered"`
	StopsWithQueued        int      `json:"stopsWithQueuedEvents"`
	StopsWhileBusy         int      `json:"stopsWhileWritersActive"`
	Checkpoints            []uint64 `json:"checkpoints"`
	Writes                 int      `json:"writes"`
	OfflineRecreations     int      `json:"recreationsWhileStopped"`
	FutureImports          int      `json:"importsWithFutureCas"`
	ResumesRightAfterAStop int      `json:"resumesRightAfterAStop"`
	FinalVersionsChecked   int      `json:"finalVersionsChecked"`
}

type cpDoc struct {
	LastSeq uint64 `json:"last_seq"`
}

// CheckpointRun: writers run while a feed with a checkpoint prefix in resume mode is started and stopped repeatedly;
// its callback parks so that events are still queued when the terminator closes. Finally a Dump run catches up.
// Taken together the runs must deliver every key's final version; the checkpoint never exceeds the delivered maximum.
func CheckpointRun(m *MultiBucket, writers, opsEach, keys, restarts int, keysOnly bool, r *rng.R) (CheckpointResult, string, map[string]any) {
	var res CheckpointResult
	col := m.CollsBy[0][0]
	const prefix, id = "cp", "feed1"
	cpKey := prefix + ":" + id
	var acked atomic.Int64
	var wg sync.WaitGroup
	writersDone := make(chan struct{})
	for wi := 0; wi < writers; wi++ {
		wg.Add(1)
		wr := rng.New(r.U64(), uint64(wi))
		go func(wi int, wr *rng.R) {
			defer wg.Done()
			c := m.CollsBy[wi%len(m.CollsBy)][0]
			last := map[string]uint64{}
			for i := 0; i < opsEach; i++ {
				key := fmt.Sprintf("k%d", wr.Intn(keys))
				_, cas, ok, _ := writerOp(c, wr, key, fmt.Sprintf("w%d.%d", wi, i), last, false)
				if ok {
					acked.Add(1)
					if cas != 0 {
						last[key] = cas
					}
				}
				time.Sleep(time.Duration(wr.Intn(120)) * time.Microsecond)
			}
		}(wi, wr)
	}
	go func() { wg.Wait(); close(writersDone) }()

	delivered := map[string]bool{} // key/cas
	newest := map[string]FEv{}     // per key: the delivered event with the highest CAS
	var maxDelivered uint64
	runFeed := func(dump bool, stopAfter int) string {
		f := NewFeedLog(id, 0, 0)
		f.KeepVal = true
		park := make(chan struct{}, 1<<16)
		f.Park = park
		args := sgbucket.FeedArguments{ID: id, Backfill: sgbucket.FeedResume, CheckpointPrefix: prefix, Dump: dump, Terminator: f.Term, DoneChan: f.Done, KeysOnly: keysOnly}
		h := res.Runs % len(m.CollsBy)
		if err := m.CollsBy[h][0].StartDCPFeed(context.Background(), args, f.Callback, nil); err != nil {
			return "setup|StartDCPFeed(resume) failed: " + err.Error()
		}
		res.Runs++
		if dump {
			// let everything through
			go func() {
				for {
					select {
					case park <- struct{}{}:
					case <-f.Done:
						return
					}
				}
			}()
			select {
			case <-f.Done:
			case <-time.After(30 * time.Second):
				return "hang|the final dump run did not finish within 30s"
			}
		} else {
			// release exactly stopAfter callbacks, then stop while more may be queued
			for i := 0; i < stopAfter; i++ {
				park <- struct{}{}
			}
			deadline := time.Now().Add(300 * time.Millisecond)
			for f.Len() < stopAfter && time.Now().Before(deadline) {
				time.Sleep(200 * time.Microsecond)
			}
			select {
			case <-writersDone:
			default:
				res.StopsWhileBusy++
			}
			close(f.Term)
			// the callback may be parked on an event: let it finish that one call (the event counts as delivered)
			go func() {
				for {
					select {
					case park <- struct{}{}:
					case <-f.Done:
						return
					}
				}
			}()
			select {
			case <-f.Done:
			case <-time.After(20 * time.Second):
				return "hang|feed did not stop within 20s of its terminator closing"
			}
		}
		evs := f.Snapshot()
		for _, e := range evs {
			if e.Op == uint8(sgbucket.FeedOpBeginBackfill) || e.Op == uint8(sgbucket.FeedOpEndBackfill) {
				continue
			}
			delivered[fmt.Sprintf("%s/%d", e.Key, e.Cas)] = true
			if n, ok := newest[e.Key]; !ok || e.Cas >= n.Cas {
				newest[e.Key] = e
			}
			res.Delivered++
			if e.Cas > maxDelivered {
				maxDelivered = e.Cas
			}
		}
		if !dump && len(evs) >= stopAfter && stopAfter > 0 {
			res.StopsWithQueued++ // an upper bound: events may have been queued behind the parked callback
		}
		// the persisted checkpoint never exceeds what was delivered
		raw, _, err := col.GetRaw(cpKey)
		if err == nil {
			var cp cpDoc
			if json.Unmarshal(raw, &cp) == nil {
				res.Checkpoints = append(res.Checkpoints, cp.LastSeq)
				if cp.LastSeq > maxDelivered {
					return fmt.Sprintf("checkpoint|after run %d the checkpoint document says last_seq=%d but the highest CAS this feed ever delivered is %d", res.Runs, cp.LastSeq, maxDelivered)
				}
			}
		}
		return ""
	}
	// While the feed is stopped, keys of their own go through delete -> (tombstone delivered and checkpointed) ->
	// re-creation; nobody touches them afterwards, so the re-created version is their final one and only a resume can
	// deliver it.
	type pend struct {
		key  string
		tcas uint64
	}
	var pending []pend
	var offKeys []string
	offline := func(i int) {
		lastCp := uint64(0)
		if n := len(res.Checkpoints); n > 0 {
			lastCp = res.Checkpoints[n-1]
		}
		var keep []pend
		for _, p := range pending {
			if p.tcas == 0 || p.tcas > lastCp {
				keep = append(keep, p)
				continue
			}
			body := []byte(fmt.Sprintf(`{"reborn":%q}`, p.key))
			var err error
			switch r.Intn(6) {
			case 0:
				_, err = col.Add(p.key, 0, body)
			case 1:
				_, err = col.AddRaw(p.key, 0, body)
			case 2:
				_, err = col.WriteCas(p.key, 0, 0, body, 0)
			case 3:
				err = col.Set(p.key, 0, nil, body)
			case 4:
				_, err = col.WriteResurrectionWithXattrs(ctxBG, p.key, 0, body, map[string][]byte{"_sync": []byte(`{"r":1}`)}, nil)
			default:
				_, err = col.Update(p.key, 0, func(cur []byte) ([]byte, *uint32, bool, error) { return body, nil, false, nil })
			}
			if err == nil {
				res.OfflineRecreations++
			}
		}
		pending = keep
		if r.Chance(1, 3) {
			// a replicated document arrives whose CAS is ten minutes ahead of everything seen so far: regular writes made
			// after it must still get larger CAS values, or a resume from a checkpoint at that CAS would skip them
			ahead := maxDelivered
			if now := uint64(time.Now().UnixNano()); now > ahead {
				ahead = now
			}
			if _, c0, e0 := col.GetRaw("k0"); e0 == nil && c0 > ahead {
				ahead = c0
			}
			ahead = (ahead+600e9)&^0xFFFF | 0x8001
			if col.SetWithMeta(ctxBG, fmt.Sprintf("imported%d", i), 0, ahead, 0, nil, []byte(`{"imported":true}`), sgbucket.FeedDataTypeJSON) == nil {
				res.FutureImports++
			}
		}
		for j := 0; j < 2; j++ {
			k := fmt.Sprintf("off%d_%d", i, j)
			if col.Set(k, 0, nil, []byte(`{"first":1}`)) != nil {
				continue
			}
			var err error
			switch r.Intn(3) {
			case 0:
				err = col.Delete(k)
			case 1:
				_, err = col.Remove(k, 0)
			default:
				_, err = col.WriteTombstoneWithXattrs(ctxBG, k, 0, 0, map[string][]byte{"_sync": []byte(`{"d":1}`)}, nil, true, nil)
			}
			offKeys = append(offKeys, k)
			if err == nil {
				if out := Call(col, In{Kind: OGetX, Key: k}); out.Cas != 0 {
					pending = append(pending, pend{k, out.Cas})
					continue
				}
				_, c2, _ := col.GetRaw(k)
				pending = append(pending, pend{k, c2})
			}
		}
	}
	for i := 0; i < restarts; i++ {
		if msg := runFeed(false, r.Intn(6)); msg != "" {
			<-writersDone
			return res, msg, map[string]any{"result": res}
		}
		offline(i)
		time.Sleep(time.Duration(r.Intn(800)) * time.Microsecond)
	}
	<-writersDone
	res.Writes = int(acked.Load())
	// one more interrupted run after everything has been written, and then the final run straight away: nothing is
	// written between the checkpoint that run saves and the resume, so the checkpoint document is the collection's
	// newest mutation while documents older than it are still undelivered
	if r.Chance(2, 3) {
		if msg := runFeed(false, 1+r.Intn(3)); msg != "" {
			return res, msg, map[string]any{"result": res}
		}
		res.ResumesRightAfterAStop++
	}
	if msg := runFeed(true, 0); msg != "" {
		return res, msg, map[string]any{"result": res}
	}
	var finalKeys []string
	for i := 0; i < keys; i++ {
		finalKeys = append(finalKeys, fmt.Sprintf("k%d", i), fmt.Sprintf("nk%d", i))
	}
	finalKeys = append(finalKeys, offKeys...)
	{
		for _, k := range finalKeys {
			// the newest version the feed's runs delivered for the key must be the document as it is now
			raw, _, gerr := col.GetRaw(k)
			n, have := newest[k]
			res.FinalVersionsChecked++
			switch {
			case gerr == nil && !have:
				return res, fmt.Sprintf("skipped|key %s holds a body but no run of the checkpointed feed delivered any version of it (checkpoints %v)", k, res.Checkpoints), map[string]any{"key": k, "result": res}
			case gerr == nil && n.Op == uint8(sgbucket.FeedOpDeletion):
				return res, fmt.Sprintf("skipped|key %s holds a body, but the newest version the checkpointed feed delivered (CAS %d) is a deletion: its re-creation was skipped (checkpoints %v)", k, n.Cas, res.Checkpoints), map[string]any{"key": k, "result": res}
			case gerr == nil && !keysOnly && !bytes.Contains(n.Val, raw):
				return res, fmt.Sprintf("skipped|key %s holds %q, but the newest version the checkpointed feed delivered (CAS %d) carries another body (checkpoints %v)", k, raw, n.Cas, res.Checkpoints), map[string]any{"key": k, "result": res}
			case gerr != nil && kv.ErrClass(gerr) == "missing" && have && n.Op != uint8(sgbucket.FeedOpDeletion):
				return res, fmt.Sprintf("skipped|key %s has no body, but the newest version the checkpointed feed delivered (CAS %d) is a mutation: its deletion was skipped (checkpoints %v)", k, n.Cas, res.Checkpoints), map[string]any{"key": k, "result": res}
			}
			out := Call(col, In{Kind: OGetX, Key: k})
			var final uint64
			switch out.Err {
			case "":
				final = out.Cas
			case "missing":
				_, c2, _ := col.GetRaw(k)
				final = c2
			}
			if final != 0 && !delivered[fmt.Sprintf("%s/%d", k, final)] {
				return res, fmt.Sprintf("skipped|key %s has final CAS %d but no run of the checkpointed feed delivered that version (checkpoints %v)", k, final, res.Checkpoints),
					map[string]any{"key": k, "final_cas": final, "result": res}
			}
		}
	}
	return res, "", nil
}

// ---------------------------------------------------------------- checkpointed feed over several collections (C15)

type MultiCheckpointResult struct {
	Runs        int                 `json:"runs"`
	Written     int                 `json:"written"`
	Delivered   int                 `json:"delivered"`
	Checkpoints map[string][]uint64 `json:"checkpointsByCollection"`
}

// MultiCheckpointRun: one bucket-level feed (Scopes naming two collections, one ID, one checkpoint prefix, resume
// mode) is run, stopped after a PRNG-chosen number of callbacks and resumed several times while documents are
// written to both collections between the runs; a final Dump run catches up. Each collection's stream must pick
// up where that collection's stream stopped: every document's final version is delivered by some run, and a
// collection's checkpoint never exceeds what was delivered for that collection.
func MultiCheckpointRun(m *MultiBucket, rounds int, r *rng.R) (MultiCheckpointResult, string, map[string]any) {
	res := MultiCheckpointResult{Checkpoints: map[string][]uint64{}}
	const prefix, id = "mcp", "feedm"
	cpKey := prefix + ":" + id
	ncoll := len(m.CollsBy[0])
	idOf := map[uint32]int{}
	scopes := map[string][]string{}
	for ci := 0; ci < ncoll; ci++ {
		idOf[m.CollsBy[0][ci].GetCollectionID()] = ci
		n := feedCollNames[ci]
		scopes[n.Scope] = append(scopes[n.Scope], n.Collection)
	}
	delivered := map[string]bool{}
	maxDelivered := make([]uint64, ncoll)
	type doc struct {
		ci  int
		key string
	}
	var docs []doc
	runFeed := func(dump bool, stopAfter int) string {
		f := NewFeedLog(id, 0, 0)
		park := make(chan struct{}, 1<<16)
		f.Park = park
		args := sgbucket.FeedArguments{ID: id, Backfill: sgbucket.FeedResume, CheckpointPrefix: prefix, Dump: dump, Terminator: f.Term, DoneChan: f.Done, Scopes: scopes}
		h := res.Runs % len(m.Handles)
		if err := m.Handles[h].StartDCPFeed(context.Background(), args, f.Callback, nil); err != nil {
			return "setup|Bucket.StartDCPFeed(resume, two collections) failed: " + err.Error()
		}
		res.Runs++
		feedAll := func() {
			for {
				select {
				case park <- struct{}{}:
				case <-f.Done:
					return
				}
			}
		}
		if dump {
			go feedAll()
			select {
			case <-f.Done:
			case <-time.After(30 * time.Second):
				return "hang|the final dump run over two collections did not finish within 30s"
			}
		} else {
			for i := 0; i < stopAfter; i++ {
				park <- struct{}{}
			}
			deadline := time.Now().Add(300 * time.Millisecond)
			for f.Len() < stopAfter && time.Now().Before(deadline) {
				time.Sleep(200 * time.Microsecond)
			}
			close(f.Term)
			go feedAll()
			select {
			case <-f.Done:
			case <-time.After(20 * time.Second):
				return "hang|the two-collection feed did not stop within 20s of its terminator closing"
			}
		}
		for _, e := range f.Snapshot() {
			if e.Op == uint8(sgbucket.FeedOpBeginBackfill) || e.Op == uint8(sgbucket.FeedOpEndBackfill) {
				continue
			}
			ci, ok := idOf[e.Coll]
			if !ok {
				return fmt.Sprintf("collection|an event for key %s carries collection id %d, which is none of the feed's collections", e.Key, e.Coll)
			}
			delivered[fmt.Sprintf("%d/%s/%d", ci, e.Key, e.Cas)] = true
			res.Delivered++
			if e.Cas > maxDelivered[ci] {
				maxDelivered[ci] = e.Cas
			}
		}
		for ci := 0; ci < ncoll; ci++ {
			raw, _, err := m.CollsBy[0][ci].GetRaw(cpKey)
			if err != nil {
				continue
			}
			var cp cpDoc
			if json.Unmarshal(raw, &cp) == nil {
				name := feedCollNames[ci].Scope + "." + feedCollNames[ci].Collection
				res.Checkpoints[name] = append(res.Checkpoints[name], cp.LastSeq)
				if cp.LastSeq > maxDelivered[ci] {
					return fmt.Sprintf("checkpoint|after run %d the checkpoint of collection %s says last_seq=%d, but the highest CAS the feed ever delivered for that collection is %d", res.Runs, name, cp.LastSeq, maxDelivered[ci])
				}
			}
		}
		return ""
	}
	for round := 0; round < rounds; round++ {
		n := 0
		for ci := 0; ci < ncoll; ci++ {
			k := 1 + r.Intn(4)
			for j := 0; j < k; j++ {
				d := doc{ci, fmt.Sprintf("m%d_%d_%d", round, ci, j)}
				// (the collections are written in turn, so that their CAS ranges interleave)
				if err := m.CollsBy[round%len(m.Handles)][ci].Set(d.key, 0, nil, []byte(fmt.Sprintf(`{"r":%d}`, round))); err != nil {
					return res, "setup|write failed: " + err.Error(), nil
				}
				docs = append(docs, d)
				n++
			}
		}
		res.Written += n
		if msg := runFeed(false, r.Intn(n+2)); msg != "" {
			return res, msg, map[string]any{"result": res}
		}
	}
	if msg := runFeed(true, 0); msg != "" {
		return res, msg, map[string]any{"result": res}
	}
	for _, d := range docs {
		_, cas, err := m.CollsBy[0][d.ci].GetRaw(d.key)
		if err != nil {
			continue
		}
		if !delivered[fmt.Sprintf("%d/%s/%d", d.ci, d.key, cas)] {
			name := feedCollNames[d.ci].Scope + "." + feedCollNames[d.ci].Collection
			return res, fmt.Sprintf("skipped|document %s of collection %s (CAS %d) was delivered by no run of the checkpointed two-collection feed (checkpoints %v)", d.key, name, cas, res.Checkpoints),
				map[string]any{"result": res, "key": d.key, "collection": name}
		}
	}
	return res, "", nil
}

// BystanderStopRun: a checkpointed feed A (resume mode) shares its collection with 1-2 plain live feeds that are
// registered before or after it; one of those is stopped by its terminator while A keeps running; then two
// documents are written, A is stopped after it delivered the second, and resumed as a dump. Taken together A's
// runs must have delivered both (the first write after a neighbour stopped is the one at stake).
func stopFeed(f *FeedLog) { defer func() { _ = recover() }(); close(f.Term) }

func BystanderStopRun(m *MultiBucket, r *rng.R) (string, map[string]any) {
	col := m.CollsBy[0][0]
	ctx := context.Background()
	const prefix, id = "cpb", "feedA"
	startPlain := func(n int) *FeedLog {
		f := NewFeedLog(fmt.Sprintf("plain%d", n), 0, 0)
		if err := m.CollsBy[n%len(m.CollsBy)][0].StartDCPFeed(ctx, sgbucket.FeedArguments{ID: f.ID, Backfill: sgbucket.FeedNoBackfill, Terminator: f.Term, DoneChan: f.Done}, f.Callback, nil); err != nil {
			return nil
		}
		return f
	}
	before, after := 1+r.Intn(2), r.Intn(2)
	var plains []*FeedLog
	for i := 0; i < before; i++ {
		if f := startPlain(i); f != nil {
			plains = append(plains, f)
		}
	}
	a := NewFeedLog(id, 0, 0)
	if err := col.StartDCPFeed(ctx, sgbucket.FeedArguments{ID: id, Backfill: sgbucket.FeedResume, CheckpointPrefix: prefix, Terminator: a.Term, DoneChan: a.Done}, a.Callback, nil); err != nil {
		return "setup|StartDCPFeed(resume) failed: " + err.Error(), nil
	}
	for i := 0; i < after; i++ {
		if f := startPlain(before + i); f != nil {
			plains = append(plains, f)
		}
	}
	defer func() {
		for _, f := range plains {
			stopFeed(f)
		}
	}()
	info := map[string]any{"plain_feeds_registered_before": before, "after": after}
	waitKey := func(f *FeedLog, key string) bool {
		deadline := time.Now().Add(5 * time.Second)
		for time.Now().Before(deadline) {
			for _, e := range f.Snapshot() {
				if e.Key == key {
					return true
				}
			}
			time.Sleep(200 * time.Microsecond)
		}
		return false
	}
	if err := col.SetRaw("first", 0, nil, []byte("1")); err != nil {
		return "setup|" + err.Error(), info
	}
	if !waitKey(a, "first") {
		return "setup|the checkpointed feed did not deliver a write within 5 s", info
	}
	// stop one neighbour
	vi := r.Intn(len(plains))
	victim := plains[vi]
	info["stopped"] = victim.ID
	stopFeed(victim)
	select {
	case <-victim.Done:
	case <-time.After(10 * time.Second):
		return "setup|a plain feed did not stop within 10 s", info
	}
	keys := []string{"x-after-the-stop", "y-after-the-stop"}
	for _, k := range keys {
		if err := col.SetRaw(k, 0, nil, []byte(k)); err != nil {
			return "setup|" + err.Error(), info
		}
	}
	waitKey(a, keys[1]) // (whether or not it arrives: the resume below must bring whatever is missing)
	got := map[string]bool{}
	collect := func(f *FeedLog) {
		for _, e := range f.Snapshot() {
			got[e.Key] = true
		}
	}
	stopFeed(a)
	select {
	case <-a.Done:
	case <-time.After(20 * time.Second):
		return "hang|the checkpointed feed did not stop within 20 s of its terminator closing", info
	}
	collect(a)
	d := NewFeedLog(id, 0, 0)
	if err := col.StartDCPFeed(ctx, sgbucket.FeedArguments{ID: id, Backfill: sgbucket.FeedResume, CheckpointPrefix: prefix, Dump: true, Terminator: d.Term, DoneChan: d.Done}, d.Callback, nil); err != nil {
		return "setup|StartDCPFeed(resume, dump) failed: " + err.Error(), info
	}
	select {
	case <-d.Done:
	case <-time.After(30 * time.Second):
		return "hang|the resumed dump run did not finish within 30 s", info
	}
	collect(d)
	for _, k := range append([]string{"first"}, keys...) {
		if !got[k] {
			info["delivered"] = got
			return fmt.Sprintf("skipped|document %q, written right after a neighbouring plain feed (%s, registered %s the checkpointed one) was stopped by its terminator, was delivered by none of the checkpointed feed's runs", k, victim.ID, ifStr(vi < before, "before", "after")), info
		}
	}
	return "", info
}

// LargeBackfillRun: a collection of 260-340 documents in which groups of 2-3 documents share one CAS (replicated
// versions written through SetWithMeta / DeleteWithMeta), at fixed positions (31, 63, 99, 127, 199, 255, 299 of the
// CAS order) and at PRNG-chosen ones. Dump feeds from 0, from a group's CAS, from just above it and from the
// median must each deliver exactly the current version of every document with CAS >= start, once, in CAS order.
func LargeBackfillRun(b *Bucket, r *rng.R) (int, string, map[string]any) {
	col := b.Colls[0]
	ctx := context.Background()
	n := 260 + r.Intn(81)
	groupAt := map[int]int{31: 2, 63: 2, 99: 2, 127: 2, 199: 2, 255: 2, 299: 2}
	for i := 0; i < 5; i++ {
		groupAt[20+r.Intn(n-40)] = 2 + r.Intn(2)
	}
	type doc struct {
		cas uint64
		del bool
	}
	want := map[string]doc{}
	var groupCas []uint64
	pos := 0
	var lastCas uint64
	for pos < n {
		if g, ok := groupAt[pos]; ok {
			shared := lastCas + 1 + uint64(r.Intn(50)) // above everything so far, below whatever the clock hands out next
			for j := 0; j < g; j++ {
				key := fmt.Sprintf("twin%d_%d", pos, j)
				var err error
				del := j == 1 && r.Chance(1, 4)
				if del {
					err = col.DeleteWithMeta(ctx, key, 0, shared, 0, []byte(`{"_sync":{"t":1}}`))
				} else {
					err = col.SetWithMeta(ctx, key, 0, shared, 0, nil, []byte(fmt.Sprintf(`{"twin":%d}`, j)), sgbucket.FeedDataTypeJSON)
				}
				if err != nil {
					return 0, "setup|WithMeta write failed: " + err.Error(), nil
				}
				want[key] = doc{shared, del}
			}
			groupCas = append(groupCas, shared)
			lastCas = shared
			pos += g
			continue
		}
		key := fmt.Sprintf("d%d", pos)
		cas, err := col.WriteCas(key, 0, 0, []byte(fmt.Sprintf(`{"i":%d}`, pos)), 0)
		if err != nil {
			return 0, "setup|" + err.Error(), nil
		}
		want[key] = doc{cas, false}
		lastCas = cas
		pos++
	}
	var all []uint64
	for _, d := range want {
		all = append(all, d.cas)
	}
	sort.Slice(all, func(i, j int) bool { return all[i] < all[j] })
	starts := []uint64{0, all[len(all)/2]}
	for _, gc := range groupCas {
		if r.Chance(1, 2) {
			starts = append(starts, gc, gc+1)
		}
	}
	dumps := 0
	for _, start := range starts {
		f := NewFeedLog("dump", 0, 0)
		keysOnly := r.Chance(1, 4)
		if err := col.StartDCPFeed(ctx, sgbucket.FeedArguments{ID: "dump", Backfill: start, Dump: true, KeysOnly: keysOnly, DoneChan: f.Done}, f.Callback, nil); err != nil {
			return dumps, "error|dump feed from " + fmt.Sprint(start) + " failed: " + err.Error(), nil
		}
		select {
		case <-f.Done:
		case <-time.After(30 * time.Second):
			return dumps, "hang|a dump feed did not finish within 30 s", nil
		}
		dumps++
		seen := map[string]int{}
		var prev uint64
		for _, e := range f.Snapshot() {
			if e.Op == uint8(sgbucket.FeedOpBeginBackfill) || e.Op == uint8(sgbucket.FeedOpEndBackfill) {
				continue
			}
			w, ok := want[e.Key]
			switch {
			case !ok:
				return dumps, fmt.Sprintf("ghost|a dump from %d delivered key %q, which was never written", start, e.Key), nil
			case e.Cas != w.cas:
				return dumps, fmt.Sprintf("version|a dump from %d delivered %q with CAS %d, its current version has %d", start, e.Key, e.Cas, w.cas), nil
			case e.Cas < start:
				return dumps, fmt.Sprintf("belowstart|a dump from %d delivered %q with CAS %d", start, e.Key, e.Cas), nil
			case e.Cas < prev:
				return dumps, fmt.Sprintf("order|a dump from %d is not in CAS order: %d after %d", start, e.Cas, prev), nil
			case (e.Op == uint8(sgbucket.FeedOpDeletion)) != w.del:
				return dumps, fmt.Sprintf("opcode|a dump from %d delivered %q with opcode %d, deleted=%v", start, e.Key, e.Op, w.del), nil
			}
			prev = e.Cas
			seen[e.Key]++
		}
		for k, w := range want {
			if w.cas >= start && seen[k] != 1 {
				return dumps, fmt.Sprintf("omitted|a dump from %d over %d documents delivered %q (CAS %d, shared with another document: %v) %d times", start, len(want), k, w.cas, strings.HasPrefix(k, "twin"), seen[k]),
					map[string]any{"documents": len(want), "start": start, "groups_sharing_a_cas": len(groupCas)}
			}
		}
	}
	return dumps, "", map[string]any{"documents": len(want), "groups_sharing_a_cas": len(groupCas), "dumps": dumps}
}

// QueuedRewriteRun: a checkpointed feed (optionally KeysOnly) is parked in its callback on the first event while
// several keys are written behind it, some of them twice with other keys in between. A PRNG-chosen number of
// callbacks is released, then the feed is stopped with the rest still queued, and resumed as a dump. Whatever
// position in the queue a rewritten key's event holds, the runs together must deliver every key's final version
// and the checkpoint must not pass anything that was not delivered.
func QueuedRewriteRun(m *MultiBucket, keysOnly bool, r *rng.R) (string, map[string]any) {
	col := m.CollsBy[0][0]
	ctx := context.Background()
	const prefix, id = "cpq", "feedQ"
	if err := col.SetRaw("first", 0, nil, []byte("1")); err != nil {
		return "setup|" + err.Error(), nil
	}
	f := NewFeedLog(id, 0, 0)
	park := make(chan struct{}, 1024)
	f.Park = park
	if err := col.StartDCPFeed(ctx, sgbucket.FeedArguments{ID: id, Backfill: sgbucket.FeedResume, CheckpointPrefix: prefix, KeysOnly: keysOnly, Terminator: f.Term, DoneChan: f.Done}, f.Callback, nil); err != nil {
		return "setup|StartDCPFeed(resume) failed: " + err.Error(), nil
	}
	// the callback is parked (on the begin-backfill marker or on "first"); now the writes queue up behind it
	nkeys := 2 + r.Intn(4)
	var order []string
	for i := 0; i < nkeys; i++ {
		order = append(order, fmt.Sprintf("q%d", i))
	}
	// some keys are written again after later ones
	again := 1 + r.Intn(nkeys)
	for i := 0; i < again; i++ {
		order = append(order, fmt.Sprintf("q%d", r.Intn(nkeys)))
	}
	for i, k := range order {
		if err := m.CollsBy[i%len(m.CollsBy)][0].SetRaw(k, 0, nil, []byte(fmt.Sprintf("v%d", i))); err != nil {
			return "setup|" + err.Error(), nil
		}
	}
	release := 2 + r.Intn(3+nkeys) // markers and "first" take up to three callbacks
	for i := 0; i < release; i++ {
		park <- struct{}{}
	}
	deadline := time.Now().Add(2 * time.Second)
	for f.Len() < release && time.Now().Before(deadline) {
		time.Sleep(200 * time.Microsecond)
	}
	stopFeed(f)
	go func() {
		for {
			select {
			case park <- struct{}{}:
			case <-f.Done:
				return
			}
		}
	}()
	select {
	case <-f.Done:
	case <-time.After(20 * time.Second):
		return "hang|the feed did not stop within 20 s of its terminator closing", nil
	}
	newest := map[string]uint64{}
	var maxDelivered uint64
	collect := func(l *FeedLog) {
		for _, e := range l.Snapshot() {
			if e.Op == uint8(sgbucket.FeedOpBeginBackfill) || e.Op == uint8(sgbucket.FeedOpEndBackfill) {
				continue
			}
			if e.Cas > newest[e.Key] {
				newest[e.Key] = e.Cas
			}
			if e.Cas > maxDelivered {
				maxDelivered = e.Cas
			}
		}
	}
	collect(f)
	info := map[string]any{"keys_only": keysOnly, "writes_in_order": order, "callbacks_released": release, "delivered_by_first_run": len(f.Snapshot())}
	if raw, _, err := col.GetRaw(prefix + ":" + id); err == nil {
		var cp cpDoc
		if json.Unmarshal(raw, &cp) == nil && cp.LastSeq > maxDelivered {
			return fmt.Sprintf("checkpoint|the checkpoint says last_seq=%d but the highest CAS the feed delivered is %d", cp.LastSeq, maxDelivered), info
		}
	}
	d := NewFeedLog(id, 0, 0)
	if err := col.StartDCPFeed(ctx, sgbucket.FeedArguments{ID: id, Backfill: sgbucket.FeedResume, CheckpointPrefix: prefix, KeysOnly: keysOnly, Dump: true, DoneChan: d.Done}, d.Callback, nil); err != nil {
		return "setup|StartDCPFeed(resume, dump) failed: " + err.Error(), info
	}
	select {
	case <-d.Done:
	case <-time.After(30 * time.Second):
		return "hang|the resumed dump run did not finish within 30 s", info
	}
	collect(d)
	for i := 0; i < nkeys; i++ {
		k := fmt.Sprintf("q%d", i)
		_, final, err := col.GetRaw(k)
		if err != nil {
			continue
		}
		if newest[k] != final {
			return fmt.Sprintf("skipped|key %s ended with CAS %d, but the newest version the checkpointed %sfeed's runs delivered has CAS %d (writes queued behind a parked callback: %v; the first run was stopped after %d callbacks)", k, final, ifStr(keysOnly, "KeysOnly ", ""), newest[k], order, release), info
		}
	}
	return "", info
}
