package conc

import (
	"context"
	"encoding/json"
	"fmt"
	"sync"
	"sync/atomic"
	"time"

	"verifharness/internal/rng"

	sgbucket "github.com/couchbase/sg-bucket"
	"github.com/couchbaselabs/rosmar"
)

// ---------------------------------------------------------------- backfill + live join (C09)

type JoinResult struct {
	Writes        int   `json:"writes"`
	InWindow      int64 `json:"writesCommittedInsideRegistrationWindow"`
	BackfillEvs   int   `json:"backfillEvents"`
	LiveEvs       int   `json:"liveEvents"`
	WindowReached bool  `json:"windowReached"`
}

// JoinRun starts a backfill+live feed while writers run. The feed.registered hook (between end of backfill and
// registration) parks the starter until at least one more write has been acknowledged, so a write lands in the
// window every time. Afterwards the newest event received for every key must be the key's final version.
func JoinRun(m *MultiBucket, writers, opsEach, keys int, r *rng.R) (JoinResult, string, map[string]any) {
	var res JoinResult
	col := m.CollsBy[0][0]
	// some documents exist before the feed starts
	for i := 0; i < keys; i++ {
		if r.Bool() {
			_ = col.Set(fmt.Sprintf("k%d", i), 0, nil, []byte(`{"pre":1}`))
		}
	}
	var acked atomic.Int64
	stop := make(chan struct{})
	var wg sync.WaitGroup
	var starterGoid atomic.Uint64
	var inWindow atomic.Int64
	rosmar.VerifSetPointHandler(func(p string) {
		if p == "feed.registered" && goid() == starterGoid.Load() {
			res.WindowReached = true
			before := acked.Load()
			deadline := time.Now().Add(150 * time.Millisecond)
			for acked.Load() < before+2 && time.Now().Before(deadline) {
				time.Sleep(200 * time.Microsecond)
			}
			inWindow.Store(acked.Load() - before)
		}
	})
	defer rosmar.VerifSetPointHandler(nil)
	for wi := 0; wi < writers; wi++ {
		wg.Add(1)
		wr := rng.New(r.U64(), uint64(wi))
		go func(wi int, wr *rng.R) {
			defer wg.Done()
			c := m.CollsBy[wi%len(m.CollsBy)][0]
			last := map[string]uint64{}
			for i := 0; i < opsEach; i++ {
				select {
				case <-stop:
					return
				default:
				}
				key := fmt.Sprintf("k%d", wr.Intn(keys))
				_, cas, ok, _ := writerOp(c, wr, key, fmt.Sprintf("w%d.%d", wi, i), last)
				if ok {
					acked.Add(1)
					if cas != 0 {
						last[key] = cas
					}
				}
				if i%4 == 3 {
					time.Sleep(time.Duration(wr.Intn(300)) * time.Microsecond)
				}
			}
		}(wi, wr)
	}
	// let the writers get going, then start the feed
	for acked.Load() < 3 {
		time.Sleep(100 * time.Microsecond)
	}
	f := NewFeedLog("join", 0, 0)
	args := sgbucket.FeedArguments{ID: f.ID, Backfill: 0, Terminator: f.Term, DoneChan: f.Done}
	startErr := make(chan error, 1)
	go func() {
		starterGoid.Store(goid())
		startErr <- m.CollsBy[len(m.CollsBy)-1][0].StartDCPFeed(context.Background(), args, f.Callback, nil)
	}()
	if err := <-startErr; err != nil {
		close(stop)
		wg.Wait()
		return res, "setup|StartDCPFeed failed: " + err.Error(), nil
	}
	wg.Wait()
	res.Writes = int(acked.Load())
	res.InWindow = inWindow.Load()
	defer func() { close(f.Term); <-f.Done }()
	cas, err := col.WriteCas("~fence", 0, 0, []byte(`"f"`), sgbucket.Raw)
	if err != nil {
		return res, "setup|fence: " + err.Error(), nil
	}
	if !f.WaitCas("~fence", cas, 30*time.Second) {
		return res, "lost|the fence event did not arrive within 30s", map[string]any{"events": len(f.Snapshot())}
	}
	evs := f.Snapshot()
	newest := map[string]uint64{}
	inBackfill := false
	for _, e := range evs {
		switch e.Op {
		case uint8(sgbucket.FeedOpBeginBackfill):
			inBackfill = true
			continue
		case uint8(sgbucket.FeedOpEndBackfill):
			inBackfill = false
			continue
		}
		if inBackfill {
			res.BackfillEvs++
		} else {
			res.LiveEvs++
		}
		if e.Cas > newest[e.Key] {
			newest[e.Key] = e.Cas
		}
	}
	// every key's final version must have been delivered by backfill or live
	names := []string{}
	for i := 0; i < keys; i++ {
		names = append(names, fmt.Sprintf("k%d", i), fmt.Sprintf("nk%d", i))
	}
	for _, k := range names {
		out := Call(col, In{Kind: OGetX, Key: k})
		var final uint64
		switch out.Err {
		case "":
			final = out.Cas
		case "missing":
			// tombstone without xattrs or never written: ask for the tombstone's CAS through GetRaw
			_, c2, _ := col.GetRaw(k)
			final = c2
		}
		if final == 0 {
			continue
		}
		if newest[k] != final {
			return res, fmt.Sprintf("gap|key %s has final CAS %d but the newest event the feed received for it has CAS %d: a mutation that committed while the feed was starting was delivered by neither backfill nor live", k, final, newest[k]),
				map[string]any{"key": k, "final_cas": final, "newest_event_cas": newest[k], "result": res}
		}
	}
	return res, "", nil
}

// ---------------------------------------------------------------- checkpointed feeds (C15)

type CheckpointResult struct {
	Runs            int      `json:"runs"`
	Delivered       int      `json:"delivered"`
	StopsWithQueued int      `json:"stopsWithQueuedEvents"`
	StopsWhileBusy  int      `json:"stopsWhileWritersActive"`
	Checkpoints     []uint64 `json:"checkpoints"`
	Writes          int      `json:"writes"`
}

type cpDoc struct {
	LastSeq uint64 `json:"last_seq"`
}

// CheckpointRun: writers run while a feed with a checkpoint prefix in resume mode is started and stopped repeatedly;
// its callback parks so that events are still queued when the terminator closes. Finally a Dump run catches up.
// Taken together the runs must deliver every key's final version; the checkpoint never exceeds the delivered maximum.
func CheckpointRun(m *MultiBucket, writers, opsEach, keys, restarts int, r *rng.R) (CheckpointResult, string, map[string]any) {
	var res CheckpointResult
	col := m.CollsBy[0][0]
	const prefix, id = "cp", "feed1"
	cpKey := prefix + ":" + id
	var acked atomic.Int64
	var wg sync.WaitGroup
	writersDone := make(chan struct{})
	for wi := 0; wi < writers; wi++ {
		wg.Add(1)
		wr := rng.New(r.U64(), uint64(wi))
		go func(wi int, wr *rng.R) {
			defer wg.Done()
			c := m.CollsBy[wi%len(m.CollsBy)][0]
			last := map[string]uint64{}
			for i := 0; i < opsEach; i++ {
				key := fmt.Sprintf("k%d", wr.Intn(keys))
				_, cas, ok, _ := writerOp(c, wr, key, fmt.Sprintf("w%d.%d", wi, i), last)
				if ok {
					acked.Add(1)
					if cas != 0 {
						last[key] = cas
					}
				}
				time.Sleep(time.Duration(50+wr.Intn(400)) * time.Microsecond)
			}
		}(wi, wr)
	}
	go func() { wg.Wait(); close(writersDone) }()

	delivered := map[string]bool{} // key/cas
	var maxDelivered uint64
	runFeed := func(dump bool, stopAfter int) string {
		f := NewFeedLog(id, 0, 0)
		park := make(chan struct{}, 1<<16)
		f.Park = park
		args := sgbucket.FeedArguments{ID: id, Backfill: sgbucket.FeedResume, CheckpointPrefix: prefix, Dump: dump, Terminator: f.Term, DoneChan: f.Done}
		h := res.Runs % len(m.CollsBy)
		if err := m.CollsBy[h][0].StartDCPFeed(context.Background(), args, f.Callback, nil); err != nil {
			return "setup|StartDCPFeed(resume) failed: " + err.Error()
		}
		res.Runs++
		if dump {
			// let everything through
			go func() {
				for {
					select {
					case park <- struct{}{}:
					case <-f.Done:
						return
					}
				}
			}()
			select {
			case <-f.Done:
			case <-time.After(30 * time.Second):
				return "hang|the final dump run did not finish within 30s"
			}
		} else {
			// release exactly stopAfter callbacks, then stop while more may be queued
			for i := 0; i < stopAfter; i++ {
				park <- struct{}{}
			}
			deadline := time.Now().Add(300 * time.Millisecond)
			for f.Len() < stopAfter && time.Now().Before(deadline) {
				time.Sleep(200 * time.Microsecond)
			}
			select {
			case <-writersDone:
			default:
				res.StopsWhileBusy++
			}
			close(f.Term)
			// the callback may be parked on an event: let it finish that one call (the event counts as delivered)
			go func() {
				for {
					select {
					case park <- struct{}{}:
					case <-f.Done:
						return
					}
				}
			}()
			select {
			case <-f.Done:
			case <-time.After(20 * time.Second):
				return "hang|feed did not stop within 20s of its terminator closing"
			}
		}
		evs := f.Snapshot()
		for _, e := range evs {
			if e.Op == uint8(sgbucket.FeedOpBeginBackfill) || e.Op == uint8(sgbucket.FeedOpEndBackfill) {
				continue
			}
			delivered[fmt.Sprintf("%s/%d", e.Key, e.Cas)] = true
			res.Delivered++
			if e.Cas > maxDelivered {
				maxDelivered = e.Cas
			}
		}
		if !dump && len(evs) >= stopAfter && stopAfter > 0 {
			res.StopsWithQueued++ // an upper bound: events may have been queued behind the parked callback
		}
		// the persisted checkpoint never exceeds what was delivered
		raw, _, err := col.GetRaw(cpKey)
		if err == nil {
			var cp cpDoc
			if json.Unmarshal(raw, &cp) == nil {
				res.Checkpoints = append(res.Checkpoints, cp.LastSeq)
				if cp.LastSeq > maxDelivered {
					return fmt.Sprintf("checkpoint|after run %d the checkpoint document says last_seq=%d but the highest CAS this feed ever delivered is %d", res.Runs, cp.LastSeq, maxDelivered)
				}
			}
		}
		return ""
	}
	for i := 0; i < restarts; i++ {
		if msg := runFeed(false, r.Intn(6)); msg != "" {
			<-writersDone
			return res, msg, map[string]any{"result": res}
		}
		time.Sleep(time.Duration(r.Intn(800)) * time.Microsecond)
	}
	<-writersDone
	res.Writes = int(acked.Load())
	if msg := runFeed(true, 0); msg != "" {
		return res, msg, map[string]any{"result": res}
	}
	for i := 0; i < keys; i++ {
		for _, k := range []string{fmt.Sprintf("k%d", i), fmt.Sprintf("nk%d", i)} {
			out := Call(col, In{Kind: OGetX, Key: k})
			var final uint64
			switch out.Err {
			case "":
				final = out.Cas
			case "missing":
				_, c2, _ := col.GetRaw(k)
				final = c2
			}
			if final != 0 && !delivered[fmt.Sprintf("%s/%d", k, final)] {
				return res, fmt.Sprintf("skipped|key %s has final CAS %d but no run of the checkpointed feed delivered that version (checkpoints %v)", k, final, res.Checkpoints),
					map[string]any{"key": k, "final_cas": final, "result": res}
			}
		}
	}
	return res, "", nil
}
