package conc

import (
	"bytes"
	"context"
	"encoding/json"
	"fmt"
	"runtime"
	"sort"
	"strconv"
	"sync"
	"sync/atomic"
	"time"

	"verifharness/internal/kv"
	"verifharness/internal/rng"

	sgbucket "github.com/couchbase/sg-bucket"
	"github.com/couchbaselabs/rosmar"
)

// FeedLog records what one feed callback received, in arrival order.
type FeedLog struct {
	ID      string
	Coll    int
	Handle  int
	mu      sync.Mutex
	cond    *sync.Cond
	Evs     []FEv
	Term    chan bool
	Done    chan struct{}
	after   int           // callbacks after Done was observed closed
	closed  bool          // Done observed closed
	Park    chan struct{} // if non-nil the callback blocks on it before recording (used to queue events)
	KeepVal bool          // keep each event's encoded value
}

type FEv struct {
	Op   uint8  `json:"op"`
	Key  string `json:"key"`
	Cas  uint64 `json:"cas"`
	Tick int64  `json:"tick"`
	Val  []byte `json:"-"`
	Coll uint32 `json:"coll,omitempty"` // CollectionID of the event (multi-collection feeds)
}

func NewFeedLog(id string, coll, handle int) *FeedLog {
	f := &FeedLog{ID: id, Coll: coll, Handle: handle, Term: make(chan bool), Done: make(chan struct{})}
	f.cond = sync.NewCond(&f.mu)
	return f
}

func (f *FeedLog) Callback(e sgbucket.FeedEvent) bool {
	if f.Park != nil {
		<-f.Park
	}
	f.mu.Lock()
	select {
	case <-f.Done:
		f.after++
	default:
	}
	ev := FEv{Op: uint8(e.Opcode), Key: string(e.Key), Cas: e.Cas, Tick: Tick.Add(1), Coll: e.CollectionID}
	if f.KeepVal {
		ev.Val = append([]byte(nil), e.Value...)
	}
	f.Evs = append(f.Evs, ev)
	f.cond.Broadcast()
	f.mu.Unlock()
	return true
}

// WaitCas waits until an event with (key, cas) arrived.
func (f *FeedLog) WaitCas(key string, cas uint64, timeout time.Duration) bool {
	deadline := time.Now().Add(timeout)
	f.mu.Lock()
	defer f.mu.Unlock()
	for {
		for i := len(f.Evs) - 1; i >= 0; i-- {
			if f.Evs[i].Key == key && f.Evs[i].Cas == cas {
				return true
			}
		}
		if time.Now().After(deadline) {
			return false
		}
		t := time.AfterFunc(20*time.Millisecond, func() { f.mu.Lock(); f.cond.Broadcast(); f.mu.Unlock() })
		f.cond.Wait()
		t.Stop()
	}
}

func (f *FeedLog) Snapshot() []FEv {
	f.mu.Lock()
	defer f.mu.Unlock()
	return append([]FEv(nil), f.Evs...)
}

func (f *FeedLog) Len() int { f.mu.Lock(); defer f.mu.Unlock(); return len(f.Evs) }

// MultiBucket is a bucket with several handles and collections for feed scenarios.
type MultiBucket struct {
	*Bucket
	CollsBy [][]*rosmar.Collection // [handle][coll]
}

var feedCollNames = []sgbucket.DataStoreNameImpl{{Scope: sgbucket.DefaultScope, Collection: sgbucket.DefaultCollection}, {Scope: "fs", Collection: "fc1"}, {Scope: "fs", Collection: "fc2"}}

func OpenMulti(tmp string, disk bool, handles, colls int) (*MultiBucket, error) {
	b, err := OpenBucket(tmp, disk, handles)
	if err != nil {
		return nil, err
	}
	m := &MultiBucket{Bucket: b}
	for _, h := range b.Handles {
		var cs []*rosmar.Collection
		for ci := 0; ci < colls; ci++ {
			if ci == 0 {
				cs = append(cs, h.DefaultDataStore().(*rosmar.Collection))
				continue
			}
			ds, err := h.NamedDataStore(feedCollNames[ci])
			if err != nil {
				b.Close()
				return nil, err
			}
			cs = append(cs, ds.(*rosmar.Collection))
		}
		m.CollsBy = append(m.CollsBy, cs)
	}
	return m, nil
}

// Ack is a successful mutation acknowledged to a writer.
type Ack struct {
	Coll   int    `json:"coll"`
	Key    string `json:"key"`
	Cas    uint64 `json:"cas"` // 0 if the entry point does not return it
	Kind   string `json:"kind"`
	Call   int64  `json:"call"`
	Ret    int64  `json:"ret"`
	Client int    `json:"client"`
}

var goidBuf = sync.Pool{New: func() any { b := make([]byte, 64); return &b }}

func goid() uint64 {
	bp := goidBuf.Get().(*[]byte)
	defer goidBuf.Put(bp)
	n := runtime.Stack(*bp, false)
	s := (*bp)[:n]
	s = bytes.TrimPrefix(s, []byte("goroutine "))
	if i := bytes.IndexByte(s, ' '); i > 0 {
		id, _ := strconv.ParseUint(string(s[:i]), 10, 64)
		return id
	}
	return 0
}

// writerMix performs one mutating op and returns the ack (ok=false if refused).
func writerOp(c *rosmar.Collection, r *rng.R, key, tok string, last map[string]uint64, withMeta bool) (kind string, cas uint64, ok bool, errClass string) {
	var err error
	body := []byte(fmt.Sprintf(`{"v":%q}`, tok))
	n := 10
	if withMeta {
		n = 11 // (only where the oracle can cope with caller-chosen CAS values: a resume cannot find a version whose CAS is below its checkpoint)
	}
	switch r.Intn(n) {
	case 10:
		// a replicated version: caller-chosen CAS a little ahead of the key's current one and of the wall clock. Its
		// event need not fit into the CAS order of the feed (the CAS is not the clock's), but it is one event, and
		// the feed must end with whichever version was applied last
		kind = "SetWithMeta"
		_, cur, _ := c.GetRaw(key)
		if cur == 0 {
			if out := Call(c, In{Kind: OGetX, Key: key}); out.Err == "" {
				cur = out.Cas
			}
		}
		cas = cur
		if now := uint64(time.Now().UnixNano()); now > cas {
			cas = now
		}
		cas = (cas+uint64(1+r.Intn(500))*0x10000)&^0xFFFF | uint64(0x8001+r.Intn(0x7000))
		err = c.SetWithMeta(ctxBG, key, cur, cas, 0, nil, body, sgbucket.FeedDataTypeJSON)
	case 0:
		kind = "Set"
		err = c.Set(key, 0, nil, body)
	case 1:
		kind = "Delete"
		err = c.Delete(key)
	case 2:
		kind = "Add"
		var added bool
		added, err = c.Add(key, 0, body)
		if err == nil && !added {
			return kind, 0, false, "added=false"
		}
	case 3:
		kind = "Incr"
		_, err = c.Incr("n"+key, 1, 5, 0)
		key = "n" + key
	case 4:
		kind = "SetXattrs"
		cas, err = c.SetXattrs(ctxBG, key, map[string][]byte{"_sync": []byte(fmt.Sprintf(`{"t":%q}`, tok))})
	case 5:
		kind = "Remove"
		cas, err = c.Remove(key, last[key])
	case 6, 7:
		kind = "WriteCas"
		cas, err = c.WriteCas(key, 0, last[key], body, 0)
	default:
		kind = "Update"
		cas, err = c.Update(key, 0, func(cur []byte) ([]byte, *uint32, bool, error) { return body, nil, false, nil })
	}
	if err != nil {
		return kind, 0, false, kv.ErrClass(err)
	}
	return kind, cas, true, ""
}

type OrderResult struct {
	Acks         int            `json:"acks"`
	Events       int            `json:"events"`
	Inversions   int            `json:"inversions"`
	MaxInWindow  int64          `json:"maxInWindow"`
	Hits         int64          `json:"prepostHits"`
	Refusals     map[string]int `json:"refusals"`
	MetaWrites   int            `json:"withMetaWrites"`
	FinalChecked int            `json:"finalVersionsChecked"`
}

// FeedOrderRun: writers over all handles, live feeds on every collection through two handles; after a barrier every
// feed must have each acknowledged mutation exactly once, in increasing CAS order (C08).
func FeedOrderRun(m *MultiBucket, writers, opsEach, keys int, r *rng.R, noiseSeed uint64) (OrderResult, []string, map[string]any) {
	res := OrderResult{Refusals: map[string]int{}}
	colls := len(m.CollsBy[0])
	var feeds []*FeedLog
	for ci := 0; ci < colls; ci++ {
		for k := 0; k < 2; k++ {
			h := k % len(m.Handles)
			f := NewFeedLog(fmt.Sprintf("ord-%d-%d", ci, k), ci, h)
			args := sgbucket.FeedArguments{ID: f.ID, Backfill: sgbucket.FeedNoBackfill, Terminator: f.Term, DoneChan: f.Done}
			if err := m.CollsBy[h][ci].StartDCPFeed(context.Background(), args, f.Callback, nil); err != nil {
				return res, []string{"setup|cannot start feed: " + err.Error()}, nil
			}
			feeds = append(feeds, f)
		}
	}
	defer func() {
		for _, f := range feeds {
			close(f.Term)
		}
		for _, f := range feeds {
			select {
			case <-f.Done:
			case <-time.After(5 * time.Second):
			}
		}
	}()
	// window accounting: a writer is "in its commit->post window" from the event.prepost hook until its call returns
	var inWin, maxWin, hits atomic.Int64
	winBy := sync.Map{} // goid -> *atomic.Bool
	var nctr atomic.Uint64
	rosmar.VerifSetPointHandler(func(p string) {
		if p != "event.prepost" {
			return
		}
		hits.Add(1)
		g := goid()
		if v, ok := winBy.Load(g); ok {
			if v.(*atomic.Bool).CompareAndSwap(false, true) {
				n := inWin.Add(1)
				for {
					mx := maxWin.Load()
					if n <= mx || maxWin.CompareAndSwap(mx, n) {
						break
					}
				}
			}
		}
		switch x := rng.New(noiseSeed, nctr.Add(1)).Intn(8); {
		case x < 3:
		case x < 6:
			runtime.Gosched()
		default:
			time.Sleep(time.Duration(40*(x-5)) * time.Microsecond)
		}
	})
	defer rosmar.VerifSetPointHandler(nil)

	var mu sync.Mutex
	var acks []Ack
	var wg sync.WaitGroup
	start := make(chan struct{})
	for wi := 0; wi < writers; wi++ {
		wg.Add(1)
		wr := rng.New(r.U64(), uint64(wi))
		go func(wi int, wr *rng.R) {
			defer wg.Done()
			flag := &atomic.Bool{}
			winBy.Store(goid(), flag)
			h := wi % len(m.Handles)
			last := map[string]uint64{}
			<-start
			for i := 0; i < opsEach; i++ {
				ci := wr.Intn(colls)
				key := fmt.Sprintf("k%d", wr.Intn(keys))
				tok := fmt.Sprintf("w%d.%d", wi, i)
				call := Tick.Add(1)
				kind, cas, ok, ec := writerOp(m.CollsBy[h][ci], wr, key, tok, last, true)
				ret := Tick.Add(1)
				if flag.CompareAndSwap(true, false) {
					inWin.Add(-1)
				}
				if kind == "Incr" {
					key = "n" + key
				}
				mu.Lock()
				if ok {
					acks = append(acks, Ack{Coll: ci, Key: key, Cas: cas, Kind: kind, Call: call, Ret: ret, Client: wi})
					if cas != 0 {
						last[key] = cas
					}
				} else {
					res.Refusals[ec]++
				}
				mu.Unlock()
			}
		}(wi, wr)
	}
	close(start)
	wg.Wait()
	rosmar.VerifSetPointHandler(nil)
	res.MaxInWindow, res.Hits = maxWin.Load(), hits.Load()
	// barrier: a fence write per collection, awaited on every feed
	var problems []string
	for ci := 0; ci < colls; ci++ {
		cas, err := m.CollsBy[0][ci].WriteCas("~fence", 0, 0, []byte(`"f"`), sgbucket.Raw)
		if err != nil {
			problems = append(problems, "setup|fence write failed: "+err.Error())
			continue
		}
		for _, f := range feeds {
			if f.Coll == ci && !f.WaitCas("~fence", cas, 30*time.Second) {
				problems = append(problems, fmt.Sprintf("lost|the fence event did not reach feed %s within 30s: the feed is starved or events are lost", f.ID))
			}
		}
	}
	res.Acks = len(acks)
	detail := map[string]any{}
	metaCas := map[string]bool{}
	for _, a := range acks {
		if a.Kind == "SetWithMeta" {
			metaCas[fmt.Sprintf("%d/%s/%d", a.Coll, a.Key, a.Cas)] = true
			res.MetaWrites++
		}
	}
	// what each key ended as
	final := map[string]uint64{}
	for ci := 0; ci < colls; ci++ {
		for k := 0; k < keys; k++ {
			for _, key := range []string{fmt.Sprintf("k%d", k), fmt.Sprintf("nk%d", k)} {
				o := kv.ReadBack(m.CollsBy[0][ci], key)
				if c := o.RowCas(); c != 0 {
					final[fmt.Sprintf("%d/%s", ci, key)] = c
				}
			}
		}
	}
	for _, f := range feeds {
		evs := f.Snapshot()
		// (0) the last event a feed delivered for a key is the version the key ended as: events are posted in the order
		// in which the writes were applied, whatever their CAS
		lastOf := map[string]FEv{}
		for _, e := range evs {
			lastOf[e.Key] = e
		}
		for key, e := range lastOf {
			if fc, ok := final[fmt.Sprintf("%d/%s", f.Coll, key)]; ok && fc != e.Cas {
				if _, seen := detail["final"]; !seen {
					detail["final"] = map[string]any{"feed": f.ID, "key": key, "last_event_cas": e.Cas, "stored_cas": fc}
					problems = append(problems, fmt.Sprintf("final|feed %s: the last event delivered for key %s carries CAS %d, but the key ended as the version with CAS %d: an event was posted out of the order in which the writes were applied", f.ID, key, e.Cas, fc))
				}
			}
			res.FinalChecked++
		}
		res.Events += len(evs)
		// (i) order (events of WithMeta writes carry caller-chosen CAS values and are left out of the comparison)
		var prev FEv
		first := true
		for _, e := range evs {
			if metaCas[fmt.Sprintf("%d/%s/%d", f.Coll, e.Key, e.Cas)] {
				continue
			}
			i := 1
			if first {
				i, first = 0, false
			}
			if i > 0 && e.Cas <= prev.Cas {
				res.Inversions++
				if _, ok := detail["inversion"]; !ok {
					detail["inversion"] = map[string]any{"feed": f.ID, "before": prev, "after": e}
					problems = append(problems, fmt.Sprintf("order|feed %s received %s cas %d after %s cas %d", f.ID, e.Key, e.Cas, prev.Key, prev.Cas))
				}
			}
			prev = e
		}
		// (ii) every acknowledged CAS exactly once; (iii) per-key counts
		seen := map[string]int{}
		perKey := map[string]int{}
		for _, e := range evs {
			if e.Key == "~fence" {
				continue
			}
			seen[fmt.Sprintf("%s/%d", e.Key, e.Cas)]++
			perKey[e.Key]++
		}
		wantPerKey := map[string]int{}
		for _, a := range acks {
			if a.Coll != f.Coll {
				continue
			}
			wantPerKey[a.Key]++
			if a.Cas != 0 {
				n := seen[fmt.Sprintf("%s/%d", a.Key, a.Cas)]
				if n != 1 {
					if _, ok := detail["count"]; !ok {
						detail["count"] = map[string]any{"feed": f.ID, "ack": a, "delivered": n}
						problems = append(problems, fmt.Sprintf("%s|feed %s (handle %d) received the acknowledged %s of %s cas %d %d times", ifStr(n == 0, "missing", "duplicate"), f.ID, f.Handle, a.Kind, a.Key, a.Cas, n))
					}
				}
			}
		}
		ks := make([]string, 0, len(wantPerKey))
		for k := range wantPerKey {
			ks = append(ks, k)
		}
		sort.Strings(ks)
		for _, k := range ks {
			if perKey[k] != wantPerKey[k] {
				if _, ok := detail["perkey"]; !ok {
					detail["perkey"] = map[string]any{"feed": f.ID, "key": k, "events": perKey[k], "acked": wantPerKey[k]}
					problems = append(problems, fmt.Sprintf("count|feed %s received %d events for key %s but %d mutations were acknowledged", f.ID, perKey[k], k, wantPerKey[k]))
				}
			}
		}
		for k, n := range perKey {
			if wantPerKey[k] == 0 && n > 0 {
				problems = append(problems, fmt.Sprintf("spurious|feed %s received %d events for key %s which no acknowledged mutation touched", f.ID, n, k))
				break
			}
		}
	}
	return res, problems, detail
}

// InversionProbe: writer A is parked after its commit (event.prepost), writer B commits and posts, A resumes.
// The feed must still deliver A's event (lower CAS) before B's.
func InversionProbe(m *MultiBucket) (string, map[string]any) {
	f := NewFeedLog("inv", 0, 0)
	args := sgbucket.FeedArguments{ID: f.ID, Backfill: sgbucket.FeedNoBackfill, Terminator: f.Term, DoneChan: f.Done}
	if err := m.CollsBy[0][0].StartDCPFeed(context.Background(), args, f.Callback, nil); err != nil {
		return "setup: " + err.Error(), nil
	}
	defer func() { close(f.Term); <-f.Done }()
	parked := make(chan struct{})
	release := make(chan struct{})
	var once sync.Once
	var aGoid atomic.Uint64
	rosmar.VerifSetPointHandler(func(p string) {
		if p == "event.prepost" && goid() == aGoid.Load() {
			once.Do(func() {
				close(parked)
				select {
				case <-release:
				case <-time.After(5 * time.Second): // B could not get past A: that is fine too (no inversion possible)
				}
			})
		}
	})
	defer rosmar.VerifSetPointHandler(nil)
	var casA, casB uint64
	var errA, errB error
	doneA := make(chan struct{})
	go func() {
		defer close(doneA)
		aGoid.Store(goid())
		casA, errA = m.CollsBy[0][0].WriteCas("ka", 0, 0, []byte(`{"a":1}`), 0)
	}()
	select {
	case <-parked:
	case <-doneA:
		return "", map[string]any{"note": "hook not reached"}
	case <-time.After(10 * time.Second):
		return "", map[string]any{"note": "A never reached the hook"}
	}
	doneB := make(chan struct{})
	go func() {
		defer close(doneB)
		casB, errB = m.CollsBy[len(m.CollsBy)-1][0].WriteCas("kb", 0, 0, []byte(`{"b":1}`), 0)
	}()
	bBlocked := false
	select {
	case <-doneB:
	case <-time.After(1500 * time.Millisecond):
		bBlocked = true // B waits for A's post: ordering is enforced by blocking
	}
	close(release)
	<-doneA
	<-doneB
	if errA != nil || errB != nil {
		return fmt.Sprintf("setup: writes failed: %v %v", errA, errB), nil
	}
	f.WaitCas("ka", casA, 10*time.Second)
	f.WaitCas("kb", casB, 10*time.Second)
	evs := f.Snapshot()
	info := map[string]any{"casA": casA, "casB": casB, "events": evs, "b_waited_for_a": bBlocked}
	var order []string
	for _, e := range evs {
		order = append(order, e.Key)
	}
	if len(evs) != 2 {
		return fmt.Sprintf("count|expected 2 events, feed has %d", len(evs)), info
	}
	if casA < casB && evs[0].Key != "ka" {
		return fmt.Sprintf("order|writer A committed first (cas %d) and B second (cas %d), but the feed received B's event before A's", casA, casB), info
	}
	return "", info
}

var _ = json.Marshal
