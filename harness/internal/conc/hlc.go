package conc

import (
	"fmt"
	"sort"
	"sync"
	"sync/atomic"

	"verifharness/internal/rng"

	"github.com/couchbaselabs/rosmar"
)

// ClockScript produces a sequence of physical clock readings (nanoseconds, within [0, 2^62]).
type ClockScript struct {
	Class string
	next  func() uint64
}

const clockMax = uint64(1) << 62

// NewClockScript builds one of the clock behaviours the property quantifies over.
func NewClockScript(parent *rng.R, class int) *ClockScript {
	r := rng.New(parent.U64(), 0xc10c) // the script has its own generator: it is read from many goroutines under mu
	var mu sync.Mutex
	base := uint64(1_700_000_000_000_000_000) + r.U64()%1_000_000_000_000
	cur := base
	n := 0
	classes := []string{"constant", "decreasing", "sawtooth", "jumps-back", "slow-advance", "equal-runs", "zero", "near-max", "random"}
	cs := &ClockScript{Class: classes[class%len(classes)]}
	cs.next = func() uint64 {
		mu.Lock()
		defer mu.Unlock()
		n++
		switch cs.Class {
		case "constant":
			return base
		case "decreasing":
			if cur > 1000 {
				cur -= 1 + r.U64()%100000
			}
			return cur
		case "sawtooth":
			if n%50 == 0 {
				cur = base
			} else {
				cur += 70000
			}
			return cur
		case "jumps-back":
			cur += 1000 + r.U64()%200000
			if r.Intn(20) == 0 {
				back := r.U64() % 5_000_000_000
				if cur > back {
					cur -= back
				}
			}
			return cur
		case "slow-advance":
			cur += r.U64() % 3 // far below the 64Ki rounding granularity
			return cur
		case "equal-runs":
			if n%7 == 0 {
				cur += 65536 * (1 + r.U64()%3)
			}
			return cur
		case "zero":
			return 0
		case "near-max":
			return clockMax - 1_000_000 + r.U64()%1000
		}
		return r.U64() % clockMax
	}
	return cs
}

func (c *ClockScript) Now() uint64 { return c.next() }

type stamp struct {
	ts     uint64
	caller int
	call   int64
	ret    int64
}

// HLCRun drives one HybridLogicalClock with a scripted clock from `callers` goroutines and checks:
// per-caller strict increase, global uniqueness, and real-time order (A returned before B was called => tsA < tsB).
func HLCRun(r *rng.R, class, callers, each int, last uint64) (n int, equalReadings int, msg string, detail any) {
	script := NewClockScript(r, class)
	var readings atomic.Int64
	var prev atomic.Uint64
	clock := func() uint64 {
		v := script.Now()
		if p := prev.Swap(v); p >= v {
			readings.Add(1) // an equal or backwards reading was fed
		}
		return v
	}
	h := rosmar.VerifNewHLC(rosmar.Timestamp(last), clock)
	stamps := make([][]stamp, callers)
	var wg sync.WaitGroup
	start := make(chan struct{})
	for ci := 0; ci < callers; ci++ {
		wg.Add(1)
		go func(ci int) {
			defer wg.Done()
			out := make([]stamp, 0, each)
			<-start
			for i := 0; i < each; i++ {
				call := Tick.Add(1)
				ts := uint64(h.Now())
				ret := Tick.Add(1)
				out = append(out, stamp{ts, ci, call, ret})
			}
			stamps[ci] = out
		}(ci)
	}
	close(start)
	wg.Wait()
	var all []stamp
	for ci, ss := range stamps {
		for i := 1; i < len(ss); i++ {
			if ss[i].ts <= ss[i-1].ts {
				return len(all), int(readings.Load()), fmt.Sprintf("percaller|caller %d got %d after %d from a %s clock", ci, ss[i].ts, ss[i-1].ts, script.Class), map[string]any{"class": script.Class}
			}
		}
		all = append(all, ss...)
	}
	if msg, d := checkStamps(all, last, script.Class); msg != "" {
		return len(all), int(readings.Load()), msg, d
	}
	return len(all), int(readings.Load()), "", nil
}

// checkStamps: uniqueness, above the seed, and real-time order via a sweep over return ticks.
func checkStamps(all []stamp, last uint64, class string) (string, any) {
	byTs := append([]stamp(nil), all...)
	sort.Slice(byTs, func(i, j int) bool { return byTs[i].ts < byTs[j].ts })
	for i := range byTs {
		if byTs[i].ts <= last {
			return fmt.Sprintf("seed|timestamp %d is not above the seeded last value %d (%s clock)", byTs[i].ts, last, class), nil
		}
		if i > 0 && byTs[i].ts == byTs[i-1].ts {
			return fmt.Sprintf("unique|timestamp %d handed out twice (callers %d and %d, %s clock)", byTs[i].ts, byTs[i-1].caller, byTs[i].caller, class), map[string]any{"a": byTs[i-1], "b": byTs[i]}
		}
	}
	// real-time order: sort by call tick; maintain the max ts among operations that returned before this call
	byCall := append([]stamp(nil), all...)
	sort.Slice(byCall, func(i, j int) bool { return byCall[i].call < byCall[j].call })
	byRet := append([]stamp(nil), all...)
	sort.Slice(byRet, func(i, j int) bool { return byRet[i].ret < byRet[j].ret })
	var maxDone uint64
	var maxStamp stamp
	j := 0
	for _, s := range byCall {
		for j < len(byRet) && byRet[j].ret < s.call {
			if byRet[j].ts > maxDone {
				maxDone, maxStamp = byRet[j].ts, byRet[j]
			}
			j++
		}
		if s.ts <= maxDone {
			return fmt.Sprintf("realtime|a call that started after another had returned got a smaller or equal timestamp: %d (caller %d) <= %d (caller %d), %s clock", s.ts, s.caller, maxDone, maxStamp.caller, class), map[string]any{"later": s, "earlier": maxStamp}
		}
	}
	return "", nil
}

// CasStamp is a CAS observed from a successful regular write.
type CasStamp struct {
	Cas    uint64
	Bucket int
	Key    string
	Call   int64
	Ret    int64
	Client int
}

// CheckCasStamps applies the same order checks to CAS values returned by regular writes of any bucket in the process.
func CheckCasStamps(cs []CasStamp) (string, any) {
	all := make([]stamp, len(cs))
	for i, c := range cs {
		all[i] = stamp{c.Cas, c.Client, c.Call, c.Ret}
	}
	return checkStamps(all, 0, "bucket")
}
