// Package sup is the supervisor side of the harness: it fans scenarios out to child worker
// processes, merges what they observed, matches violations against known_findings.jsonl, writes
// replay files and the evidence file, and decides the exit status.
package sup

import (
	"bufio"
	"encoding/json"
	"fmt"
	"io"
	"os"
	"os/exec"
	"path/filepath"
	"regexp"
	"runtime"
	"sort"
	"strings"
	"sync"
	"sync/atomic"
	"syscall"
	"time"
)

// ---------------------------------------------------------------- check definition

// Part is one family of scenarios inside a check (e.g. "exhaustive pairs", "random histories").
type Part struct {
	Name  string
	Count func(tier string) int // number of scenarios of this part for the tier
	Run   func(c *Ctx)          // executes scenario c.Local of this part (in a worker)
	Race  bool                  // run these scenarios with the -race binary
	// Serial parts run in a single worker (e.g. wall-clock sensitive ones).
	Serial bool
	// Timeout is the per-scenario watchdog (default 3 minutes). When it fires the worker records the goroutine
	// dump, reports a hang if rosmar frames are blocked on a lock (else inconclusive) and exits; the supervisor
	// restarts a worker for the remaining scenarios.
	Timeout time.Duration
}

type Check struct {
	Prop        string
	Level       string // evidence level
	Rule        string
	Assumptions []string
	Parts       []Part
	// Floor inspects merged evidence; a non-empty string means the run observed too little ("check broken").
	Floor func(tier string, m *Merged) string
	// RaceOwner reports whether a race signature (funcA|funcB) is owned by this property.
	RaceOwner func(sig string) bool
	// WorkerTimeout overrides the per-worker watchdog.
	WorkerTimeout func(tier string) time.Duration
}

var Registry = map[string]*Check{}

func Register(c *Check) { Registry[c.Prop] = c }

// ---------------------------------------------------------------- worker side

type Rec struct {
	T      string           `json:"t"` // start | viol | done | exit | note
	Scn    int              `json:"scn"`
	Part   string           `json:"part,omitempty"`
	Local  int              `json:"local,omitempty"`
	Props  []string         `json:"props,omitempty"`
	Sig    string           `json:"sig,omitempty"`
	Msg    string           `json:"msg,omitempty"`
	Detail any              `json:"detail,omitempty"`
	Cells  []string         `json:"cells,omitempty"`
	Counts map[string]int64 `json:"counts,omitempty"`
	Maxes  map[string]int64 `json:"maxes,omitempty"`
	Sample any              `json:"sample,omitempty"`
	Incon  string           `json:"incon,omitempty"`
}

// Ctx is handed to a scenario.
type Ctx struct {
	Prop   string
	Tier   string
	Seed   uint64
	Scn    int // global scenario index
	Local  int // index within the part
	Part   string
	Race   bool
	Replay bool
	Tmp    string // scratch directory (per worker)

	mu     sync.Mutex
	out    *json.Encoder
	cells  map[string]struct{}
	counts map[string]int64
	maxes  map[string]int64
	sample any
	incon  string
	nviol  int
	nown   int // violations attributed to the running check's own property
}

func (c *Ctx) emit(r Rec) {
	c.mu.Lock()
	defer c.mu.Unlock()
	_ = c.out.Encode(r)
}

// Viol records a violation attributed to the given properties.
func (c *Ctx) Viol(props []string, sig, msg string, detail any) {
	c.mu.Lock()
	c.nviol++
	own := false
	for _, p := range props {
		if p == c.Prop {
			own = true
			break
		}
	}
	n := c.nviol - c.nown
	if own {
		c.nown++
		n = c.nown
	}
	c.mu.Unlock()
	if n > 40 { // one scenario cannot flood the log (own and foreign judgments are limited separately)
		return
	}
	c.emit(Rec{T: "viol", Scn: c.Scn, Part: c.Part, Local: c.Local, Props: props, Sig: sig, Msg: msg, Detail: detail})
}

func (c *Ctx) Cell(s string) {
	c.mu.Lock()
	c.cells[s] = struct{}{}
	c.mu.Unlock()
}
func (c *Ctx) Count(name string, n int64) {
	c.mu.Lock()
	c.counts[name] += n
	c.mu.Unlock()
}
func (c *Ctx) Max(name string, n int64) {
	c.mu.Lock()
	if n > c.maxes[name] {
		c.maxes[name] = n
	}
	c.mu.Unlock()
}
func (c *Ctx) Sample(s any) {
	c.mu.Lock()
	if c.sample == nil {
		c.sample = s
	}
	c.mu.Unlock()
}
func (c *Ctx) Incon(reason string) {
	c.mu.Lock()
	if c.incon == "" {
		c.incon = reason
	}
	c.mu.Unlock()
}
func (c *Ctx) NViol() int { c.mu.Lock(); defer c.mu.Unlock(); return c.nviol }

// locate maps a global scenario index to (part, local index).
func locate(chk *Check, tier string, scn int) (*Part, int) {
	for i := range chk.Parts {
		n := chk.Parts[i].Count(tier)
		if scn < n {
			return &chk.Parts[i], scn
		}
		scn -= n
	}
	return nil, 0
}

func total(chk *Check, tier string) int {
	t := 0
	for i := range chk.Parts {
		t += chk.Parts[i].Count(tier)
	}
	return t
}

// WorkerMain runs the scenarios listed (global indices) and writes records to outPath.
func WorkerMain(prop, tier string, seed uint64, scns []int, outPath, tmp string, race, replay bool) int {
	chk := Registry[prop]
	if chk == nil {
		fmt.Fprintf(os.Stderr, "unknown property %s\n", prop)
		return 3
	}
	f, err := os.OpenFile(outPath, os.O_CREATE|os.O_WRONLY|os.O_APPEND, 0644)
	if err != nil {
		fmt.Fprintln(os.Stderr, err)
		return 3
	}
	defer f.Close()
	enc := json.NewEncoder(f)
	violating := 0
	for si, scn := range scns {
		part, local := locate(chk, tier, scn)
		if part == nil {
			continue
		}
		if violating >= 6 && !replay {
			// the point is made: do not grind through every remaining scenario of a tree that is plainly broken
			c := &Ctx{out: enc}
			c.emit(Rec{T: "done", Scn: scn, Part: "skipped", Counts: map[string]int64{"scenarios_skipped_after_repeated_violations": int64(len(scns) - si)}})
			break
		}
		c := &Ctx{Prop: prop, Tier: tier, Seed: seed, Scn: scn, Local: local, Part: part.Name, Race: race, Replay: replay, Tmp: tmp,
			out: enc, cells: map[string]struct{}{}, counts: map[string]int64{}, maxes: map[string]int64{}}
		c.emit(Rec{T: "start", Scn: scn, Part: part.Name, Local: local})
		finished := make(chan struct{})
		go func() {
			defer close(finished)
			defer func() {
				if r := recover(); r != nil {
					buf := make([]byte, 16384)
					buf = buf[:runtime.Stack(buf, false)]
					c.Viol([]string{prop}, "panic-escaped|"+NormPanic(fmt.Sprint(r)), fmt.Sprintf("panic escaped scenario: %v", r), string(buf))
				}
			}()
			part.Run(c)
		}()
		to := part.Timeout
		if to == 0 {
			to = 90 * time.Second
		}
		select {
		case <-finished:
		case <-time.After(to):
			// A deadlock and a scenario that is merely slow on a loaded machine both show goroutines waiting for locks
			// at this instant. What tells them apart is for how long: the runtime annotates a goroutine that has been
			// blocked for a minute or more ("sync.Mutex.Lock, 2 minutes"). So the verdict is taken no earlier than 75 s
			// into the scenario, and only such goroutines count; anything else is inconclusive.
			late := false
			if to < 75*time.Second {
				select {
				case <-finished:
					late = true
				case <-time.After(75*time.Second - to):
				}
			}
			if late {
				c.Incon(fmt.Sprintf("scenario exceeded %s (it finished a little later)", to))
				c.emit(Rec{T: "done", Scn: scn, Part: part.Name, Local: local, Counts: c.counts, Incon: c.incon})
				c.emit(Rec{T: "abort", Scn: scn})
				f.Close()
				os.Exit(7)
			}
			buf := make([]byte, 4<<20)
			buf = buf[:runtime.Stack(buf, true)]
			dump := string(buf)
			if fn := BlockedRosmar(dump); fn != "" {
				c.Viol([]string{prop, "C20"}, "hang|"+fn, fmt.Sprintf("scenario did not finish within %s; goroutines are blocked on a lock inside rosmar: %s", to, fn), trimDump(dump))
			} else {
				c.Incon(fmt.Sprintf("scenario exceeded %s without lock-wait evidence", to))
			}
			c.emit(Rec{T: "done", Scn: scn, Part: part.Name, Local: local, Counts: c.counts, Incon: c.incon})
			c.emit(Rec{T: "abort", Scn: scn})
			f.Close()
			os.Exit(7)
		}
		cells := make([]string, 0, len(c.cells))
		for k := range c.cells {
			cells = append(cells, k)
		}
		sort.Strings(cells)
		if c.nown > 0 {
			violating++
		}
		c.emit(Rec{T: "done", Scn: scn, Part: part.Name, Local: local, Cells: cells, Counts: c.counts, Maxes: c.maxes, Sample: c.sample, Incon: c.incon})
	}
	c := &Ctx{out: enc}
	c.emit(Rec{T: "exit"})
	return 0
}

var reHex = regexp.MustCompile(`0x[0-9a-fA-F]+|\b[0-9]{3,}\b`)

// NormPanic strips addresses and long numbers from a panic message so it can be part of a signature.
func NormPanic(s string) string {
	s = reHex.ReplaceAllString(s, "N")
	if i := strings.IndexByte(s, '\n'); i >= 0 {
		s = s[:i]
	}
	if len(s) > 120 {
		s = s[:120]
	}
	return s
}

// ---------------------------------------------------------------- supervisor side

type Violation struct {
	Props  []string `json:"props"`
	Sig    string   `json:"sig"`
	Msg    string   `json:"msg"`
	Scn    int      `json:"scn"`
	Part   string   `json:"part"`
	Local  int      `json:"local"`
	Detail any      `json:"detail,omitempty"`
}

type Merged struct {
	Evaluations int
	Cells       map[string]struct{}
	Counts      map[string]int64
	Maxes       map[string]int64
	Samples     []any
	Incon       []string
	Viols       []Violation
	PartEvals   map[string]int
}

type Known struct {
	Status    string `json:"status"` // known | fixed
	Property  string `json:"property"`
	Signature string `json:"signature"`
	What      string `json:"what"`
	Commit    string `json:"commit,omitempty"`
}

func loadKnown(root string) []Known {
	var out []Known
	f, err := os.Open(filepath.Join(root, "known_findings.jsonl"))
	if err != nil {
		return nil
	}
	defer f.Close()
	sc := bufio.NewScanner(f)
	sc.Buffer(make([]byte, 1<<20), 1<<20)
	for sc.Scan() {
		line := strings.TrimSpace(sc.Text())
		if line == "" || strings.HasPrefix(line, "#") {
			continue
		}
		var k Known
		if json.Unmarshal([]byte(line), &k) == nil {
			out = append(out, k)
		}
	}
	return out
}

func sigMatch(pattern, sig string) bool {
	if strings.HasSuffix(pattern, "*") {
		return strings.HasPrefix(sig, strings.TrimSuffix(pattern, "*"))
	}
	return pattern == sig
}

type Options struct {
	Root    string // /verif
	Prop    string
	Tier    string
	Seed    uint64
	Bin     string // plain worker binary
	RaceBin string // race worker binary ("" if not built)
	Workers int
	Replay  string // path of a replay file, or ""
	Alt     bool   // self-test against a scratch copy (VERIF_REPO): evidence and replays go under .bin/, never into /verif/evidence
}

func (o Options) evidenceDir() string {
	if o.Alt {
		return filepath.Join(o.Root, ".bin", "alt-evidence")
	}
	return filepath.Join(o.Root, "evidence")
}

func (o Options) replayDir() string {
	if o.Alt {
		return filepath.Join(o.Root, ".bin", "alt-replays")
	}
	return filepath.Join(o.Root, "replays")
}

func scratchBase() string {
	if st, err := os.Stat("/dev/shm"); err == nil && st.IsDir() {
		return "/dev/shm"
	}
	return os.TempDir()
}

type workerRun struct {
	id      int
	race    bool
	scns    []int
	out     string
	errPath string
	raceLog string
	tmp     string
	exit    int
	timed   bool
	crashes []crashInfo
	cutShort int
}

// Run executes a check and returns the process exit code.
func Run(o Options) int {
	chk := Registry[o.Prop]
	if chk == nil {
		fmt.Fprintf(os.Stderr, "unknown property %q\n", o.Prop)
		return 2
	}
	t0 := time.Now()
	scratch, err := os.MkdirTemp(scratchBase(), "vcheck-"+o.Prop+"-")
	if err != nil {
		fmt.Fprintln(os.Stderr, err)
		return 2
	}
	defer os.RemoveAll(scratch)

	if o.Workers <= 0 {
		o.Workers = runtime.NumCPU() - 2
		if o.Workers > 14 {
			o.Workers = 14
		}
		if o.Workers < 2 {
			o.Workers = 2
		}
	}

	if o.Replay == "" {
		// witnesses of earlier runs of the same (property, tier, seed) are stale
		old, _ := filepath.Glob(filepath.Join(o.replayDir(), fmt.Sprintf("%s-%s-%d-*.json", o.Prop, o.Tier, o.Seed)))
		for _, p := range old {
			_ = os.Remove(p)
		}
	}
	// Partition scenarios.
	n := total(chk, o.Tier)
	var plain, race, serial []int
	if o.Replay != "" {
		var rp struct {
			Tier string `json:"tier"`
			Seed uint64 `json:"seed"`
			Scn  int    `json:"scn"`
		}
		b, err := os.ReadFile(o.Replay)
		if err != nil || json.Unmarshal(b, &rp) != nil {
			fmt.Fprintf(os.Stderr, "cannot read replay file %s\n", o.Replay)
			return 2
		}
		o.Tier, o.Seed = rp.Tier, rp.Seed
		p, _ := locate(chk, o.Tier, rp.Scn)
		if p == nil {
			fmt.Fprintln(os.Stderr, "replay scenario out of range")
			return 2
		}
		if p.Race {
			race = []int{rp.Scn}
		} else {
			plain = []int{rp.Scn}
		}
	} else {
		for i := 0; i < n; i++ {
			p, _ := locate(chk, o.Tier, i)
			switch {
			case p.Race:
				race = append(race, i)
			case p.Serial:
				serial = append(serial, i)
			default:
				plain = append(plain, i)
			}
		}
	}
	if len(race) > 0 && o.RaceBin == "" {
		fmt.Fprintln(os.Stderr, "race binary missing")
		return 2
	}

	var runs []*workerRun
	mk := func(list []int, isRace bool, nw int) {
		if len(list) == 0 {
			return
		}
		if nw > len(list) {
			nw = len(list)
		}
		buckets := make([][]int, nw)
		for i, s := range list {
			buckets[i%nw] = append(buckets[i%nw], s)
		}
		for _, b := range buckets {
			id := len(runs)
			w := &workerRun{id: id, race: isRace, scns: b,
				out:     filepath.Join(scratch, fmt.Sprintf("w%d.jsonl", id)),
				errPath: filepath.Join(scratch, fmt.Sprintf("w%d.stderr", id)),
				raceLog: filepath.Join(scratch, fmt.Sprintf("w%d.race", id)),
				tmp:     filepath.Join(scratch, fmt.Sprintf("w%d.tmp", id))}
			_ = os.MkdirAll(w.tmp, 0755)
			runs = append(runs, w)
		}
	}
	mk(plain, false, o.Workers)
	mk(serial, false, 1)
	mk(race, true, o.Workers)

	timeout := 20 * time.Minute
	if o.Tier == "thorough" {
		timeout = 90 * time.Minute
	}
	if chk.WorkerTimeout != nil {
		timeout = chk.WorkerTimeout(o.Tier)
	}

	// Run plain+serial workers concurrently, then race workers (they are CPU heavy).
	runGroup := func(group []*workerRun) {
		var wg sync.WaitGroup
		sem := make(chan struct{}, o.Workers)
		for _, w := range group {
			wg.Add(1)
			sem <- struct{}{}
			go func(w *workerRun) {
				defer wg.Done()
				defer func() { <-sem }()
				runWorker(o, w, timeout)
			}(w)
		}
		wg.Wait()
	}
	var g1, g2 []*workerRun
	for _, w := range runs {
		if w.race {
			g2 = append(g2, w)
		} else {
			g1 = append(g1, w)
		}
	}
	runGroup(g1)
	runGroup(g2)

	// Merge.
	m := &Merged{Cells: map[string]struct{}{}, Counts: map[string]int64{}, Maxes: map[string]int64{}, PartEvals: map[string]int{}}
	for _, w := range runs {
		mergeWorker(chk, o, w, m)
	}
	// Race reports.
	raceOwned, raceForeign := collectRaces(chk, runs, m, o)

	return finish(chk, o, m, t0, raceOwned, raceForeign)
}

type crashInfo struct {
	scn     int
	rec     Rec
	exit    int
	timed   bool
	stderr  string
	first   string
	unstart bool
}

// scanOut reads a worker's record file: which scenarios started / finished.
func scanOut(path string) (started map[int]Rec, finished map[int]bool) {
	started, finished = map[int]Rec{}, map[int]bool{}
	f, err := os.Open(path)
	if err != nil {
		return
	}
	defer f.Close()
	sc := bufio.NewScanner(f)
	sc.Buffer(make([]byte, 1<<24), 1<<24)
	for sc.Scan() {
		var r Rec
		if json.Unmarshal(sc.Bytes(), &r) != nil {
			continue
		}
		switch r.T {
		case "start":
			started[r.Scn] = r
		case "done":
			finished[r.Scn] = true
		}
	}
	return
}

// runWorker runs a worker process over w.scns, restarting it for the remaining scenarios if it dies or aborts.
// abnormalEnds counts worker processes that died or aborted in this run; once a handful of scenarios have
// hung or crashed the point is made, and the rest of the run is cut short instead of waiting out every watchdog.
var abnormalEnds atomic.Int64

const maxAbnormalEnds = 6

func runWorker(o Options, w *workerRun, timeout time.Duration) {
	remaining := append([]int(nil), w.scns...)
	deadline := time.Now().Add(timeout)
	for attempt := 0; attempt < 200 && len(remaining) > 0; attempt++ {
		if abnormalEnds.Load() >= maxAbnormalEnds {
			w.cutShort = len(remaining)
			return
		}
		errPath := fmt.Sprintf("%s.%d", w.errPath, attempt)
		exit, timed := runWorkerOnce(o, w, remaining, errPath, time.Until(deadline))
		started, finished := scanOut(w.out)
		if exit == 0 {
			return
		}
		abnormalEnds.Add(1)
		// which scenario was running?
		cur := -1
		var curRec Rec
		for _, sidx := range remaining {
			if r, ok := started[sidx]; ok && !finished[sidx] {
				cur, curRec = sidx, r
			}
		}
		if exit != 7 { // 7 = the worker reported the hang itself
			ci := crashInfo{scn: cur, rec: curRec, exit: exit, timed: timed, stderr: tail(errPath, 24000), first: firstFatalLine(head(errPath, 1<<20))}
			w.crashes = append(w.crashes, ci)
		}
		var next []int
		for _, sidx := range remaining {
			if _, ok := started[sidx]; !ok {
				next = append(next, sidx)
			}
		}
		if timed || len(next) == len(remaining) {
			return // out of time, or no progress (worker cannot even start)
		}
		remaining = next
	}
}

func runWorkerOnce(o Options, w *workerRun, scns []int, errPath string, timeout time.Duration) (exit int, timed bool) {
	bin := o.Bin
	if w.race {
		bin = o.RaceBin
	}
	strs := make([]string, len(scns))
	for i, s := range scns {
		strs[i] = fmt.Sprint(s)
	}
	args := []string{"worker", "--prop", o.Prop, "--tier", o.Tier, "--seed", fmt.Sprint(o.Seed),
		"--scns", strings.Join(strs, ","), "--out", w.out, "--tmp", w.tmp}
	if w.race {
		args = append(args, "--race")
	}
	if o.Replay != "" {
		args = append(args, "--replay")
	}
	cmd := exec.Command(bin, args...)
	ef, _ := os.Create(errPath)
	defer ef.Close()
	cmd.Stdout = ef
	cmd.Stderr = ef
	cmd.Env = append(os.Environ(), "GOTRACEBACK=all")
	if w.race {
		cmd.Env = append(cmd.Env, "GORACE=halt_on_error=0 exitcode=0 history_size=3 log_path="+w.raceLog)
	}
	if err := cmd.Start(); err != nil {
		return 99, false
	}
	done := make(chan error, 1)
	go func() { done <- cmd.Wait() }()
	if timeout < time.Second {
		timeout = time.Second
	}
	select {
	case err := <-done:
		if err != nil {
			if ee, ok := err.(*exec.ExitError); ok {
				exit = ee.ExitCode()
				if exit == 0 {
					exit = 98
				}
			} else {
				exit = 97
			}
		}
	case <-time.After(timeout):
		timed = true
		_ = cmd.Process.Signal(syscall.SIGQUIT)
		select {
		case <-done:
		case <-time.After(10 * time.Second):
			_ = cmd.Process.Kill()
			<-done
		}
		exit = 96
	}
	return
}

func tail(path string, n int) string {
	b, err := os.ReadFile(path)
	if err != nil {
		return ""
	}
	if len(b) > n {
		b = b[len(b)-n:]
	}
	return string(b)
}

func head(path string, n int) string {
	b, err := os.ReadFile(path)
	if err != nil {
		return ""
	}
	if len(b) > n {
		b = b[:n]
	}
	return string(b)
}

func mergeWorker(chk *Check, o Options, w *workerRun, m *Merged) {
	f, err := os.Open(w.out)
	if err == nil {
		sc := bufio.NewScanner(f)
		sc.Buffer(make([]byte, 1<<24), 1<<24)
		for sc.Scan() {
			var r Rec
			if json.Unmarshal(sc.Bytes(), &r) != nil {
				continue
			}
			switch r.T {
			case "viol":
				m.Viols = append(m.Viols, Violation{Props: r.Props, Sig: r.Sig, Msg: r.Msg, Scn: r.Scn, Part: r.Part, Local: r.Local, Detail: r.Detail})
			case "done":
				m.Evaluations++
				m.PartEvals[r.Part]++
				for _, c := range r.Cells {
					m.Cells[c] = struct{}{}
				}
				for k, v := range r.Counts {
					m.Counts[k] += v
				}
				for k, v := range r.Maxes {
					if v > m.Maxes[k] {
						m.Maxes[k] = v
					}
				}
				if r.Sample != nil && len(m.Samples) < 3 {
					m.Samples = append(m.Samples, r.Sample)
				}
				if r.Incon != "" {
					m.Incon = append(m.Incon, fmt.Sprintf("scn %d: %s", r.Scn, r.Incon))
				}
			}
		}
		f.Close()
	}
	if w.cutShort > 0 {
		m.Counts["scenarios_not_run_after_repeated_hangs_or_crashes"] += int64(w.cutShort)
	}
	for _, ci := range w.crashes {
		if ci.timed {
			// A supervisor watchdog firing alone is inconclusive unless the dump shows rosmar frames blocked on a lock.
			if dl := BlockedRosmar(ci.stderr); dl != "" {
				m.Viols = append(m.Viols, Violation{Props: []string{o.Prop, "C20"}, Sig: "hang|" + dl, Msg: "worker exceeded the run watchdog with rosmar goroutines blocked on a mutex: " + dl, Scn: ci.scn, Part: ci.rec.Part, Local: ci.rec.Local, Detail: ci.stderr})
			} else {
				m.Incon = append(m.Incon, fmt.Sprintf("worker %d: run watchdog fired in scn %d (no lock-wait evidence)", w.id, ci.scn))
			}
			continue
		}
		if ci.first == "" && ci.exit == 99 {
			m.Incon = append(m.Incon, fmt.Sprintf("worker %d could not start", w.id))
			continue
		}
		m.Viols = append(m.Viols, Violation{Props: []string{o.Prop, "C20"}, Sig: "crash|" + NormPanic(ci.first),
			Msg: fmt.Sprintf("worker process died (exit %d) during scenario %d: %s", ci.exit, ci.scn, ci.first),
			Scn: ci.scn, Part: ci.rec.Part, Local: ci.rec.Local, Detail: ci.stderr})
	}
}

func trimDump(d string) string {
	if len(d) > 60000 {
		return d[:60000] + "\n...[truncated]"
	}
	return d
}

// BlockedRosmar returns the innermost rosmar functions of goroutines parked in sync.Mutex.Lock / semacquire.
func BlockedRosmar(dump string) string {
	var found []string
	for _, b := range strings.Split(dump, "\n\n") {
		m := reGoroutine.FindStringSubmatch(b)
		if m == nil {
			continue
		}
		st := m[1]
		if !(strings.HasPrefix(st, "sync.Mutex.Lock") || strings.HasPrefix(st, "semacquire")) {
			continue
		}
		if !strings.Contains(st, "minute") {
			continue // waiting for less than a minute: contention, not evidence of a deadlock
		}
		if fn := innermostRosmar(b); fn != "" {
			found = append(found, fn)
		}
	}
	if len(found) == 0 {
		return ""
	}
	sort.Strings(found)
	uniq := found[:1]
	for _, f := range found[1:] {
		if f != uniq[len(uniq)-1] {
			uniq = append(uniq, f)
		}
	}
	if len(uniq) > 4 {
		uniq = uniq[:4]
	}
	return strings.Join(uniq, ",")
}

func firstFatalLine(s string) string {
	for _, line := range strings.Split(s, "\n") {
		if strings.HasPrefix(line, "panic:") || strings.HasPrefix(line, "fatal error:") || strings.HasPrefix(line, "SIG") {
			return line
		}
	}
	return ""
}

var reGoroutine = regexp.MustCompile(`(?m)^goroutine \d+ \[([^\]]+)\]:$`)

// deadlockEvidence looks for goroutines parked in sync.Mutex.Lock / Cond.Wait for minutes with rosmar frames.
func deadlockEvidence(dump string) string {
	blocks := strings.Split(dump, "\n\n")
	var found []string
	for _, b := range blocks {
		m := reGoroutine.FindStringSubmatch(b)
		if m == nil {
			continue
		}
		st := m[1]
		if !(strings.HasPrefix(st, "sync.Mutex.Lock") || strings.HasPrefix(st, "semacquire") || strings.HasPrefix(st, "sync.Cond.Wait")) {
			continue
		}
		if !strings.Contains(st, "minutes") {
			continue
		}
		if fn := innermostRosmar(b); fn != "" && strings.Contains(b, "sync.(*Mutex).Lock") {
			found = append(found, fn)
		}
	}
	if len(found) == 0 {
		return ""
	}
	sort.Strings(found)
	uniq := found[:1]
	for _, f := range found[1:] {
		if f != uniq[len(uniq)-1] {
			uniq = append(uniq, f)
		}
	}
	return strings.Join(uniq, ",")
}

var reRosmarFn = regexp.MustCompile(`github\.com/couchbaselabs/rosmar\.([^\s(]+(?:\([^)]*\))?[^\s(]*)\(`)

func innermostRosmar(block string) string {
	for _, line := range strings.Split(block, "\n") {
		if strings.HasPrefix(line, "github.com/couchbaselabs/rosmar.") {
			fn := strings.TrimPrefix(line, "github.com/couchbaselabs/rosmar.")
			if i := strings.LastIndex(fn, "("); i > 0 {
				fn = fn[:i]
			}
			return fn
		}
	}
	return ""
}

// ---------------------------------------------------------------- race reports

type raceReport struct {
	sig  string
	text string
}

func parseRaceLogs(runs []*workerRun) []raceReport {
	var out []raceReport
	for _, w := range runs {
		if !w.race {
			continue
		}
		matches, _ := filepath.Glob(w.raceLog + ".*")
		for _, p := range matches {
			b, err := os.ReadFile(p)
			if err != nil {
				continue
			}
			for _, blk := range strings.Split(string(b), "==================") {
				if !strings.Contains(blk, "WARNING: DATA RACE") {
					continue
				}
				a, bb := raceStacks(blk)
				if a == "" || bb == "" {
					continue // not both stacks in rosmar: harness or dependency, not a finding
				}
				if a > bb {
					a, bb = bb, a
				}
				out = append(out, raceReport{sig: a + "|" + bb, text: blk})
			}
		}
	}
	return out
}

// raceStacks returns the innermost rosmar function of the two access stacks ("" if a stack has none).
func raceStacks(blk string) (string, string) {
	lines := strings.Split(blk, "\n")
	var stacks [][]string
	var cur []string
	inAccess := false
	for _, l := range lines {
		t := strings.TrimSpace(l)
		isHdr := strings.HasPrefix(t, "Write at") || strings.HasPrefix(t, "Read at") || strings.HasPrefix(t, "Previous write at") || strings.HasPrefix(t, "Previous read at") || strings.HasPrefix(t, "Atomic") || strings.HasPrefix(t, "Previous atomic")
		if isHdr {
			if inAccess {
				stacks = append(stacks, cur)
			}
			cur = nil
			inAccess = true
			continue
		}
		if strings.HasPrefix(t, "Goroutine ") {
			if inAccess {
				stacks = append(stacks, cur)
				inAccess = false
			}
			continue
		}
		if inAccess && t != "" && !strings.HasPrefix(t, "/") {
			cur = append(cur, t)
		}
	}
	if inAccess {
		stacks = append(stacks, cur)
	}
	if len(stacks) < 2 {
		return "", ""
	}
	pick := func(st []string) string {
		for _, fn := range st {
			if strings.HasPrefix(fn, "github.com/couchbaselabs/rosmar.") && !strings.Contains(fn, "_test") {
				fn = strings.TrimPrefix(fn, "github.com/couchbaselabs/rosmar.")
				if i := strings.LastIndex(fn, "("); i > 0 {
					fn = fn[:i]
				}
				return fn
			}
		}
		return ""
	}
	return pick(stacks[0]), pick(stacks[1])
}

func collectRaces(chk *Check, runs []*workerRun, m *Merged, o Options) (owned, foreign []string) {
	reps := parseRaceLogs(runs)
	seen := map[string]bool{}
	for _, r := range reps {
		m.Counts["race_reports"]++
		if seen[r.sig] {
			continue
		}
		seen[r.sig] = true
		if chk.RaceOwner != nil && chk.RaceOwner(r.sig) {
			owned = append(owned, r.sig)
			m.Viols = append(m.Viols, Violation{Props: []string{o.Prop}, Sig: o.Prop + "|race|" + r.sig,
				Msg: "data race between rosmar frames: " + r.sig, Scn: -1, Part: "race", Detail: r.text})
		} else {
			foreign = append(foreign, r.sig)
		}
	}
	sort.Strings(owned)
	sort.Strings(foreign)
	return
}

// ---------------------------------------------------------------- verdict + evidence

func finish(chk *Check, o Options, m *Merged, t0 time.Time, raceOwned, raceForeign []string) int {
	known := loadKnown(o.Root)
	type agg struct {
		v     Violation
		count int
	}
	mine := map[string]*agg{}
	foreign := map[string]int{}
	var order []string
	for _, v := range m.Viols {
		isMine := false
		for _, p := range v.Props {
			if p == o.Prop {
				isMine = true
			}
		}
		if !isMine {
			foreign[strings.Join(v.Props, ",")+" "+v.Sig]++
			continue
		}
		if a, ok := mine[v.Sig]; ok {
			a.count++
			continue
		}
		mine[v.Sig] = &agg{v: v, count: 1}
		order = append(order, v.Sig)
	}
	sort.Strings(order)

	var knownSeen []string
	newViol := 0
	exit := 0
	replayDir := o.replayDir()
	for _, sig := range order {
		a := mine[sig]
		var hit *Known
		for i := range known {
			k := &known[i]
			if k.Status == "known" && k.Property == o.Prop && sigMatch(k.Signature, sig) {
				hit = k
				break
			}
		}
		if hit != nil {
			fmt.Printf("KNOWN-FINDING: property=%s %s [%s] (seen %d times)\n", o.Prop, hit.What, sig, a.count)
			knownSeen = append(knownSeen, sig)
			continue
		}
		newViol++
		_ = os.MkdirAll(replayDir, 0755)
		path := filepath.Join(replayDir, fmt.Sprintf("%s-%s-%d-%d.json", o.Prop, o.Tier, o.Seed, a.v.Scn))
		if a.v.Scn < 0 {
			path = filepath.Join(replayDir, fmt.Sprintf("%s-%s-%d-race-%d.json", o.Prop, o.Tier, o.Seed, newViol))
		}
		// Several signatures may come from one scenario; keep them in one file.
		writeReplay(path, o, a.v, a.count)
		fmt.Printf("VIOLATION property=%s replay=%s\n", o.Prop, path)
		fmt.Printf("  signature: %s (seen %d times)\n  %s\n", sig, a.count, a.v.Msg)
		exit = 1
	}

	floorMsg := ""
	if chk.Floor != nil && o.Replay == "" {
		floorMsg = chk.Floor(o.Tier, m)
	}

	// Evidence.
	cov := map[string]any{
		"evaluations":         m.Evaluations,
		"distinct_nontrivial": len(m.Cells),
		"rule":                chk.Rule,
		"samples":             m.Samples,
		"observed":            m.Counts,
		"observed_max":        m.Maxes,
		"scenarios_by_part":   m.PartEvals,
		"inconclusive":        len(m.Incon),
		"inconclusive_detail": firstN(m.Incon, 10),
		"known_findings_seen": knownSeen,
		"foreign_judgments":   foreign,
		"races_owned":         raceOwned,
		"races_foreign":       raceForeign,
		"cells_sample":        cellSample(m.Cells, 40),
	}
	if floorMsg != "" {
		cov["below_floor"] = floorMsg
	}
	if len(m.Samples) == 0 {
		cov["samples"] = []any{"(no scenario produced a sample)"}
	}
	evd := map[string]any{
		"property_id": o.Prop,
		"tier":        o.Tier,
		"seed":        int64(o.Seed),
		"level":       chk.Level,
		"coverage":    cov,
		"assumptions": chk.Assumptions,
		"wall_s":      time.Since(t0).Seconds(),
		"violations":  newViol,
	}
	if o.Replay == "" {
		_ = os.MkdirAll(o.evidenceDir(), 0755)
		b, _ := json.MarshalIndent(evd, "", " ")
		_ = os.WriteFile(filepath.Join(o.evidenceDir(), o.Prop+".json"), b, 0644)
	}

	fmt.Printf("%s %s seed=%d: %d scenarios, %d distinct cells, %d inconclusive, %d new violation signature(s), %d known finding(s), %.1fs\n",
		o.Prop, o.Tier, o.Seed, m.Evaluations, len(m.Cells), len(m.Incon), newViol, len(knownSeen), time.Since(t0).Seconds())
	keys := make([]string, 0, len(m.Counts))
	for k := range m.Counts {
		keys = append(keys, k)
	}
	sort.Strings(keys)
	var sb strings.Builder
	for _, k := range keys {
		fmt.Fprintf(&sb, " %s=%d", k, m.Counts[k])
	}
	fmt.Printf("  observed:%s\n", sb.String())
	if len(foreign) > 0 {
		fmt.Printf("  judgments owned by other properties (not reported here): %d kinds\n", len(foreign))
	}
	if exit == 0 && floorMsg != "" {
		fmt.Printf("CHECK-BROKEN property=%s below floor: %s\n", o.Prop, floorMsg)
		return 2
	}
	if exit == 0 && o.Replay == "" && m.Evaluations > 0 && len(m.Incon)*2 > m.Evaluations {
		fmt.Printf("CHECK-BROKEN property=%s more than half of the scenarios were inconclusive\n", o.Prop)
		return 2
	}
	return exit
}

func writeReplay(path string, o Options, v Violation, count int) {
	rp := map[string]any{
		"property": o.Prop, "tier": o.Tier, "seed": o.Seed, "scn": v.Scn, "part": v.Part, "local": v.Local,
		"signature": v.Sig, "message": v.Msg, "seen": count, "detail": v.Detail,
		"replay": fmt.Sprintf("./check %s --replay %s", o.Prop, path),
	}
	// If the file exists (another signature from the same scenario), append under "more".
	if b, err := os.ReadFile(path); err == nil {
		var old map[string]any
		if json.Unmarshal(b, &old) == nil {
			more, _ := old["more"].([]any)
			more = append(more, map[string]any{"signature": v.Sig, "message": v.Msg, "detail": v.Detail})
			old["more"] = more
			nb, _ := json.MarshalIndent(old, "", " ")
			_ = os.WriteFile(path, nb, 0644)
			return
		}
	}
	b, _ := json.MarshalIndent(rp, "", " ")
	_ = os.WriteFile(path, b, 0644)
}

func firstN(s []string, n int) []string {
	if len(s) > n {
		return s[:n]
	}
	return s
}

func cellSample(cells map[string]struct{}, n int) []string {
	keys := make([]string, 0, len(cells))
	for k := range cells {
		keys = append(keys, k)
	}
	sort.Strings(keys)
	if len(keys) <= n {
		return keys
	}
	step := len(keys) / n
	var out []string
	for i := 0; i < len(keys) && len(out) < n; i += step {
		out = append(out, keys[i])
	}
	return out
}

// InitNullCtx prepares a Ctx that records nothing (used by helper child processes that reuse engine code).
func InitNullCtx(c *Ctx) {
	c.out = json.NewEncoder(io.Discard)
	c.cells = map[string]struct{}{}
	c.counts = map[string]int64{}
	c.maxes = map[string]int64{}
}
