// Package rt is engine E: real-time expiry monitoring (C14; the cross-collection clause of C11).
package rt

import (
	"strings"
	"context"
	"fmt"
	"os"
	"path/filepath"
	"sync"
	"sync/atomic"
	"time"

	sgbucket "github.com/couchbase/sg-bucket"
	"github.com/couchbaselabs/rosmar"
)

var serial atomic.Uint64

// Entry points that can introduce an expiry.
var Introducers = []string{"Add", "AddRaw", "Set", "SetRaw", "WriteCas", "WriteCas+raw", "Incr", "Update", "Update+cbexp", "Touch", "GetAndTouchRaw",
	"WriteWithXattrs", "UpdateXattrs", "WriteResurrectionWithXattrs", "WriteUpdateWithXattrs", "SetWithMeta", "WriteSubDoc-then-Touch", "Add-over-tombstone", "Set-over-tombstone"}

// Order classes: how the deadline under test relates to the other deadlines / writes of the bucket.
var Orders = []string{"only", "later-first", "later-after", "shorten", "lengthen", "preserve", "clear", "delete-clears", "past", "sibling-collection", "touch-shorten", "touch-lengthen", "recreated-collection", "after-empty-sweep", "sibling-handle-closed", "earlier-deadline-dropped", "far-deadline-in-lower-collection"}

type Spec struct {
	Disk       bool
	Intro      string
	Order      string
	Relative   bool
	Coll       int    // collection of the document under test (0 default, 1 named)
	Lead       int    // seconds until the deadline (2 or 3)
	OtherIntro string // entry point that introduces the *other* (later) deadline in the later-first / later-after orders ("" = Set)
}

type Result struct {
	Spec         Spec     `json:"spec"`
	Deadline     int64    `json:"deadline"`
	ShouldGo     bool     `json:"shouldExpire"`
	GoneAfterMs  int64    `json:"goneAfterDeadlineMs"` // -1 if still readable at the end
	EventAfterMs int64    `json:"eventAfterDeadlineMs"`
	CanaryLateMs int64    `json:"canaryLatenessMs"`
	Reads        int      `json:"reads"`
	Problems     []string `json:"problems"`
	Incon        string   `json:"inconclusive,omitempty"`
}

const Bound = 3 * time.Second

var collB = sgbucket.DataStoreNameImpl{Scope: "rs", Collection: "rc"}

func abs(now int64, rel uint32, relative bool) uint32 {
	if relative {
		return rel
	}
	return uint32(now) + rel
}

// introduce gives key k in collection c the expiry (lead seconds from now) through the entry point; returns the unix second bounds of the call.
func introduce(c *rosmar.Collection, intro, key string, lead uint32, relative bool) (t0, t1 int64, err error) {
	ctx := context.Background()
	body := []byte(`{"v":1}`)
	t0 = time.Now().Unix()
	exp := abs(t0, lead, relative)
	pre := func() error { return c.Set(key, 0, nil, []byte(`{"pre":1}`)) }
	switch intro {
	case "Add":
		_, err = c.Add(key, exp, body)
	case "AddRaw":
		_, err = c.AddRaw(key, exp, []byte("raw"))
	case "Set":
		err = c.Set(key, exp, nil, body)
	case "SetRaw":
		err = c.SetRaw(key, exp, nil, []byte("raw"))
	case "WriteCas":
		_, err = c.WriteCas(key, exp, 0, body, 0)
	case "WriteCas+raw":
		_, err = c.WriteCas(key, exp, 0, []byte("raw"), sgbucket.Raw)
	case "Incr":
		_, err = c.Incr(key, 1, 1, exp)
	case "Update":
		_, err = c.Update(key, exp, func(cur []byte) ([]byte, *uint32, bool, error) { return body, nil, false, nil })
	case "Update+cbexp":
		_, err = c.Update(key, 0, func(cur []byte) ([]byte, *uint32, bool, error) { e := exp; return body, &e, false, nil })
	case "Touch":
		if err = pre(); err == nil {
			t0 = time.Now().Unix()
			exp = abs(t0, lead, relative)
			_, err = c.Touch(key, exp)
		}
	case "GetAndTouchRaw":
		if err = pre(); err == nil {
			t0 = time.Now().Unix()
			exp = abs(t0, lead, relative)
			_, _, err = c.GetAndTouchRaw(key, exp)
		}
	case "WriteWithXattrs":
		_, err = c.WriteWithXattrs(ctx, key, exp, 0, body, map[string][]byte{"_sync": []byte(`{"s":1}`)}, nil, nil)
	case "UpdateXattrs":
		if err = pre(); err == nil {
			var cas uint64
			_, cas, _ = c.GetRaw(key)
			t0 = time.Now().Unix()
			exp = abs(t0, lead, relative)
			_, err = c.UpdateXattrs(ctx, key, exp, cas, map[string][]byte{"_sync": []byte(`{"s":2}`)}, nil)
		}
	case "WriteResurrectionWithXattrs":
		_, err = c.WriteResurrectionWithXattrs(ctx, key, exp, body, map[string][]byte{"_sync": []byte(`{"s":3}`)}, nil)
	case "WriteUpdateWithXattrs":
		_, err = c.WriteUpdateWithXattrs(ctx, key, []string{"_sync"}, 0, nil, &sgbucket.MutateInOptions{}, func(doc []byte, x map[string][]byte, cas uint64) (sgbucket.UpdatedDoc, error) {
			e := exp
			return sgbucket.UpdatedDoc{Doc: body, Xattrs: map[string][]byte{"_sync": []byte(`{"s":4}`)}, Expiry: &e}, nil
		})
	case "SetWithMeta":
		t0 = time.Now().Unix()
		exp = uint32(t0) + lead // WithMeta takes absolute times only
		_, cas, _ := c.GetRaw(key)
		err = c.SetWithMeta(ctx, key, cas, uint64(time.Now().UnixNano()), exp, nil, body, sgbucket.FeedDataTypeJSON)
	case "WriteSubDoc-then-Touch":
		if _, err = c.WriteSubDoc(ctx, key, "p", 0, []byte(`1`)); err == nil {
			t0 = time.Now().Unix()
			exp = abs(t0, lead, relative)
			_, err = c.Touch(key, exp)
		}
	case "Add-over-tombstone":
		if err = pre(); err == nil {
			if err = c.Delete(key); err == nil {
				t0 = time.Now().Unix()
				exp = abs(t0, lead, relative)
				_, err = c.Add(key, exp, body)
			}
		}
	case "Set-over-tombstone":
		if err = pre(); err == nil {
			if err = c.Delete(key); err == nil {
				t0 = time.Now().Unix()
				exp = abs(t0, lead, relative)
				err = c.Set(key, exp, nil, body)
			}
		}
	default:
		err = fmt.Errorf("unknown introducer %s", intro)
	}
	t1 = time.Now().Unix()
	return
}

// RunOne executes one expiry scenario on its own bucket.
func RunOne(tmp string, s Spec) (res Result) {
	res.Spec = s
	res.GoneAfterMs, res.EventAfterMs = -1, -1
	name := fmt.Sprintf("rt%d_%d", os.Getpid(), serial.Add(1))
	url, dir := rosmar.InMemoryURL, ""
	if s.Disk {
		dir = filepath.Join(tmp, name)
		url = "rosmar://" + dir
	}
	ctx := context.Background()
	b, err := rosmar.OpenBucket(url, name, rosmar.CreateNew)
	if err != nil {
		res.Incon = "open: " + err.Error()
		return
	}
	defer func() {
		func() { defer func() { _ = recover() }(); _ = b.CloseAndDelete(ctx) }()
		if dir != "" {
			_ = os.RemoveAll(dir)
		}
	}()
	var cols [2]*rosmar.Collection
	cols[0] = b.DefaultDataStore().(*rosmar.Collection)
	ds, err := b.NamedDataStore(collB)
	if err != nil {
		res.Incon = "collection: " + err.Error()
		return
	}
	cols[1] = ds.(*rosmar.Collection)
	c := cols[s.Coll]
	other := cols[1-s.Coll]
	problem := func(kind, msg string) { res.Problems = append(res.Problems, kind+"|"+msg) }

	// feeds on both collections: deletion events and their arrival time
	var mu sync.Mutex
	delAt := map[string]time.Time{} // "coll/key": first deletion event newer than the set-up
	var setupCas atomic.Uint64      // CAS of the target after the set-up; deletions at or below it belong to the set-up
	term := make(chan bool)
	defer close(term)
	feedCb := func(ci int) sgbucket.FeedEventCallbackFunc {
		return func(e sgbucket.FeedEvent) bool {
			if e.Opcode == sgbucket.FeedOpDeletion {
				mu.Lock()
				k := fmt.Sprintf("%d/%s", ci, e.Key)
				if sc := setupCas.Load(); sc == 0 || e.Cas <= sc {
					mu.Unlock()
					return true // a deletion made by the set-up itself (delete + re-create), not an expiry
				}
				if _, seen := delAt[k]; !seen {
					delAt[k] = time.Now()
				}
				mu.Unlock()
			}
			return true
		}
	}
	for ci := 0; ci < 2; ci++ {
		_ = cols[ci].StartDCPFeed(ctx, sgbucket.FeedArguments{ID: fmt.Sprintf("rt%d", ci), Backfill: sgbucket.FeedNoBackfill, Terminator: term}, feedCb(ci), nil)
	}
	const key = "target"
	lead := uint32(s.Lead)
	far := lead + 8
	res.ShouldGo = true
	var t0, t1 int64
	wantAbsLo, wantAbsHi := int64(0), int64(0)
	setWant := func(l uint32) { wantAbsLo, wantAbsHi = t0+int64(l), t1+int64(l) }
	var otherColl *rosmar.Collection
	var otherErr error
	switch s.Order {
	case "only":
		t0, t1, err = introduce(c, s.Intro, key, lead, s.Relative)
		setWant(lead)
	case "later-first":
		otherColl = c
		if s.OtherIntro != "" {
			_, _, otherErr = introduce(c, s.OtherIntro, "other", far, s.Relative && s.OtherIntro != "SetWithMeta")
		} else {
			otherErr = c.Set("other", abs(time.Now().Unix(), far, s.Relative), nil, []byte(`{"o":1}`))
		}
		t0, t1, err = introduce(c, s.Intro, key, lead, s.Relative)
		setWant(lead)
	case "later-after":
		t0, t1, err = introduce(c, s.Intro, key, lead, s.Relative)
		setWant(lead)
		otherColl = other
		if s.OtherIntro != "" {
			if s.Lead%2 == 1 {
				otherColl = c
			}
			_, _, otherErr = introduce(otherColl, s.OtherIntro, "other", far, s.Relative && s.OtherIntro != "SetWithMeta")
		} else {
			otherErr = other.Set("other", abs(time.Now().Unix(), far, s.Relative), nil, []byte(`{"o":1}`))
		}
	case "shorten":
		_ = c.Set(key, abs(time.Now().Unix(), far, s.Relative), nil, []byte(`{"long":1}`))
		if s.Intro == "Add" || s.Intro == "AddRaw" || s.Intro == "WriteCas" || s.Intro == "WriteCas+raw" || s.Intro == "WriteResurrectionWithXattrs" || s.Intro == "WriteWithXattrs" || s.Intro == "Incr" {
			_ = c.Delete(key) // insert-only introducers need the key to have no body
		}
		t0, t1, err = introduce(c, s.Intro, key, lead, s.Relative)
		setWant(lead)
	case "lengthen":
		_, _, err = introduce(c, s.Intro, key, lead, s.Relative)
		if err == nil {
			t0 = time.Now().Unix()
			err = c.Set(key, abs(t0, far, s.Relative), nil, []byte(`{"longer":1}`))
			t1 = time.Now().Unix()
			setWant(far)
			res.ShouldGo = false
		}
	case "touch-shorten":
		_ = c.Set(key, abs(time.Now().Unix(), far, s.Relative), nil, []byte(`{"long":1}`))
		t0 = time.Now().Unix()
		_, err = c.Touch(key, abs(t0, lead, s.Relative))
		t1 = time.Now().Unix()
		setWant(lead)
	case "touch-lengthen":
		_, _, err = introduce(c, s.Intro, key, lead, s.Relative)
		if err == nil {
			t0 = time.Now().Unix()
			_, err = c.Touch(key, abs(t0, far, s.Relative))
			t1 = time.Now().Unix()
			setWant(far)
			res.ShouldGo = false
		}
	case "preserve":
		t0, t1, err = introduce(c, s.Intro, key, lead, s.Relative)
		setWant(lead)
		if err == nil {
			err = c.Set(key, 0, &sgbucket.UpsertOptions{PreserveExpiry: true}, []byte(`{"preserved":1}`))
		}
	case "clear":
		_, _, err = introduce(c, s.Intro, key, lead, s.Relative)
		if err == nil {
			err = c.Set(key, 0, nil, []byte(`{"cleared":1}`))
			res.ShouldGo = false
		}
	case "delete-clears":
		_, _, err = introduce(c, s.Intro, key, lead, s.Relative)
		if err == nil {
			_ = c.Delete(key)
			err = c.Set(key, 0, &sgbucket.UpsertOptions{PreserveExpiry: true}, []byte(`{"recreated":1}`))
			res.ShouldGo = false
		}
	case "past":
		t0 = time.Now().Unix()
		err = c.Set(key, uint32(t0-5), nil, []byte(`{"late":1}`))
		t1 = time.Now().Unix()
		wantAbsLo, wantAbsHi = t0-5, t0-5
	case "recreated-collection":
		// an earlier document of the named collection expires (the sweep has seen the collection), then the collection is
		// dropped and created again under the same name; the deadline under test lives in the new incarnation
		s.Coll = 1
		res.Spec = s
		c, other = cols[1], cols[0]
		_ = c.SetRaw("early", uint32(time.Now().Unix())+1, nil, []byte("e"))
		for i := 0; i < 60; i++ {
			if _, _, gerr := c.GetRaw("early"); gerr != nil {
				break
			}
			time.Sleep(100 * time.Millisecond)
		}
		if derr := b.DropDataStore(collB); derr != nil {
			res.Incon = "drop: " + derr.Error()
			return
		}
		ds2, cerr := b.NamedDataStore(collB)
		if cerr != nil {
			res.Incon = "re-create: " + cerr.Error()
			return
		}
		c = ds2.(*rosmar.Collection)
		cols[1] = c
		_ = c.StartDCPFeed(ctx, sgbucket.FeedArguments{ID: "rt1b", Backfill: sgbucket.FeedNoBackfill, Terminator: term}, feedCb(1), nil)
		t0, t1, err = introduce(c, s.Intro, key, lead, s.Relative)
		setWant(lead)
	case "after-empty-sweep":
		// the timer is armed for a decoy one second ahead; the decoy's deadline is then lengthened, cleared or the decoy
		// deleted, so the sweep at that instant finds nothing - and must still re-arm the timer for the target
		_ = c.SetRaw("decoy", uint32(time.Now().Unix())+1, nil, []byte("d"))
		switch s.Lead % 3 {
		case 0:
			_, _ = c.Touch("decoy", uint32(time.Now().Unix())+3600)
		case 1:
			_ = c.SetRaw("decoy", 0, nil, []byte("d2"))
		default:
			_ = c.Delete("decoy")
		}
		t0, t1, err = introduce(c, s.Intro, key, lead, s.Relative)
		setWant(lead)
	case "far-deadline-in-lower-collection":
		// the default collection (the lowest row id) holds a deadline an hour away; in the named collection a decoy comes
		// due one second ahead, then the target: after the decoy's sweep the timer must be re-armed for the target, the
		// bucket's next deadline, not for whatever the first collection has
		s.Coll = 1
		res.Spec = s
		c, other = cols[1], cols[0]
		_ = other.SetRaw("far-away", uint32(time.Now().Unix())+3600, nil, []byte("f"))
		_ = c.SetRaw("decoy", uint32(time.Now().Unix())+1, nil, []byte("d"))
		t0, t1, err = introduce(c, s.Intro, key, lead, s.Relative)
		setWant(lead)
	case "earlier-deadline-dropped":
		// the bucket's earliest deadline belongs to a document of the other collection, which is dropped before it
		// comes due: the sweep armed for it finds nothing to do - and the target's deadline must still be served
		s.Coll = 0
		res.Spec = s
		c, other = cols[0], cols[1]
		_ = other.SetRaw(key, uint32(time.Now().Unix())+1, nil, []byte("sooner, in the collection that goes away")) // same key name
		t0, t1, err = introduce(c, s.Intro, key, lead, s.Relative)
		setWant(lead)
		if derr := b.DropDataStore(collB); derr != nil {
			res.Incon = "drop: " + derr.Error()
			return
		}
	case "sibling-handle-closed":
		// a second handle of the bucket is opened and closed again (before or after the deadline is introduced): the
		// bucket lives on through the first handle, and so must its expiry timer
		closeSibling := func() {
			if sib, serr := rosmar.OpenBucket(url, name, rosmar.CreateOrOpen); serr == nil {
				if s.Lead%2 == 0 {
					_ = sib.DefaultDataStore().SetRaw("through-sibling", 0, nil, []byte("s"))
				}
				sib.Close(ctx)
			}
		}
		if s.Coll == 0 {
			closeSibling()
		}
		t0, t1, err = introduce(c, s.Intro, key, lead, s.Relative)
		setWant(lead)
		if s.Coll == 1 {
			closeSibling()
		}
	case "sibling-collection":
		_ = other.Set(key, 0, nil, []byte(`{"sibling":"never expires"}`)) // same key, other collection, no expiry
		_ = other.Set("sib2", abs(time.Now().Unix(), far, s.Relative), nil, []byte(`{"sibling":"later"}`))
		t0, t1, err = introduce(c, s.Intro, key, lead, s.Relative)
		setWant(lead)
	}
	if err != nil {
		res.Incon = fmt.Sprintf("set-up call failed (%s/%s): %v", s.Intro, s.Order, err)
		return
	}
	// deletions made by the set-up itself (delete + re-create) are not expiry events: they carry a CAS at or below
	// the one the target has now
	if _, casNow, gerr := c.GetRaw(key); gerr == nil {
		setupCas.Store(casNow)
	} else {
		setupCas.Store(1)
	}
	// the expiry in force, as GetExpiry reports it
	got, gerr := c.GetExpiry(ctx, key)
	if s.Order == "past" {
		// the document may already be a tombstone by now: nothing to compare
	} else if res.ShouldGo || s.Order == "lengthen" || s.Order == "touch-lengthen" {
		if gerr != nil {
			if !(s.Order == "past") { // an already-past deadline may be gone before we look
				problem("getexpiry", fmt.Sprintf("GetExpiry after %s (%s) failed: %v", s.Intro, s.Order, gerr))
			}
		} else if int64(got) < wantAbsLo || int64(got) > wantAbsHi {
			problem("getexpiry", fmt.Sprintf("after %s (%s, relative=%v) GetExpiry=%d, want within [%d,%d]", s.Intro, s.Order, s.Relative, got, wantAbsLo, wantAbsHi))
		}
	} else if gerr == nil && got != 0 {
		problem("getexpiry", fmt.Sprintf("after %s the expiry should be cleared (%s) but GetExpiry=%d", s.Intro, s.Order, got))
	}
	T := wantAbsLo
	if gerr == nil && got != 0 {
		T = int64(got)
	}
	if !res.ShouldGo {
		T = time.Now().Unix() + int64(lead) // the deadline that must NOT take effect
	}
	res.Deadline = T
	deadline := time.Unix(T, 0)
	// scheduler-lateness canary for the same instant
	var canaryLate atomic.Int64
	canaryLate.Store(-1)
	if d := time.Until(deadline); d > 0 {
		time.AfterFunc(d, func() { canaryLate.Store(time.Since(deadline).Milliseconds()) })
	} else {
		canaryLate.Store(0)
	}
	// poll with reads only until T + Bound
	end := deadline.Add(Bound)
	if now := time.Now(); deadline.Before(now) {
		end = now.Add(Bound) // an already-past deadline: the bound runs from now
	}
	for time.Now().Before(end) {
		_, _, rerr := c.GetRaw(key)
		after := time.Now()
		res.Reads++
		if rerr != nil {
			if after.Unix() < T && s.Order != "past" {
				problem("early", fmt.Sprintf("%s (%s): a read that completed at %d.%03d reported the document missing although its expiry is %d", s.Intro, s.Order, after.Unix(), after.Nanosecond()/1e6, T))
				break
			}
			if res.GoneAfterMs < 0 {
				res.GoneAfterMs = after.Sub(deadline).Milliseconds()
			}
			mu.Lock()
			_, haveEv := delAt[fmt.Sprintf("%d/%s", s.Coll, key)]
			mu.Unlock()
			if haveEv {
				break
			}
		}
		time.Sleep(15 * time.Millisecond)
	}
	res.CanaryLateMs = canaryLate.Load()
	mu.Lock()
	evAt, haveEv := delAt[fmt.Sprintf("%d/%s", s.Coll, key)]
	_, sibEv := delAt[fmt.Sprintf("%d/%s", 1-s.Coll, key)]
	mu.Unlock()
	if haveEv {
		res.EventAfterMs = evAt.Sub(deadline).Milliseconds()
	}
	starved := res.CanaryLateMs < 0 || res.CanaryLateMs > 500
	if res.ShouldGo {
		switch {
		case res.GoneAfterMs < 0:
			if starved {
				res.Incon = "scheduler starved (canary late)"
			} else {
				problem("late", fmt.Sprintf("%s (%s, %s): the document (expiry %d) was still readable %s after its deadline with no client activity", s.Intro, s.Order, ifs(s.Relative, "relative", "absolute"), T, Bound))
			}
		case !haveEv && s.Order != "past":
			if starved {
				res.Incon = "scheduler starved (canary late)"
			} else {
				problem("noevent", fmt.Sprintf("%s (%s): the document expired but no deletion event reached the feed within %s", s.Intro, s.Order, Bound))
			}
		case haveEv && evAt.Unix() < T && s.Order != "past":
			problem("early", fmt.Sprintf("%s (%s): the deletion event arrived at %d, before the expiry %d", s.Intro, s.Order, evAt.Unix(), T))
		}
	} else {
		if _, _, rerr := c.GetRaw(key); rerr != nil {
			problem("wrongly-expired", fmt.Sprintf("%s (%s): the expiry was %s by the most recent write, yet the document disappeared at the old deadline", s.Intro, s.Order, ifs(s.Order == "lengthen" || s.Order == "touch-lengthen", "lengthened", "cleared")))
		}
	}
	if s.Order == "sibling-collection" {
		if _, _, rerr := other.GetRaw(key); rerr != nil || sibEv {
			problem("sibling", fmt.Sprintf("%s: the same key in the other collection (no expiry) was deleted when this collection's copy expired", s.Intro))
		}
		if _, _, rerr := other.GetRaw("sib2"); rerr != nil {
			problem("sibling", "a document of the other collection with a later deadline was deleted early")
		}
	}
	if (s.Order == "later-first" || s.Order == "later-after") && otherColl != nil && otherErr == nil {
		if _, _, rerr := otherColl.GetRaw("other"); rerr != nil {
			problem("early", "the document with the later deadline was deleted together with the earlier one")
		}
	}
	return
}

func ifs(c bool, a, b string) string {
	if c {
		return a
	}
	return b
}

// SweepRace: many documents share one deadline, so the expiry sweep that starts at that instant runs for a while;
// while it runs, the target (due at the same instant) is rewritten without expiry / with a far one, or touched to a
// far deadline. The rewrite is acknowledged, so from then on the expiry in force is the new one: the document must
// stay readable although the sweep had already collected its key.
type SweepRaceResult struct {
	Disk     bool     `json:"disk"`
	Variant  string   `json:"variant"`
	Bulk     int      `json:"bulk"`
	Rewrote  bool     `json:"rewroteDuringSweep"`
	Problems []string `json:"problems"`
	Incon    string   `json:"inconclusive,omitempty"`
}

var SweepVariants = []string{"Set-exp0", "SetRaw-far", "Touch-far", "WriteCas-exp0", "Update-exp0"}

func RunSweepRace(tmp string, disk bool, variant string, bulk int) (res SweepRaceResult) {
	res.Disk, res.Variant, res.Bulk = disk, variant, bulk
	name := fmt.Sprintf("rs%d_%d", os.Getpid(), serial.Add(1))
	url, dir := rosmar.InMemoryURL, ""
	if disk {
		dir = filepath.Join(tmp, name)
		url = "rosmar://" + dir
	}
	ctx := context.Background()
	b, err := rosmar.OpenBucket(url, name, rosmar.CreateNew)
	if err != nil {
		res.Incon = "open: " + err.Error()
		return
	}
	defer func() {
		func() { defer func() { _ = recover() }(); _ = b.CloseAndDelete(ctx) }()
		if dir != "" {
			_ = os.RemoveAll(dir)
		}
	}()
	c := b.DefaultDataStore().(*rosmar.Collection)
	T := uint32(time.Now().Unix()) + 3
	for i := 0; i < bulk; i++ {
		if err := c.SetRaw(fmt.Sprintf("a%05d", i), T, nil, []byte("x")); err != nil {
			res.Incon = "bulk write: " + err.Error()
			return
		}
	}
	const target = "zzz-target"
	if err := c.SetRaw(target, T, nil, []byte(`{"v":"old"}`)); err != nil {
		res.Incon = "target write: " + err.Error()
		return
	}
	if uint32(time.Now().Unix()) >= T {
		res.Incon = "set-up took longer than the deadline"
		return
	}
	// wait until the sweep has started (its first victim is gone)
	start := time.Now()
	for {
		if _, _, gerr := c.GetRaw("a00000"); gerr != nil {
			break
		}
		if time.Since(start) > 15*time.Second {
			res.Incon = "the sweep did not start within 15 s"
			return
		}
		time.Sleep(200 * time.Microsecond)
	}
	far := uint32(time.Now().Unix()) + 3600
	fresh := []byte(`{"v":"fresh"}`)
	switch variant {
	case "Set-exp0":
		err = c.Set(target, 0, nil, fresh)
	case "SetRaw-far":
		err = c.SetRaw(target, far, nil, fresh)
	case "Touch-far":
		fresh = []byte(`{"v":"old"}`)
		_, err = c.Touch(target, far)
	case "WriteCas-exp0":
		var cas uint64
		if _, cas, err = c.GetRaw(target); err == nil {
			_, err = c.WriteCas(target, 0, cas, fresh, 0)
		}
	case "Update-exp0":
		_, err = c.Update(target, 0, func(cur []byte) ([]byte, *uint32, bool, error) { return fresh, nil, false, nil })
	}
	if err != nil {
		res.Incon = "the target was already swept when the rewrite arrived: " + err.Error()
		return
	}
	res.Rewrote = true
	// the rewrite was acknowledged: from here on the document has no (near) expiry
	deadline := time.Now().Add(2 * time.Second)
	for time.Now().Before(deadline) {
		raw, _, gerr := c.GetRaw(target)
		if gerr != nil {
			res.Problems = append(res.Problems, fmt.Sprintf("wrongly-expired|%s of the target was acknowledged while the expiry sweep for its old deadline was running, yet %s later the document is gone (%v): the sweep deleted a key it had collected earlier without looking at its expiry again", variant, time.Since(start).Round(time.Millisecond), gerr))
			return
		}
		if string(raw) != string(fresh) {
			res.Problems = append(res.Problems, fmt.Sprintf("wrong-body|after %s the target reads %q", variant, raw))
			return
		}
		time.Sleep(20 * time.Millisecond)
	}
	return
}

// TombstoneExpiry: a document is deleted through an entry point that also takes an expiry (Update with a deleting
// callback, WriteCas without a body). Delete clears the expiry: nothing may happen to the key at that time - no
// second deletion event, no new CAS.
type TombstoneExpiryResult struct {
	Disk      bool     `json:"disk"`
	Variant   string   `json:"variant"`
	Deletions int      `json:"deletionEvents"`
	Problems  []string `json:"problems"`
	Incon     string   `json:"inconclusive,omitempty"`
}

var TombstoneVariants = []string{"Update-delete", "WriteCas-nil", "Update-delete-relative",
	// the document itself carries the near expiry and is deleted through an entry point without an expiry argument
	"Delete-of-expiring", "Remove-of-expiring", "DeleteWithXattrs-of-expiring", "WriteTombstoneWithXattrs-of-expiring", "Update-delete-of-expiring",
	// ... or through an entry point that creates a tombstone and takes an expiry argument of its own
	"WriteTombstoneWithXattrs-exp-arg", "UpdateXattrDeleteBody-exp-arg", "DeleteWithMeta-exp-arg"}

func RunTombstoneExpiry(tmp string, disk bool, variant string) (res TombstoneExpiryResult) {
	res.Disk, res.Variant = disk, variant
	name := fmt.Sprintf("rx%d_%d", os.Getpid(), serial.Add(1))
	url, dir := rosmar.InMemoryURL, ""
	if disk {
		dir = filepath.Join(tmp, name)
		url = "rosmar://" + dir
	}
	ctx := context.Background()
	b, err := rosmar.OpenBucket(url, name, rosmar.CreateNew)
	if err != nil {
		res.Incon = "open: " + err.Error()
		return
	}
	defer func() {
		func() { defer func() { _ = recover() }(); _ = b.CloseAndDelete(ctx) }()
		if dir != "" {
			_ = os.RemoveAll(dir)
		}
	}()
	c := b.DefaultDataStore().(*rosmar.Collection)
	var mu sync.Mutex
	var dels []uint64
	term := make(chan bool)
	defer close(term)
	_ = c.StartDCPFeed(ctx, sgbucket.FeedArguments{ID: "rx", Backfill: sgbucket.FeedNoBackfill, Terminator: term}, func(e sgbucket.FeedEvent) bool {
		if string(e.Key) == "k" && e.Opcode == sgbucket.FeedOpDeletion {
			mu.Lock()
			dels = append(dels, e.Cas)
			mu.Unlock()
		}
		return true
	}, nil)
	exp := uint32(time.Now().Unix()) + 2
	setupExp := uint32(0)
	if strings.HasSuffix(variant, "-of-expiring") {
		setupExp = exp
	}
	if _, err = c.WriteWithXattrs(ctx, "k", setupExp, 0, []byte(`{"v":1}`), map[string][]byte{"_sync": []byte(`{"s":1}`), "u1": []byte(`{"u":1}`)}, nil, nil); err != nil {
		res.Incon = "set-up: " + err.Error()
		return
	}
	switch variant {
	case "Delete-of-expiring":
		err = c.Delete("k")
	case "Remove-of-expiring":
		var cas uint64
		if _, cas, err = c.GetRaw("k"); err == nil {
			_, err = c.Remove("k", cas)
		}
	case "DeleteWithXattrs-of-expiring":
		err = c.DeleteWithXattrs(ctx, "k", []string{"u1"})
	case "WriteTombstoneWithXattrs-of-expiring":
		var cas uint64
		if _, cas, err = c.GetRaw("k"); err == nil {
			_, err = c.WriteTombstoneWithXattrs(ctx, "k", 0, cas, map[string][]byte{"_sync": []byte(`{"s":2}`)}, nil, true, nil)
		}
	case "Update-delete-of-expiring":
		_, err = c.Update("k", 0, func(cur []byte) ([]byte, *uint32, bool, error) { return nil, nil, true, nil })
	case "WriteTombstoneWithXattrs-exp-arg":
		var cas uint64
		if _, cas, err = c.GetRaw("k"); err == nil {
			_, err = c.WriteTombstoneWithXattrs(ctx, "k", exp, cas, map[string][]byte{"_sync": []byte(`{"s":2}`)}, nil, true, nil)
		}
	case "UpdateXattrDeleteBody-exp-arg":
		var cas uint64
		if _, cas, err = c.GetRaw("k"); err == nil {
			_, err = c.UpdateXattrDeleteBody(ctx, "k", "_sync", exp, cas, map[string]any{"s": 3}, nil)
		}
	case "DeleteWithMeta-exp-arg":
		var cas uint64
		if _, cas, err = c.GetRaw("k"); err == nil {
			err = c.DeleteWithMeta(ctx, "k", cas, cas+0x10000, exp, []byte(`{"_sync":{"s":4}}`))
		}
	case "Update-delete":
		_, err = c.Update("k", exp, func(cur []byte) ([]byte, *uint32, bool, error) { return nil, nil, true, nil })
	case "Update-delete-relative":
		_, err = c.Update("k", 2, func(cur []byte) ([]byte, *uint32, bool, error) { return nil, nil, true, nil })
	case "WriteCas-nil":
		var cas uint64
		if _, cas, err = c.GetRaw("k"); err == nil {
			_, err = c.WriteCas("k", exp, cas, nil, 0)
		}
	}
	if err != nil {
		res.Incon = "the deleting call failed: " + err.Error()
		return
	}
	_, _, casBefore, _ := c.GetWithXattrs(ctx, "k", []string{"_sync"})
	time.Sleep(time.Until(time.Unix(int64(exp), 0).Add(Bound)))
	_, _, casAfter, _ := c.GetWithXattrs(ctx, "k", []string{"_sync"})
	mu.Lock()
	res.Deletions = len(dels)
	mu.Unlock()
	if res.Deletions > 1 {
		res.Problems = append(res.Problems, fmt.Sprintf("spurious-deletion|%s deleted the document (expiry %d, carried by the call or by the document); at that time the tombstone was deleted again by the expiry timer: %d deletion events reached the feed for one deletion", variant, exp, res.Deletions))
	}
	if casBefore != 0 && casAfter != casBefore {
		res.Problems = append(res.Problems, fmt.Sprintf("tombstone-cas-changed|%s deleted the document; without any client activity the tombstone's CAS changed from %d to %d when the deleted document's expiry argument came due", variant, casBefore, casAfter))
	}
	return
}
