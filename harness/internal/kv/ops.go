// Package kv is engine A (sequential differential simulation): op descriptors, executor, full
// read-back, the executable sequential specification, and the judges that compare them.
package kv

import (
	"context"
	"encoding/json"
	"errors"
	"fmt"
	"runtime"
	"strings"

	sgbucket "github.com/couchbase/sg-bucket"
	"github.com/couchbaselabs/rosmar"
)

// Op kinds.
const (
	KAdd       = "Add"
	KAddRaw    = "AddRaw"
	KSet       = "Set"
	KSetRaw    = "SetRaw"
	KWriteCas  = "WriteCas"
	KRemove    = "Remove"
	KDelete    = "Delete"
	KUpdate    = "Update"
	KIncr      = "Incr"
	KTouch     = "Touch"
	KGetTouch  = "GetAndTouchRaw"
	KSetX      = "SetXattrs"
	KRemoveX   = "RemoveXattrs"
	KDelPaths  = "DeleteSubDocPaths"
	KUpdateX   = "UpdateXattrs"
	KWriteWX   = "WriteWithXattrs"
	KWriteTomb = "WriteTombstoneWithXattrs"
	KWriteRes  = "WriteResurrectionWithXattrs"
	KWriteUpd  = "WriteUpdateWithXattrs"
	KDeleteWX  = "DeleteWithXattrs"
	KSetMeta   = "SetWithMeta"
	KDelMeta   = "DeleteWithMeta"
	KWriteSub  = "WriteSubDoc"
	KSubInsert = "SubdocInsert"
	KPurge     = "PurgeTombstones"
	KDropColl  = "DropDataStore" // drop + re-create the addressed (non-default) collection
	KGetSub    = "GetSubDocRaw"  // read-only probe judged by C18
)

// CAS argument classes.
const (
	CasZero    = "zero"
	CasCurrent = "current"
	CasStale   = "stale" // a CAS this key had earlier (or current-1 if it never had another)
	CasBogus   = "bogus" // never issued: current+1, 1<<40, another key's CAS
)

type Macro struct {
	Path string `json:"path"`
	Type int    `json:"type"` // 0 = CAS, 1 = crc32c
}

// Op is a JSON-serialisable operation descriptor.
type Op struct {
	Kind        string            `json:"kind"`
	Bucket      int               `json:"b,omitempty"`
	Handle      int               `json:"h,omitempty"`
	Coll        int               `json:"c"`
	Key         string            `json:"key,omitempty"`
	Body        []byte            `json:"body"` // raw bytes of the body (JSON text for JSON ops); an empty non-nil body is still a body
	BodyNil     bool              `json:"bodyNil,omitempty"`
	Legacy      bool              `json:"legacy,omitempty"` // KWriteTomb through the older single-xattr entry point UpdateXattrDeleteBody
	Exp         uint32            `json:"exp,omitempty"`
	Preserve    bool              `json:"preserve,omitempty"`
	CasClass    string            `json:"casClass,omitempty"`
	Cas         uint64            `json:"cas,omitempty"` // resolved at execution time
	Raw         bool              `json:"raw,omitempty"`
	AddOnly     bool              `json:"addOnly,omitempty"`
	Flags       int               `json:"flags,omitempty"` // further WriteOptions bits (Persist, Indexable) OR-ed in
	Append      bool              `json:"append,omitempty"`
	X           map[string]string `json:"x,omitempty"`          // xattrs to set: name -> raw JSON
	XDel        []string          `json:"xdel,omitempty"`       // xattrs to delete / names for Remove/DeleteWithXattrs
	XDelNonNil  bool              `json:"xdelNonNil,omitempty"` // pass an empty non-nil slice
	DelBody     bool              `json:"delBody,omitempty"`
	Macros      []Macro           `json:"macros,omitempty"`
	Path        string            `json:"path,omitempty"`
	Amt         uint64            `json:"amt,omitempty"`
	Def         uint64            `json:"def,omitempty"`
	Mode        string            `json:"mode,omitempty"` // Update / WriteUpdateWithXattrs callback behaviour
	CbExp       *uint32           `json:"cbExp,omitempty"`
	NewCas      uint64            `json:"newCas,omitempty"` // WithMeta
	NewCasClass string            `json:"newCasClass,omitempty"`
	JSON        bool              `json:"json,omitempty"`     // WithMeta datatype
	XRaw        []byte            `json:"xraw,omitempty"`     // WithMeta xattrs blob
	BadJSONX    bool              `json:"badJsonX,omitempty"` // an unparseable xattr value is injected
	BadMacro    bool              `json:"badMacro,omitempty"` // a macro-expansion path that names the xattr itself, without a property inside it
	BadName     bool              `json:"badName,omitempty"`  // an unsupported xattr path ("_b.sub") is put in the middle of the name list
	SpecInCb    bool              `json:"specInCb,omitempty"` // WriteUpdateWithXattrs: macros are returned by the callback (UpdatedDoc.Spec), not passed in the options
}

// Variant is a short label identifying the op shape for coverage cells and signatures.
func (o *Op) Variant() string {
	var sb strings.Builder
	sb.WriteString(o.Kind)
	switch o.Kind {
	case KWriteCas:
		if o.Raw {
			sb.WriteString("+raw")
		}
		if o.AddOnly {
			sb.WriteString("+addonly")
		}
		if o.Append {
			sb.WriteString("+append")
		}
		if o.BodyNil {
			sb.WriteString("+nil")
		}
		if o.Flags != 0 {
			sb.WriteString("+persist/indexable")
		}
	case KUpdate, KWriteUpd:
		sb.WriteString(":" + o.Mode)
	case KWriteTomb:
		if o.DelBody {
			sb.WriteString("+delbody")
		}
		if o.Legacy {
			sb.WriteString("+legacy")
		}
	case KWriteWX:
		if o.BodyNil {
			sb.WriteString("+nobody")
		}
	}
	if o.CasClass != "" {
		sb.WriteString("@" + o.CasClass)
	}
	if o.Preserve {
		sb.WriteString("+preserve")
	}
	if len(o.XDel) > 0 && o.Kind != KRemoveX && o.Kind != KDelPaths && o.Kind != KDeleteWX {
		sb.WriteString("+xdel")
	}
	if len(o.Macros) > 0 {
		sb.WriteString("+macro")
	}
	if o.BadJSONX {
		sb.WriteString("+badjson")
	}
	if o.BadName {
		sb.WriteString("+badname")
	}
	if o.BadMacro {
		sb.WriteString("+badmacro")
	}
	if o.SpecInCb {
		sb.WriteString("+cbspec")
	}
	return sb.String()
}

// Result of executing an op.
type Result struct {
	Err     string   `json:"err,omitempty"` // "" on success, else error class
	ErrMsg  string   `json:"errMsg,omitempty"`
	CasOut  uint64   `json:"casOut,omitempty"`
	HasCas  bool     `json:"hasCas,omitempty"` // the entry point returns a CAS
	Added   bool     `json:"added,omitempty"`
	IsAdd   bool     `json:"isAdd,omitempty"`
	Val     []byte   `json:"val,omitempty"`
	Num     uint64   `json:"num,omitempty"`
	Count   int64    `json:"count,omitempty"`
	CbCalls int      `json:"cbCalls,omitempty"`
	CbSaw   []CbView `json:"cbSaw,omitempty"`
	T0, T1  int64    `json:"-"` // unix seconds around the call
	Stack   string   `json:"stack,omitempty"`
}

// CbView is what an Update / WriteUpdateWithXattrs callback was shown.
type CbView struct {
	Body []byte            `json:"body"`
	X    map[string]string `json:"x,omitempty"`
	Cas  uint64            `json:"cas"`
}

// OK reports whether the call succeeded (for Add: added==true).
func (r *Result) OK() bool { return r.Err == "" && (!r.IsAdd || r.Added) }

// Refused reports a clean refusal (error, or added=false).
func (r *Result) Refused() bool { return !r.OK() && !strings.HasPrefix(r.Err, "panic") }

// ErrClass maps an error to a stable class name.
func ErrClass(err error) string {
	if err == nil {
		return ""
	}
	var me sgbucket.MissingError
	var cm sgbucket.CasMismatchErr
	var xm sgbucket.XattrMissingError
	var tb sgbucket.DocTooBigErr
	var de *rosmar.DatabaseError
	var ue *rosmar.ErrUnimplemented
	switch {
	case errors.As(err, &me):
		return "missing"
	case errors.As(err, &cm):
		return "casmismatch"
	case errors.Is(err, sgbucket.ErrKeyExists):
		return "keyexists"
	case errors.As(err, &xm):
		return "xattrmissing"
	case errors.As(err, &tb):
		return "toobig"
	case errors.Is(err, sgbucket.ErrPathNotFound):
		return "pathnotfound"
	case errors.Is(err, sgbucket.ErrPathExists):
		return "pathexists"
	case errors.Is(err, sgbucket.ErrPathMismatch):
		return "pathmismatch"
	case errors.Is(err, rosmar.ErrBucketClosed):
		return "closed"
	case errors.Is(err, sgbucket.ErrNeedXattrs):
		return "needxattrs"
	case errors.Is(err, sgbucket.ErrNilXattrValue):
		return "nilxattr"
	case errors.Is(err, sgbucket.ErrDeleteXattrOnDocumentInsert):
		return "delxattroninsert"
	case errors.Is(err, sgbucket.ErrUpsertAndDeleteSameXattr):
		return "upsertanddelete"
	case errors.Is(err, sgbucket.ErrNeedBody):
		return "needbody"
	case errors.Is(err, sgbucket.ErrDeleteXattrOnTombstone):
		return "delxattrontombstone"
	case errors.Is(err, errCallback):
		return "callback"
	case errors.As(err, &de):
		return "db"
	case errors.As(err, &ue):
		return "unimplemented"
	}
	return "other"
}

var errCallback = errors.New("callback says no")

func xbytes(m map[string]string) map[string][]byte {
	if m == nil {
		return nil
	}
	out := make(map[string][]byte, len(m))
	for k, v := range m {
		out[k] = []byte(v)
	}
	return out
}

// xarg builds the xattr argument of an op; with BadJSONX one value is replaced by unparseable JSON.
func xarg(o *Op) map[string][]byte {
	out := xbytes(o.X)
	if o.BadJSONX {
		if out == nil {
			out = map[string][]byte{}
		}
		name := "_x"
		for _, n := range XattrPool {
			if _, ok := out[n]; ok {
				name = n
				break
			}
		}
		// unparseable in different ways: cut short, a surplus closing brace / bracket after a complete value, trailing text
		bad := []string{`{"unterminated": [1, 2`, `{"rev":"2-b"}}`, `[1,2,3]]`, `{"a":1} ]`, `{"a":1} x`, `{"a":1}{"b":2}`}
		out[name] = []byte(bad[(len(o.Key)+len(o.X)+len(name)+int(o.Exp%7))%len(bad)])
	}
	return out
}

func xstrings(m map[string][]byte) map[string]string {
	if len(m) == 0 {
		return nil
	}
	out := make(map[string]string, len(m))
	for k, v := range m {
		out[k] = string(v)
	}
	return out
}

func mutateOpts(o *Op, always bool) *sgbucket.MutateInOptions {
	if !o.Preserve && len(o.Macros) == 0 && !always {
		return nil
	}
	mo := &sgbucket.MutateInOptions{PreserveExpiry: o.Preserve}
	for _, m := range o.Macros {
		mo.MacroExpansion = append(mo.MacroExpansion, sgbucket.NewMacroExpansionSpec(m.Path, sgbucket.MacroExpansionType(m.Type)))
	}
	return mo
}

const badXattrName = "_b.sub"

// names returns the xattr name list of the op; with BadName an unsupported path sits after the first name.
func (o *Op) names() []string {
	if !o.BadName || len(o.XDel) == 0 {
		return o.XDel
	}
	out := []string{o.XDel[0], badXattrName}
	return append(out, o.XDel[1:]...)
}

func (o *Op) xdelArg() []string {
	if len(o.XDel) > 0 {
		return o.XDel
	}
	if o.XDelNonNil {
		return []string{}
	}
	return nil
}

// Exec runs the op against the collection (and bucket, for bucket-level ops) under recover().
func Exec(b *rosmar.Bucket, c *rosmar.Collection, o *Op) (res Result) {
	ctx := context.Background()
	defer func() {
		if r := recover(); r != nil {
			buf := make([]byte, 8192)
			buf = buf[:runtime.Stack(buf, false)]
			res.Err = "panic"
			res.ErrMsg = fmt.Sprint(r)
			res.Stack = string(buf)
		}
	}()
	var err error
	// The call gets a buffer of its own which is overwritten as soon as the call has returned, the way a caller
	// re-using its buffer would: whatever rosmar keeps of the write (stored document, feed event) must not change.
	var body []byte
	if o.Body != nil {
		body = append(make([]byte, 0, len(o.Body)), o.Body...)
		scratch := body
		defer func() {
			for i := range scratch {
				scratch[i] = '#'
			}
		}()
	}
	switch o.Kind {
	case KAdd:
		res.IsAdd = true
		res.Added, err = c.Add(o.Key, o.Exp, body) // []byte is stored as-is and flagged JSON
	case KAddRaw:
		res.IsAdd = true
		res.Added, err = c.AddRaw(o.Key, o.Exp, body)
	case KSet:
		var opts *sgbucket.UpsertOptions
		if o.Preserve {
			opts = &sgbucket.UpsertOptions{PreserveExpiry: true}
		}
		err = c.Set(o.Key, o.Exp, opts, body)
	case KSetRaw:
		var opts *sgbucket.UpsertOptions
		if o.Preserve {
			opts = &sgbucket.UpsertOptions{PreserveExpiry: true}
		}
		err = c.SetRaw(o.Key, o.Exp, opts, body)
	case KWriteCas:
		var opt sgbucket.WriteOptions
		if o.Raw {
			opt |= sgbucket.Raw
		}
		if o.AddOnly {
			opt |= sgbucket.AddOnly
		}
		if o.Append {
			opt |= sgbucket.Append
		}
		opt |= sgbucket.WriteOptions(o.Flags) // Persist / Indexable: no meaning in rosmar, must change nothing
		res.HasCas = true
		var v any = body
		if o.BodyNil {
			v = nil
		}
		res.CasOut, err = c.WriteCas(o.Key, o.Exp, o.Cas, v, opt)
	case KRemove:
		res.HasCas = true
		res.CasOut, err = c.Remove(o.Key, o.Cas)
	case KDelete:
		err = c.Delete(o.Key)
	case KUpdate:
		res.HasCas = true
		calls := 0
		res.CasOut, err = c.Update(o.Key, o.Exp, func(cur []byte) ([]byte, *uint32, bool, error) {
			calls++
			res.CbSaw = append(res.CbSaw, CbView{Body: append([]byte(nil), cur...)})
			if cur == nil {
				res.CbSaw[len(res.CbSaw)-1].Body = nil
			}
			switch o.Mode {
			case "set":
				return body, o.CbExp, false, nil
			case "delete":
				return nil, nil, true, nil
			case "cancel":
				return nil, nil, false, nil
			case "error":
				return nil, nil, false, errCallback
			case "exponly":
				return nil, o.CbExp, false, nil
			case "retryonce":
				if calls == 1 {
					return nil, nil, false, sgbucket.ErrCasFailureShouldRetry
				}
				return body, o.CbExp, false, nil
			}
			return nil, nil, false, errCallback
		})
		res.CbCalls = calls
		if o.Mode == "cancel" || o.Mode == "error" {
			res.HasCas = false
		}
	case KIncr:
		res.Num, err = c.Incr(o.Key, o.Amt, o.Def, o.Exp)
	case KTouch:
		res.HasCas = false // returns the (possibly unchanged) CAS; recorded but judged per §3.8
		res.CasOut, err = c.Touch(o.Key, o.Exp)
	case KGetTouch:
		res.Val, res.CasOut, err = c.GetAndTouchRaw(o.Key, o.Exp)
	case KSetX:
		res.HasCas = true
		res.CasOut, err = c.SetXattrs(ctx, o.Key, xarg(o))
	case KRemoveX:
		err = c.RemoveXattrs(ctx, o.Key, o.names(), o.Cas)
	case KDelPaths:
		err = c.DeleteSubDocPaths(ctx, o.Key, o.names()...)
	case KUpdateX:
		res.HasCas = true
		res.CasOut, err = c.UpdateXattrs(ctx, o.Key, o.Exp, o.Cas, xarg(o), mutateOpts(o, false))
	case KWriteWX:
		res.HasCas = true
		var v []byte = body
		if o.BodyNil {
			v = nil
		}
		res.CasOut, err = c.WriteWithXattrs(ctx, o.Key, o.Exp, o.Cas, v, xarg(o), o.xdelArg(), mutateOpts(o, false))
	case KWriteTomb:
		res.HasCas = true
		if o.Legacy && len(o.X) == 1 && len(o.XDel) == 0 && !o.DelBody && !o.BadJSONX {
			// the same write through UpdateXattrDeleteBody (one xattr, handed over as a parsed value)
			for name, val := range o.X {
				// (decoded with number literals kept: a float64 decode here would round them before rosmar sees them)
				var pv any
				if decodeExact([]byte(val), &pv) != nil {
					pv = json.RawMessage(val)
				}
				res.CasOut, err = c.UpdateXattrDeleteBody(ctx, o.Key, name, o.Exp, o.Cas, pv, mutateOpts(o, false))
			}
			break
		}
		res.CasOut, err = c.WriteTombstoneWithXattrs(ctx, o.Key, o.Exp, o.Cas, xarg(o), o.xdelArg(), o.DelBody, mutateOpts(o, false))
	case KWriteRes:
		res.HasCas = true
		res.CasOut, err = c.WriteResurrectionWithXattrs(ctx, o.Key, o.Exp, body, xarg(o), mutateOpts(o, false))
	case KWriteUpd:
		res.HasCas = true
		calls := 0
		names := append([]string(nil), XattrPool...)
		wopts := mutateOpts(o, true)
		var cbSpec []sgbucket.MacroExpansionSpec
		if o.SpecInCb {
			cbSpec, wopts.MacroExpansion = wopts.MacroExpansion, nil
		}
		res.CasOut, err = c.WriteUpdateWithXattrs(ctx, o.Key, names, 0, nil, wopts,
			func(doc []byte, xattrs map[string][]byte, cas uint64) (sgbucket.UpdatedDoc, error) {
				calls++
				cv := CbView{Body: append([]byte(nil), doc...), X: xstrings(xattrs), Cas: cas}
				if doc == nil {
					cv.Body = nil
				}
				res.CbSaw = append(res.CbSaw, cv)
				ud := sgbucket.UpdatedDoc{Xattrs: xarg(o), XattrsToDelete: o.xdelArg(), Expiry: o.CbExp, Spec: cbSpec}
				switch o.Mode {
				case "body": // body + xattrs
					ud.Doc = body
				case "xonly": // xattrs only
				case "tomb":
					ud.IsTombstone = true
				case "error":
					return sgbucket.UpdatedDoc{}, errCallback
				case "retryonce":
					if calls == 1 {
						return sgbucket.UpdatedDoc{}, sgbucket.ErrCasFailureShouldRetry
					}
					ud.Doc = body
				}
				return ud, nil
			})
		res.CbCalls = calls
		if o.Mode == "error" {
			res.HasCas = false
		}
	case KDeleteWX:
		err = c.DeleteWithXattrs(ctx, o.Key, o.names())
	case KSetMeta:
		var dt sgbucket.FeedDataType = sgbucket.FeedDataTypeRaw
		if o.JSON {
			dt = sgbucket.FeedDataTypeJSON
		}
		err = c.SetWithMeta(ctx, o.Key, o.Cas, o.NewCas, o.Exp, o.XRaw, body, dt)
	case KDelMeta:
		err = c.DeleteWithMeta(ctx, o.Key, o.Cas, o.NewCas, o.Exp, o.XRaw)
	case KWriteSub:
		res.HasCas = true
		res.CasOut, err = c.WriteSubDoc(ctx, o.Key, o.Path, o.Cas, body)
	case KSubInsert:
		var v any = json.RawMessage(body) // handed over verbatim: the harness must not round numbers itself
		if !json.Valid(body) {
			v = string(body)
		}
		err = c.SubdocInsert(ctx, o.Key, o.Path, o.Cas, v)
	case KGetSub:
		res.Val, res.CasOut, err = c.GetSubDocRaw(ctx, o.Key, o.Path)
	case KPurge:
		res.Count, err = b.PurgeTombstones()
	default:
		err = fmt.Errorf("harness: unknown op kind %q", o.Kind)
	}
	if err != nil {
		res.Err = ErrClass(err)
		res.ErrMsg = err.Error()
		if len(res.ErrMsg) > 200 {
			res.ErrMsg = res.ErrMsg[:200]
		}
	}
	return res
}

// XattrPool is the set of xattr names used by generators; read-backs always request all of them.
var XattrPool = []string{"_sync", "_vv", "_x", "_x2", "u1", "u2"} // "_x" is a proper prefix of "_x2"

func isSystemXattr(name string) bool { return name != "" && name[0] == '_' }

// IsConditional: the op carries an expected CAS (C02's list).
func (o *Op) IsConditional() bool {
	switch o.Kind {
	case KWriteCas, KRemove, KWriteWX, KWriteTomb, KUpdateX, KRemoveX, KSetMeta, KDelMeta, KWriteSub, KSubInsert:
		return true
	}
	return false
}

// IsInsertStyle: C06's list.
func (o *Op) IsInsertStyle() bool {
	switch o.Kind {
	case KAdd, KAddRaw, KWriteRes:
		return true
	case KWriteCas:
		return !o.Append && !o.BodyNil && (o.AddOnly || o.CasClass == CasZero)
	case KWriteWX:
		return o.CasClass == CasZero && !o.BodyNil
	}
	return false
}

// IsXattrOp: C07's list of xattr entry points.
func (o *Op) IsXattrOp() bool {
	switch o.Kind {
	case KSetX, KUpdateX, KRemoveX, KDelPaths, KWriteWX, KWriteTomb, KWriteRes, KWriteUpd, KDeleteWX:
		return true
	}
	return false
}

func (o *Op) IsSubdoc() bool { return o.Kind == KWriteSub || o.Kind == KSubInsert }

// IsDeletePath: one of C05's delete paths.
func (o *Op) IsDeletePath() bool {
	switch o.Kind {
	case KDelete, KRemove, KDeleteWX, KWriteTomb, KDelMeta:
		return true
	case KUpdate:
		return o.Mode == "delete"
	case KWriteUpd:
		return o.Mode == "tomb"
	case KWriteCas:
		return o.BodyNil
	}
	return false
}
