package kv

import (
	"bytes"
	"context"
	"encoding/json"
	"fmt"
	"sort"
	"strings"
	"time"

	"verifharness/internal/rng"
	"verifharness/internal/sup"

	"github.com/couchbaselabs/rosmar"
)

const MarkerKey = "~m"

type DocKey struct {
	B, C int
	K    string
}

func (k DocKey) String() string { return fmt.Sprintf("b%d/c%d/%s", k.B, k.C, k.K) }

type SimOptions struct {
	JudgeEvents  bool // compare live events (C08, and the opcode/rev observers of C05/C17)
	DumpEachStep bool // run a Dump backfill of the touched collection after every step (C05/C09/C17 observers)
	IsoEachStep  bool // re-read the same key name in every other collection/bucket after each step (C11)
	Keys         []string
}

// Sim drives one scenario: real buckets + model + judges.
type Sim struct {
	Env     *Env
	R       *rng.R
	Ctx     *sup.Ctx
	RunProp string
	Opt     SimOptions

	Model   map[DocKey]*Doc
	Last    map[DocKey]Obs
	LastMut map[DocKey]string
	Log     []Step
	MaxCas  uint64
	nsteps  int
	curOp   *Op
	curPre  string
	collIDs map[[2]int]uint32
	dumpN   int
	liveEv  map[DocKey]Ev // newest live event per key, as delivered to a value-carrying feed
	liveKO  map[DocKey]Ev // newest live event per key, as delivered to a KeysOnly feed
	viewN   int
	// OnIntent / OnAck let the crash engine stream every operation before it is invoked and after it returned.
	OnIntent func(op *Op)
	OnAck    func(st *Step, doc *Doc)
	views    map[[2]int]*viewState
	freshN   int
}

func NewSim(ctx *sup.Ctx, r *rng.R, cfg Config, opt SimOptions) (*Sim, error) {
	env, err := NewEnv(cfg, ctx.Tmp)
	if err != nil {
		return nil, err
	}
	s := &Sim{Env: env, R: r, Ctx: ctx, RunProp: ctx.Prop, Opt: opt, Model: map[DocKey]*Doc{}, Last: map[DocKey]Obs{}, LastMut: map[DocKey]string{}, collIDs: map[[2]int]uint32{}}
	for bi, be := range env.Buckets {
		for ci := range be.Colls[0] {
			s.collIDs[[2]int{bi, ci}] = be.Colls[0][ci].GetCollectionID()
		}
	}
	return s, nil
}

func (s *Sim) Close() { s.Env.Close() }

func (s *Sim) coll(b, h, c int) *rosmar.Collection {
	be := s.Env.Buckets[b]
	if h >= len(be.Colls) {
		h = 0
	}
	return be.Colls[h][c]
}

func (s *Sim) doc(k DocKey) *Doc {
	if d, ok := s.Model[k]; ok {
		return d
	}
	return &Doc{}
}

// report funnels a judgment into the supervisor record with a call-site signature.
func (s *Sim) report(props []string, kind, msg string) {
	variant, pre, last := "-", "-", "-"
	var detail any
	if s.curOp != nil {
		variant = s.curOp.Variant()
		pre = s.curPre
		last = s.LastMut[DocKey{s.curOp.Bucket, s.curOp.Coll, s.curOp.Key}]
		if last == "" {
			last = "-"
		}
	}
	n := len(s.Log)
	from := n - 6
	if from < 0 {
		from = 0
	}
	detail = map[string]any{"config": s.Env.Cfg, "last_steps": s.Log[from:n], "step_index": s.nsteps}
	sig := fmt.Sprintf("%s|%s|%s|%s", variant, kind, pre, last)
	s.Ctx.Viol(props, sig, msg, detail)
}

func (s *Sim) resolveCas(o *Op, pre *Obs, dk DocKey) {
	cur := pre.rowCas()
	switch o.CasClass {
	case "":
		return
	case CasZero:
		o.Cas = 0
	case CasCurrent:
		o.Cas = cur
	case CasStale:
		d := s.doc(dk)
		if n := len(d.OldCas); n > 0 {
			o.Cas = d.OldCas[n-1]
		} else if cur > 1 {
			o.Cas = cur - 1
		} else {
			o.Cas = 12345
		}
	case CasBogus:
		switch s.R.Intn(3) {
		case 0:
			o.Cas = cur + 1
		case 1:
			o.Cas = 1 << 40
		default:
			o.Cas = cur + 1
			for k, d := range s.Model {
				if k != dk && d.Present && d.Cas != cur && d.Cas != 0 {
					o.Cas = d.Cas
					break
				}
			}
		}
	}
	if o.Kind == KSetMeta || o.Kind == KDelMeta {
		base := s.MaxCas
		if base < uint64(time.Now().UnixNano()) {
			base = uint64(time.Now().UnixNano())
		}
		low := uint64(0x8000 + s.R.Intn(0x7000))
		switch o.NewCasClass {
		case "below":
			if cur > 1<<20 {
				o.NewCas = (cur-uint64(1+s.R.Intn(1000))*0x10000)&^0xFFFF | low
			} else {
				o.NewCas = (base-uint64(1+s.R.Intn(1000))*0x10000)&^0xFFFF | low
			}
		case "between":
			// just above this document's own CAS: typically above its collection's high-water mark only if it is the
			// collection's newest document, and below what other collections have been handed since
			if cur > 1<<20 {
				o.NewCas = (cur+uint64(1+s.R.Intn(3))*0x10000)&^0xFFFF | low
			} else {
				o.NewCas = (base+uint64(1+s.R.Intn(1000))*0x10000)&^0xFFFF | low
			}
		case "far":
			o.NewCas = (base+3600e9)&^0xFFFF | low
		default: // "above"
			o.NewCas = (base+uint64(1+s.R.Intn(1000))*0x10000)&^0xFFFF | low
		}
	}
}

// Do executes one op with full observation and judging.
func (s *Sim) Do(op Op) *Step {
	s.nsteps++
	if op.Kind == KPurge {
		return s.doPurge(op)
	}
	if op.Kind == KDropColl {
		return s.doDrop(op)
	}
	if op.Kind == KGetSub {
		return s.doGetSub(op)
	}
	dk := DocKey{op.Bucket, op.Coll, op.Key}
	c := s.coll(op.Bucket, op.Handle, op.Coll)
	b := s.Env.Buckets[op.Bucket].Handles[0]
	preObs := ReadBack(c, op.Key)
	if last, ok := s.Last[dk]; ok {
		if f := last.Diff(&preObs); f != "" {
			s.curOp, s.curPre = &op, "-"
			s.report([]string{"C01", "C11"}, "unstable."+f, fmt.Sprintf("%s: read-back changed although no operation addressed the key since the last read-back", dk))
			s.curOp = nil
			nd := resyncDoc(s.doc(dk), &preObs, s.doc(dk).JSON)
			nd.OldCas = s.doc(dk).OldCas
			s.Model[dk] = &nd
		}
	}
	s.resolveCas(&op, &preObs, dk)
	pre := *s.doc(dk)
	st := Step{Op: op, PreObs: preObs, Pre: pre, CollID: s.collIDs[[2]int{op.Bucket, op.Coll}], RunProp: s.RunProp}
	s.curOp, s.curPre = &st.Op, pre.Class()

	if s.OnIntent != nil {
		s.OnIntent(&st.Op)
	}
	t0 := time.Now().Unix()
	st.Res = Exec(b, c, &st.Op)
	t1 := time.Now().Unix()
	st.Res.T0, st.Res.T1 = t0, t1
	st.PostObs = ReadBack(c, op.Key)
	st.Ex = Spec(&pre, &st.Op, t0, t1, s.Env.Cfg.MaxDoc)
	s.Log = append(s.Log, st)
	if len(s.Log) > 40 {
		s.Log = s.Log[len(s.Log)-20:]
	}

	nd := JudgeStep(&st, s.report)
	if nd.Present || pre.Present {
		if pre.Present && nd.Cas != pre.Cas {
			nd.OldCas = append(append([]uint64(nil), pre.OldCas...), pre.Cas)
			if len(nd.OldCas) > 4 {
				nd.OldCas = nd.OldCas[len(nd.OldCas)-4:]
			}
		} else {
			nd.OldCas = pre.OldCas
		}
		s.Model[dk] = &nd
	}
	s.Last[dk] = st.PostObs
	if s.OnAck != nil {
		s.OnAck(&st, &nd)
	}
	if c := st.PostObs.rowCas(); c > s.MaxCas && !nd.CasByMeta {
		s.MaxCas = c
	}

	outcome := "ok"
	if !st.Res.OK() {
		outcome = "refused:" + refusalName(&st.Res)
	}
	s.Ctx.Cell(fmt.Sprintf("%s|%s|%s|%s", st.Op.Variant(), pre.Class(), outcome, ifs(s.Env.Cfg.Disk, "disk", "mem")))
	s.Ctx.Count("ops", 1)
	s.Ctx.Count("readbacks", 2)

	changed := st.PostObs.rowCas() != preObs.rowCas() || st.PostObs.present() != preObs.present()
	if s.Opt.JudgeEvents {
		s.judgeLive(&st, dk, changed, &nd)
	}
	if changed && st.Res.OK() {
		s.LastMut[dk] = st.Op.Variant()
	}
	if s.Opt.IsoEachStep {
		s.isoSameKey(dk)
	}
	if s.Opt.DumpEachStep && st.PostObs.present() {
		s.JudgeDump(op.Bucket, op.Coll, st.PostObs.rowCas(), "step")
	}
	s.curOp = nil
	return &s.Log[len(s.Log)-1]
}

// marker writes the fence document and returns its CAS.
func (s *Sim) marker(b, c int) uint64 {
	col := s.coll(b, 0, c)
	s.Env.markerN++
	val := []byte(fmt.Sprintf("m%d", s.Env.markerN))
	if err := col.SetRaw(MarkerKey, 0, nil, val); err != nil {
		return 0
	}
	_, cas, err := col.GetRaw(MarkerKey)
	if err != nil {
		return 0
	}
	dk := DocKey{b, c, MarkerKey}
	d := s.doc(dk)
	nd := Doc{Present: true, Body: val, JSON: false, Cas: cas, Rev: d.Rev + 1}
	s.Model[dk] = &nd
	if cas > s.MaxCas {
		s.MaxCas = cas
	}
	return cas
}

const feedWait = 30 * time.Second

// judgeLive: exactly-once, faithful delivery of this step's event on every live feed of the collection (C08).
func (s *Sim) judgeLive(st *Step, dk DocKey, changed bool, nd *Doc) {
	feeds := s.Env.FeedsOf(dk.B, dk.C)
	wantN := 0
	if changed && st.Res.Err != "panic" {
		wantN = 1
	}
	obsCas := st.PostObs.rowCas()
	var mcas uint64
	if s.Env.Cfg.Marker {
		mcas = s.marker(dk.B, dk.C)
	}
	for fi, f := range feeds {
		var got []Ev
		if wantN == 1 && !s.Env.Cfg.Marker {
			evs, _ := f.WaitFor(dk.K, obsCas, feedWait)
			got = evs
		} else if s.Env.Cfg.Marker && mcas != 0 {
			evs, found := f.WaitFor(MarkerKey, mcas, feedWait)
			if !found {
				s.report([]string{"C08", "C16"}, "event.fence.lost", fmt.Sprintf("feed %d of %s: the fence write's own event (cas %d) did not arrive within %s", fi, dk, mcas, feedWait))
			}
			got = evs
		} else {
			got = f.Drain()
		}
		n := 0
		for i := range got {
			e := &got[i]
			if e.Key == MarkerKey {
				continue
			}
			s.Ctx.Count("events_judged", 1)
			if e.Key != dk.K {
				s.report([]string{"C08"}, "event.spurious", fmt.Sprintf("feed %d of %s received an event for key %q cas %d that no operation of this step produced", fi, dk, e.Key, e.Cas))
				continue
			}
			n++
			if n > wantN {
				continue
			}
			if !f.KeysOnly {
				if s.liveEv == nil {
					s.liveEv = map[DocKey]Ev{}
				}
				s.liveEv[dk] = *e
			} else {
				if s.liveKO == nil {
					s.liveKO = map[DocKey]Ev{}
				}
				s.liveKO[dk] = *e
			}
			wj := &nd.JSON
			if st.Ex.DCJSON || st.Ex.Accept == -1 {
				wj = nil
			}
			rep := s.report
			if st.Pre.Tomb() {
				// "any write that gives a tombstone a body yields a live document with none of the tombstone's xattrs", and
				// every observer - the live event included - must agree on that (C05)
				rep = func(props []string, kind, msg string) { s.report(uniq(append(props, "C05")...), kind, msg) }
			}
			CompareEvent("event", "C08", e, &st.PostObs, wj, st.CollID, f.KeysOnly, rep, fmt.Sprintf("feed %d, %s after %s", fi, dk, st.Op.Variant()))
		}
		if n != wantN {
			kind := "event.count"
			switch {
			case n == 0:
				kind = "event.missing"
			case wantN == 0:
				kind = "event.onfailure"
				if st.Res.OK() {
					kind = "event.nochange"
				}
			case n > wantN:
				kind = "event.duplicate"
			}
			s.report([]string{"C08"}, kind, fmt.Sprintf("feed %d (handle %d) of %s: %d event(s) for %s (result %q, CAS changed=%v), want %d", fi, f.Handle, dk, n, st.Op.Variant(), refusalOrOK(&st.Res), changed, wantN))
		}
	}
	// feeds of every other collection / bucket must stay silent
	for bi, be := range s.Env.Buckets {
		for _, f := range be.Feeds {
			if (bi == dk.B && f.Coll == dk.C) || f.ended.Load() {
				continue
			}
			for _, e := range f.Drain() {
				if e.Key == MarkerKey {
					continue
				}
				s.report([]string{"C08", "C11"}, "event.wrongfeed", fmt.Sprintf("a feed on b%d/c%d received key %q cas %d although the operation addressed %s", bi, f.Coll, e.Key, e.Cas, dk))
			}
		}
	}
}

func refusalOrOK(r *Result) string {
	if r.OK() {
		return "ok"
	}
	return refusalName(r)
}

// isoSameKey re-reads the same key name everywhere else and compares with the last known read-back (C11).
func (s *Sim) isoSameKey(dk DocKey) {
	for bi, be := range s.Env.Buckets {
		for ci := range be.Colls[0] {
			if bi == dk.B && ci == dk.C {
				continue
			}
			ok := DocKey{bi, ci, dk.K}
			s.isoCheck(ok, dk)
		}
	}
}

func (s *Sim) isoCheck(other, addressed DocKey) {
	cur := ReadBack(s.coll(other.B, 0, other.C), other.K)
	s.Ctx.Count("isolation_frames", 1)
	last, known := s.Last[other]
	if !known {
		last = ReadBack(s.coll(other.B, 0, other.C), "\x00never-written\x00")
		last = absentObs(last)
	}
	if f := last.Diff(&cur); f != "" {
		s.report([]string{"C11"}, "isolation."+f, fmt.Sprintf("operation on %s changed %s of %s", addressed, f, other))
		s.Last[other] = cur
		d := resyncDoc(s.doc(other), &cur, s.doc(other).JSON)
		s.Model[other] = &d
	}
}

func absentObs(o Obs) Obs { return o }

// IsoSweep re-reads every known key of every collection and bucket (C11, and stability for C01).
func (s *Sim) IsoSweep(addressed DocKey) {
	keys := make([]DocKey, 0, len(s.Last))
	for k := range s.Last {
		if k != addressed {
			keys = append(keys, k)
		}
	}
	sort.Slice(keys, func(i, j int) bool { return keys[i].String() < keys[j].String() })
	for _, k := range keys {
		if k.K == MarkerKey {
			continue
		}
		s.isoCheck(k, addressed)
	}
}

// doPurge executes PurgeTombstones on a bucket and checks it removed exactly the tombstones (C05) of that bucket only (C11).
func (s *Sim) doPurge(op Op) *Step {
	s.curOp, s.curPre = &op, "-"
	defer func() { s.curOp = nil }()
	b := s.Env.Buckets[op.Bucket].Handles[op.Handle%len(s.Env.Buckets[op.Bucket].Handles)]
	want := int64(0)
	for k, d := range s.Model {
		if k.B == op.Bucket && d.Tomb() {
			want++
		}
	}
	st := Step{Op: op}
	if s.nsteps%2 == 0 {
		// purge through a handle opened just now, which has not opened any collection itself
		be := s.Env.Buckets[op.Bucket]
		if fresh, err := rosmar.OpenBucket(be.URL, be.Name, rosmar.CreateOrOpen); err == nil {
			st.Res = Exec(fresh, nil, &st.Op)
			fresh.Close(context.Background())
			s.Ctx.Count("purges_through_a_fresh_handle", 1)
		} else {
			st.Res = Exec(b, nil, &st.Op)
		}
	} else {
		st.Res = Exec(b, nil, &st.Op)
	}
	s.Log = append(s.Log, st)
	s.Ctx.Count("purges", 1)
	s.Ctx.Cell(fmt.Sprintf("Purge|tombs=%d", min64(want, 3)))
	if st.Res.Err != "" {
		s.report([]string{"C05"}, "purge.error", fmt.Sprintf("PurgeTombstones failed: %s %s", st.Res.Err, st.Res.ErrMsg))
		return &s.Log[len(s.Log)-1]
	}
	if st.Res.Count != want {
		s.report([]string{"C05"}, "purge.count", fmt.Sprintf("PurgeTombstones removed %d documents, the bucket held %d tombstones", st.Res.Count, want))
	}
	keys := make([]DocKey, 0, len(s.Last))
	for k := range s.Last {
		keys = append(keys, k)
	}
	sort.Slice(keys, func(i, j int) bool { return keys[i].String() < keys[j].String() })
	for _, k := range keys {
		if k.K == MarkerKey {
			continue
		}
		d := s.doc(k)
		cur := ReadBack(s.coll(k.B, 0, k.C), k.K)
		last := s.Last[k]
		if k.B == op.Bucket && d.Tomb() {
			if cur.present() {
				s.report([]string{"C05"}, "purge.survivor", fmt.Sprintf("tombstone %s survived PurgeTombstones", k))
			}
			delete(s.Model, k)
			s.Last[k] = cur
			s.LastMut[k] = "Purge"
			continue
		}
		if f := last.Diff(&cur); f != "" {
			ps := []string{"C05"}
			if k.B != op.Bucket {
				ps = []string{"C11"}
			}
			s.report(ps, "purge.collateral."+f, fmt.Sprintf("PurgeTombstones on bucket %d changed %s of %s (%s)", op.Bucket, f, k, d.Class()))
			s.Last[k] = cur
			nd := resyncDoc(d, &cur, d.JSON)
			s.Model[k] = &nd
		}
	}
	if s.Opt.JudgeEvents {
		for bi, be := range s.Env.Buckets {
			for _, f := range be.Feeds {
				for _, e := range f.Drain() {
					if e.Key != MarkerKey {
						s.report([]string{"C08"}, "event.onpurge", fmt.Sprintf("feed on b%d/c%d received key %q after PurgeTombstones", bi, f.Coll, e.Key))
					}
				}
			}
		}
	}
	return &s.Log[len(s.Log)-1]
}

func min64(a, b int64) int64 {
	if a < b {
		return a
	}
	return b
}

// doDrop drops and re-creates a named collection through handle 0 (single-handle scenarios only) and checks C11's drop clauses.
func (s *Sim) doDrop(op Op) *Step {
	s.curOp, s.curPre = &op, "-"
	defer func() { s.curOp = nil }()
	be := s.Env.Buckets[op.Bucket]
	st := Step{Op: op}
	s.Log = append(s.Log, st)
	if op.Coll == 0 || len(be.Handles) != 1 {
		return &s.Log[len(s.Log)-1]
	}
	b := be.Handles[0]
	name := CollNames[op.Coll]
	// feeds of that collection are expected to end
	var dropped []*FeedRec
	for _, f := range be.Feeds {
		if f.Coll == op.Coll && !f.ended.Load() {
			dropped = append(dropped, f)
		}
	}
	err := func() (err error) {
		defer func() {
			if r := recover(); r != nil {
				err = fmt.Errorf("panic: %v", r)
			}
		}()
		return b.DropDataStore(name)
	}()
	s.Ctx.Count("drops", 1)
	s.Ctx.Cell("DropDataStore")
	if err != nil {
		s.report([]string{"C11"}, "drop.error", fmt.Sprintf("DropDataStore(%s) failed: %v", name, err))
		return &s.Log[len(s.Log)-1]
	}
	for _, f := range dropped {
		f.ended.Store(true)
		select {
		case <-f.done:
		case <-time.After(10 * time.Second):
			s.report([]string{"C11", "C16"}, "drop.feed.alive", fmt.Sprintf("feed on dropped collection %s did not end within 10s", name))
		}
	}
	list, lerr := b.ListDataStores()
	if lerr == nil {
		for _, n := range list {
			if n.ScopeName() == name.Scope && n.CollectionName() == name.Collection {
				s.report([]string{"C11"}, "drop.listed", fmt.Sprintf("dropped collection %s is still listed", name))
			}
		}
		if len(list) != len(be.Colls[0])-1 {
			s.report([]string{"C11"}, "drop.list.count", fmt.Sprintf("after dropping %s ListDataStores returns %d entries, want %d", name, len(list), len(be.Colls[0])-1))
		}
	}
	ds, err := b.NamedDataStore(name)
	if err != nil {
		s.report([]string{"C11"}, "drop.recreate", fmt.Sprintf("re-creating %s failed: %v", name, err))
		return &s.Log[len(s.Log)-1]
	}
	nc := ds.(*rosmar.Collection)
	be.Colls[0][op.Coll] = nc
	s.collIDs[[2]int{op.Bucket, op.Coll}] = nc.GetCollectionID()
	// the re-created collection must be empty; everything else untouched
	keys := make([]DocKey, 0, len(s.Last))
	for k := range s.Last {
		keys = append(keys, k)
	}
	sort.Slice(keys, func(i, j int) bool { return keys[i].String() < keys[j].String() })
	for _, k := range keys {
		cur := ReadBack(s.coll(k.B, 0, k.C), k.K)
		if k.B == op.Bucket && k.C == op.Coll {
			if cur.present() {
				s.report([]string{"C11"}, "drop.notempty", fmt.Sprintf("key %s is still present after drop and re-create", k))
			}
			delete(s.Model, k)
			s.Last[k] = cur
			s.LastMut[k] = "Drop"
			continue
		}
		if k.K == MarkerKey {
			continue
		}
		last := s.Last[k]
		if f := last.Diff(&cur); f != "" {
			s.report([]string{"C11"}, "drop.collateral."+f, fmt.Sprintf("dropping %s changed %s of %s", name, f, k))
			s.Last[k] = cur
			nd := resyncDoc(s.doc(k), &cur, s.doc(k).JSON)
			s.Model[k] = &nd
		}
	}
	if ddocs, err := nc.GetDDocs(); err == nil && len(ddocs) > 0 {
		s.report([]string{"C11"}, "drop.ddocs", fmt.Sprintf("re-created collection %s still has %d design documents", name, len(ddocs)))
	}
	// other collections' feeds must still be alive: checked by the next steps' barriers. Restart feeds on the new collection.
	for range dropped {
		if _, err := s.Env.StartLiveFeed(op.Bucket, op.Coll, 0); err != nil {
			s.report([]string{"C11", "C16"}, "drop.feed.restart", fmt.Sprintf("cannot start a feed on re-created %s: %v", name, err))
		}
	}
	return &s.Log[len(s.Log)-1]
}

// JudgeDump runs a Dump backfill from startCas on (b, c) and compares it with the current read-back of every key (C09, C05, C17).
func (s *Sim) JudgeDump(b, c int, startCas uint64, why string) {
	s.dumpN++
	keysOnly := s.dumpN%4 == 3 // every fourth dump is a KeysOnly backfill
	evs, err := s.Env.DumpEvents(b, 0, c, startCas, keysOnly)
	s.Ctx.Count("dumps", 1)
	if err != nil {
		s.report([]string{"C09"}, "backfill.error", fmt.Sprintf("dump feed on b%d/c%d from %d: %v", b, c, startCas, err))
		return
	}
	if len(evs) < 2 || evs[0].Op != 0 || evs[len(evs)-1].Op != 1 {
		s.report([]string{"C09"}, "backfill.markers", fmt.Sprintf("dump on b%d/c%d from %d is not bracketed by begin/end markers (%d events)", b, c, startCas, len(evs)))
		return
	}
	body := evs[1 : len(evs)-1]
	// expected: every present key of the collection with CAS >= start, in CAS order
	type want struct {
		k   DocKey
		cas uint64
	}
	var wants []want
	for k := range s.Last {
		if k.B != b || k.C != c {
			continue
		}
		o := s.Last[k]
		if k.K == MarkerKey {
			if d := s.doc(k); d.Present && d.Cas >= startCas {
				wants = append(wants, want{k, d.Cas})
			}
			continue
		}
		if o.present() && o.rowCas() >= startCas {
			wants = append(wants, want{k, o.rowCas()})
		}
	}
	if d := s.doc(DocKey{b, c, MarkerKey}); d.Present && d.Cas >= startCas {
		if _, ok := s.Last[DocKey{b, c, MarkerKey}]; !ok {
			wants = append(wants, want{DocKey{b, c, MarkerKey}, d.Cas})
		}
	}
	sort.Slice(wants, func(i, j int) bool { return wants[i].cas < wants[j].cas })
	seen := map[string]int{}
	var prev uint64
	for i := range body {
		e := &body[i]
		if e.Op == 0 || e.Op == 1 {
			s.report([]string{"C09"}, "backfill.markers", "a begin/end marker appears inside the backfill")
			continue
		}
		seen[e.Key]++
		if e.Cas < prev {
			s.report([]string{"C09"}, "backfill.order", fmt.Sprintf("backfill of b%d/c%d is not in CAS order: %d after %d", b, c, e.Cas, prev))
		}
		prev = e.Cas
		if e.Cas < startCas {
			s.report([]string{"C09"}, "backfill.belowstart", fmt.Sprintf("backfill from %d delivered key %q with CAS %d", startCas, e.Key, e.Cas))
		}
		if e.Key == MarkerKey {
			continue
		}
		dk := DocKey{b, c, e.Key}
		o, ok := s.Last[dk]
		if !ok || !o.present() {
			s.report([]string{"C09"}, "backfill.ghost", fmt.Sprintf("backfill delivered key %q which does not exist in b%d/c%d", e.Key, b, c))
			continue
		}
		s.Ctx.Count("backfill_events_compared", 1)
		d := s.doc(dk)
		wj := &d.JSON
		s.curPreOverride(d.Class())
		CompareEvent("backfill", "C09", e, &o, wj, s.collIDs[[2]int{b, c}], keysOnly, s.reportDump(dk), fmt.Sprintf("backfill(%s) of %s, last mutated by %s", why, dk, orDash(s.LastMut[dk])))
		if le, ok := s.liveKO[dk]; ok && keysOnly && le.Cas == e.Cas && le.Rev == e.Rev {
			// the same version as a KeysOnly live event and as a KeysOnly backfill event: datatype (all of it), expiry and
			// opcode must agree here too
			s.Ctx.Count("keysonly_backfill_events_compared_with_keysonly_live_event", 1)
			if le.DT != e.DT || le.Exp != e.Exp || le.Op != e.Op {
				s.reportDump(dk)([]string{"C09"}, "backfill.vs-live.keysonly", fmt.Sprintf("KeysOnly backfill(%s) of %s (CAS %d, last mutated by %s) describes the version differently from the KeysOnly live event it produced: datatype live=%d backfill=%d, expiry live=%d backfill=%d, opcode live=%d backfill=%d", why, dk, e.Cas, orDash(s.LastMut[dk]), le.DT, e.DT, le.Exp, e.Exp, le.Op, e.Op))
			}
		}
		if le, ok := s.liveEv[dk]; ok && !keysOnly && le.Cas == e.Cas && le.Rev == e.Rev {
			// the same version (a bare touch keeps the CAS but raises the revision number) as a live event and as a
			// backfill event: the two descriptions must agree (C09)
			s.Ctx.Count("backfill_events_compared_with_live_event", 1)
			lv, lerr := decodeEv(&le)
			bv, berr := decodeEv(e)
			var diff []string
			if lerr == nil && berr == nil {
				if lv.Deletion != bv.Deletion {
					diff = append(diff, fmt.Sprintf("opcode deletion live=%v backfill=%v", lv.Deletion, bv.Deletion))
				}
				if !bytes.Equal(lv.Body, bv.Body) {
					diff = append(diff, fmt.Sprintf("body live=%q backfill=%q", trunc(lv.Body), trunc(bv.Body)))
				}
				if !mapEq(lv.X, bv.X) {
					diff = append(diff, fmt.Sprintf("xattrs live=%v backfill=%v", lv.X, bv.X))
				}
				if lv.JSON != bv.JSON {
					diff = append(diff, fmt.Sprintf("datatype JSON live=%v backfill=%v", lv.JSON, bv.JSON))
				}
			}
			if le.Exp != e.Exp {
				diff = append(diff, fmt.Sprintf("expiry live=%d backfill=%d", le.Exp, e.Exp))
			}
			if len(diff) > 0 {
				s.reportDump(dk)([]string{"C09"}, "backfill.vs-live", fmt.Sprintf("backfill(%s) of %s (CAS %d, last mutated by %s) describes the version differently from the live event it produced: %s", why, dk, e.Cas, orDash(s.LastMut[dk]), strings.Join(diff, "; ")))
			}
		}
	}
	for _, w := range wants {
		n := seen[w.k.K]
		if n == 0 {
			s.reportDump(w.k)([]string{"C09"}, "backfill.omitted", fmt.Sprintf("backfill from %d omits %s (CAS %d, %s)", startCas, w.k, w.cas, s.doc(w.k).Class()))
		} else if n > 1 {
			s.reportDump(w.k)([]string{"C09"}, "backfill.duplicate", fmt.Sprintf("backfill from %d delivers %s %d times", startCas, w.k, n))
		}
	}
}

func orDash(s string) string {
	if s == "" {
		return "-"
	}
	return s
}

func (s *Sim) curPreOverride(c string) {}

// reportDump reports with a signature built from the key's last mutator and class rather than the current op.
func (s *Sim) reportDump(dk DocKey) Reporter {
	return func(props []string, kind, msg string) {
		d := s.doc(dk)
		n := len(s.Log)
		from := n - 6
		if from < 0 {
			from = 0
		}
		sig := fmt.Sprintf("dump|%s|%s|%s", kind, d.Class(), orDash(s.LastMut[dk]))
		s.Ctx.Viol(props, sig, msg, map[string]any{"config": s.Env.Cfg, "last_steps": s.Log[from:n]})
	}
}

var _ = context.Background

// doGetSub probes GetSubDocRaw and compares it with the addressed property of the current body (C18).
func (s *Sim) doGetSub(op Op) *Step {
	s.curOp, s.curPre = &op, "-"
	defer func() { s.curOp = nil }()
	c := s.coll(op.Bucket, op.Handle, op.Coll)
	dk := DocKey{op.Bucket, op.Coll, op.Key}
	pre := ReadBack(c, op.Key)
	st := Step{Op: op, PreObs: pre, Pre: *s.doc(dk)}
	s.curPre = st.Pre.Class()
	st.Res = Exec(nil, c, &st.Op)
	s.Log = append(s.Log, st)
	s.Ctx.Count("subdoc_reads", 1)
	res := &st.Res
	wantErr, wantVal := "", []byte(nil)
	if !pre.hasBody() {
		wantErr = "missing"
	} else {
		var doc any
		if err := decodeExact(pre.Raw, &doc); err != nil {
			wantErr = "any"
		} else if _, isObj := doc.(map[string]any); !isObj {
			wantErr = "any"
		} else {
			cur := doc
			for _, p := range parsePath(op.Path) {
				m, ok := cur.(map[string]any)
				if !ok {
					wantErr = "pathmismatch"
					break
				}
				nxt, ok := m[p]
				if !ok || nxt == nil {
					wantErr = "pathnotfound"
					break
				}
				cur = nxt
			}
			if wantErr == "" {
				wantVal, _ = json.Marshal(cur)
			}
		}
	}
	s.Ctx.Cell(fmt.Sprintf("GetSubDocRaw|%s|%s", op.Path, ifs(wantErr == "", "ok", wantErr)))
	switch {
	case res.Err == "panic":
		s.report([]string{"C18"}, "panic", "GetSubDocRaw panicked: "+res.ErrMsg)
	case wantErr == "" && res.Err != "":
		s.report([]string{"C18"}, "getsub.refused", fmt.Sprintf("GetSubDocRaw(%q) failed with %s (%s) but the property exists: %s", op.Path, res.Err, res.ErrMsg, trunc(wantVal)))
	case wantErr == "" && !jsonEqualExact(res.Val, wantVal):
		s.report([]string{"C18"}, "getsub.value", fmt.Sprintf("GetSubDocRaw(%q) = %s, the document holds %s", op.Path, trunc(res.Val), trunc(wantVal)))
	case wantErr == "" && res.CasOut != pre.RawCas:
		s.report([]string{"C18"}, "getsub.cas", fmt.Sprintf("GetSubDocRaw returned CAS %d, the document has %d", res.CasOut, pre.RawCas))
	case wantErr != "" && res.Err == "":
		s.report([]string{"C18"}, "getsub.accepted", fmt.Sprintf("GetSubDocRaw(%q) returned %s but should fail (%s)", op.Path, trunc(res.Val), wantErr))
	case wantErr != "" && wantErr != "any" && res.Err != wantErr:
		s.report([]string{"C18"}, "getsub.errclass", fmt.Sprintf("GetSubDocRaw(%q) failed with %s, want %s", op.Path, res.Err, wantErr))
	}
	return &s.Log[len(s.Log)-1]
}

// EndFirstFeed closes the terminator of the earliest-registered live feed of (b, c) that is still running, if at
// least one other feed of that collection keeps running: the others must go on receiving every event (C08, C16).
func (s *Sim) EndFirstFeed(b, c int) bool {
	feeds := s.Env.FeedsOf(b, c)
	if len(feeds) < 2 {
		return false
	}
	f := feeds[0]
	if f.ended.Swap(true) {
		return false
	}
	close(f.term)
	select {
	case <-f.done:
	case <-time.After(10 * time.Second):
		s.report([]string{"C16"}, "feed.terminator", fmt.Sprintf("a live feed on b%d/c%d did not end within 10 s of its terminator closing", b, c))
	}
	s.Ctx.Count("live_feeds_ended_mid_history", 1)
	return true
}
