package kv

import (
	"bytes"
	"encoding/json"
	"fmt"
	"sort"
	"strconv"
	"strings"

	sgbucket "github.com/couchbase/sg-bucket"
)

// Judgment is one divergence between what was observed and what the properties allow.
type Judgment struct {
	Props []string `json:"props"`
	Kind  string   `json:"kind"`
	Msg   string   `json:"msg"`
}

type Reporter func(props []string, kind, msg string)

// Step is everything recorded around one executed op.
type Step struct {
	Op      Op     `json:"op"`
	Res     Result `json:"res"`
	PreObs  Obs    `json:"pre"`
	PostObs Obs    `json:"post"`
	Pre     Doc    `json:"model"`
	Ex      Expect `json:"-"`
	CollID  uint32 `json:"-"`
	RunProp string `json:"-"`
}

func uniq(props ...string) []string {
	seen := map[string]bool{}
	var out []string
	for _, p := range props {
		if p != "" && !seen[p] {
			seen[p] = true
			out = append(out, p)
		}
	}
	sort.Strings(out)
	return out
}

// rowCas returns the CAS of the stored row as seen through the read-back (0 if absent).
func (o *Obs) rowCas() uint64 {
	if o.RawErr == "" {
		return o.RawCas
	}
	if o.GXErr == "" {
		return o.GXCas
	}
	if o.VErr == "" {
		return o.VCas
	}
	return 0
}

func (o *Obs) present() bool { return o.VErr == "" || o.RawErr == "" || o.GXErr == "" }
func (o *Obs) hasBody() bool { return o.RawErr == "" }

func (o *Obs) rev() (uint64, bool) {
	s := strings.Trim(o.RevID, `"`)
	if s == "" {
		return 0, false
	}
	n, err := strconv.ParseUint(s, 10, 64)
	return n, err == nil
}

// resyncDoc rebuilds the model state of a key from a read-back, keeping what a read-back cannot show
// (whether the current CAS was chosen by a WithMeta caller) when the CAS did not change.
func resyncDoc(pre *Doc, o *Obs, isJSON bool) Doc {
	d := docFromObs(o, isJSON)
	if pre != nil && pre.Present && d.Present && d.Cas == pre.Cas {
		d.CasByMeta = pre.CasByMeta
	}
	return d
}

// docFromObs rebuilds model state from a read-back (resynchronisation, and adoption of system-chosen values).
func docFromObs(o *Obs, isJSON bool) Doc {
	d := Doc{}
	if !o.present() {
		return d
	}
	d.Present = true
	if o.hasBody() {
		d.Body = o.Raw
		if d.Body == nil {
			d.Body = []byte{}
		}
	}
	d.JSON = isJSON && d.Body != nil
	if o.GXErr == "" {
		d.X = copyX(o.GX)
	}
	d.Cas = o.rowCas()
	if o.ExpErr == "" {
		d.Exp = o.Exp
	}
	d.Rev, _ = o.rev()
	return d
}

func acceptProps(st *Step, refusedButShouldSucceed bool) []string {
	o := &st.Op
	var ps []string
	if refusedButShouldSucceed {
		switch {
		case o.IsInsertStyle():
			ps = append(ps, "C06")
			if st.Pre.Tomb() {
				ps = append(ps, "C05")
			}
		case o.IsConditional():
			ps = append(ps, "C02")
		default:
			ps = append(ps, "C01")
		}
		if o.IsSubdoc() {
			ps = append(ps, "C18")
		}
		return uniq(ps...)
	}
	switch st.Ex.Why {
	case "cas":
		ps = append(ps, "C02")
	case "body":
		if o.IsInsertStyle() {
			ps = append(ps, "C06")
		} else {
			ps = append(ps, "C01")
		}
	case "exists":
		ps = append(ps, "C01")
		if st.Pre.Tomb() {
			ps = append(ps, "C05")
		}
	case "arg", "size", "xattr":
		if o.IsXattrOp() {
			ps = append(ps, "C07")
		} else {
			ps = append(ps, "C01")
		}
	case "path":
		ps = append(ps, "C18")
	case "num":
		if o.IsSubdoc() {
			ps = append(ps, "C18")
		} else {
			ps = append(ps, "C01")
		}
	default:
		ps = append(ps, "C01")
	}
	if o.IsSubdoc() {
		ps = append(ps, "C18")
	}
	return uniq(ps...)
}

func frameProps(o *Op) []string {
	ps := []string{"C01"}
	if o.IsConditional() {
		ps = append(ps, "C02")
	}
	if o.IsInsertStyle() {
		ps = append(ps, "C06")
	}
	if o.IsXattrOp() {
		ps = append(ps, "C07")
	}
	if o.IsSubdoc() {
		ps = append(ps, "C18")
	}
	return uniq(ps...)
}

func inList(s string, l []string) bool {
	for _, x := range l {
		if x == s {
			return true
		}
	}
	return false
}

// JudgeStep compares one step with the specification and returns the new model state of the key.
func JudgeStep(st *Step, rep Reporter) Doc {
	o, res, ex, pre, post := &st.Op, &st.Res, &st.Ex, &st.Pre, &st.PostObs
	keepJSON := pre.JSON

	if post.Panic != "" || st.PreObs.Panic != "" {
		rep(uniq("C01", st.RunProp), "readback.panic", "a read entry point panicked: "+post.Panic+st.PreObs.Panic)
	}
	judgeObservers(st, rep)

	if res.Err == "panic" {
		rep(uniq(append(panicProps(o), st.RunProp)...), "panic", fmt.Sprintf("%s panicked: %s", o.Variant(), res.ErrMsg))
		return resyncDoc(pre, post, keepJSON)
	}

	ok := res.OK()
	if !ok {
		// --- refused
		if ex.Accept == 1 {
			rep(acceptProps(st, true), "accept.refused", fmt.Sprintf("%s on %s must succeed but was refused (%s %s)", o.Variant(), pre.Class(), res.Err, res.ErrMsg))
		} else if len(ex.FailClasses) > 0 && res.Err != "" && !inList(res.Err, ex.FailClasses) {
			rep(acceptProps(st, false), "errclass", fmt.Sprintf("%s on %s refused with class %q (%s), allowed: %v", o.Variant(), pre.Class(), res.Err, res.ErrMsg, ex.FailClasses))
		} else if res.IsAdd && res.Err != "" && ex.Why == "body" {
			rep([]string{"C06"}, "errclass", fmt.Sprintf("%s on a live document returned error %s instead of added=false", o.Kind, res.Err))
		}
		if f := st.PreObs.Diff(post); f != "" {
			rep(frameProps(o), "frame."+f, fmt.Sprintf("%s on %s returned %q but changed %s", o.Variant(), pre.Class(), refusalName(res), f))
			return resyncDoc(pre, post, keepJSON)
		}
		return *pre
	}

	// --- succeeded
	if ex.Accept == -1 {
		rep(acceptProps(st, false), "accept.accepted", fmt.Sprintf("%s on %s must be refused (%s) but succeeded", o.Variant(), pre.Class(), ex.Why))
		d := docFromObs(post, keepJSON)
		d.CasByMeta = o.Kind == KSetMeta || o.Kind == KDelMeta
		return d
	}
	if ex.NoChange {
		if f := st.PreObs.Diff(post); f != "" {
			rep([]string{"C01"}, "nochange."+f, fmt.Sprintf("%s reported success without a write but %s changed", o.Variant(), f))
		}
		return resyncDoc(pre, post, keepJSON)
	}

	want := &ex.Post
	resurrect := pre.Tomb() && want.Body != nil
	tombRelated := o.IsDeletePath() || resurrect || want.Body == nil

	// body / presence
	bodyProps := func() []string {
		ps := []string{"C01"}
		if o.IsSubdoc() {
			ps = append(ps, "C18")
		}
		if o.IsXattrOp() {
			ps = append(ps, "C07")
		}
		if tombRelated {
			ps = append(ps, "C05")
		}
		return uniq(ps...)
	}
	if want.Body != nil {
		if !post.hasBody() {
			rep(bodyProps(), "post.body.missing", fmt.Sprintf("after successful %s on %s the document is not readable (GetRaw: %s)", o.Variant(), pre.Class(), post.RawErr))
		} else {
			same := bytes.Equal(post.Raw, want.Body)
			if ex.BodyJSON {
				same = jsonEqualExact(post.Raw, want.Body)
			}
			if !same {
				rep(bodyProps(), "post.body", fmt.Sprintf("after %s on %s body is %q, want %q", o.Variant(), pre.Class(), trunc(post.Raw), trunc(want.Body)))
			}
		}
	} else {
		if post.hasBody() {
			rep(bodyProps(), "post.body.present", fmt.Sprintf("after %s on %s a body is still readable: %q", o.Variant(), pre.Class(), trunc(post.Raw)))
		} else if !post.present() {
			// a tombstone row was expected but nothing exists: allowed only if it had no xattrs to keep
			if len(want.X) > 0 && !ex.DCX {
				rep(uniq("C05", "C07"), "post.tombstone.gone", fmt.Sprintf("after %s on %s the tombstone and its xattrs %v are gone", o.Variant(), pre.Class(), sortedKeys(want.X)))
			}
		}
	}

	// CAS
	obsCas := post.rowCas()
	if post.present() {
		switch {
		case o.Kind == KSetMeta || o.Kind == KDelMeta:
			if obsCas != o.NewCas {
				rep([]string{"C01"}, "post.cas.meta", fmt.Sprintf("%s stored CAS %d, caller gave %d", o.Kind, obsCas, o.NewCas))
			}
		case ex.NewCas == 1 || (ex.NewCas == -1 && pre.Present && obsCas != pre.Cas):
			if pre.Present && obsCas == pre.Cas {
				rep(uniq("C01", "C02", "C04"), "post.cas.unchanged", fmt.Sprintf("%s on %s succeeded but the CAS did not change (%d)", o.Variant(), pre.Class(), obsCas))
			} else if pre.Present && obsCas < pre.Cas {
				// also when the earlier version was stamped by a WithMeta write (a replicated document whose CAS is ahead
				// of the local clock): "a later write to a key always carries a larger CAS than an earlier one"
				rep(uniq("C04", "C01"), "post.cas.backwards", fmt.Sprintf("%s on %s moved the CAS backwards %d -> %d%s", o.Variant(), pre.Class(), pre.Cas, obsCas, ifs(pre.CasByMeta, " (the earlier version carried a caller-supplied CAS)", "")))
			}
			if res.HasCas && res.CasOut != obsCas {
				rep(uniq("C01"), "post.cas.returned", fmt.Sprintf("%s returned CAS %d but %d is stored", o.Variant(), res.CasOut, obsCas))
			}
		case ex.NewCas == 0:
			if obsCas != pre.Cas {
				rep([]string{"C01"}, "post.cas.changed", fmt.Sprintf("%s changed the CAS %d -> %d", o.Variant(), pre.Cas, obsCas))
			}
		}
		if (o.Kind == KTouch || o.Kind == KGetTouch) && res.CasOut != obsCas {
			rep([]string{"C01"}, "post.cas.returned", fmt.Sprintf("%s returned CAS %d but %d is stored", o.Kind, res.CasOut, obsCas))
		}
	}

	// return values
	if ex.RetNum != nil && res.Num != *ex.RetNum {
		rep([]string{"C01", "C03"}, "ret.num", fmt.Sprintf("Incr returned %d, want %d", res.Num, *ex.RetNum))
	}
	if ex.HasRet && !bytes.Equal(res.Val, ex.RetBody) {
		rep([]string{"C01"}, "ret.body", fmt.Sprintf("%s returned %q, want %q", o.Kind, trunc(res.Val), trunc(ex.RetBody)))
	}

	// expiry
	if post.present() && !post.hasBody() && post.ExpErr != "missing" {
		// C01 lists GetExpiry among the reads that report a deleted key as missing
		rep([]string{"C01", "C05"}, "post.exp.tombstone", fmt.Sprintf("after %s the key has no body, yet GetExpiry answers (expiry %d, error class %q) instead of reporting it missing", o.Variant(), post.Exp, post.ExpErr))
	}
	if !ex.DCExp && post.present() {
		if post.ExpErr == "" {
			if post.Exp < ex.ExpLo || post.Exp > ex.ExpHi {
				ps := []string{"C01", "C14"}
				if o.IsXattrOp() {
					ps = append(ps, "C07")
				}
				if o.Kind == KDelete || o.Kind == KRemove {
					ps = append(ps, "C05")
				}
				rep(uniq(ps...), "post.exp", fmt.Sprintf("after %s on %s (exp arg %d, preserve=%v, previous %d) GetExpiry=%d, want [%d,%d]", o.Variant(), pre.Class(), o.Exp, o.Preserve, pre.Exp, post.Exp, ex.ExpLo, ex.ExpHi))
			}
		} else if !(want.Body == nil && post.ExpErr == "missing") {
			rep([]string{"C01", "C14"}, "post.exp.err", fmt.Sprintf("after %s GetExpiry fails with %s", o.Variant(), post.ExpErr))
		}
	}

	// xattrs
	if !ex.DCX && post.present() {
		got := post.GX
		if post.GXErr != "" {
			got = nil
			if !(post.GXErr == "missing" && want.Body == nil) {
				rep(uniq("C01", "C07"), "post.gx.err", fmt.Sprintf("after %s GetWithXattrs fails with %s", o.Variant(), post.GXErr))
			}
		}
		xprops := func() []string {
			ps := []string{"C07"}
			if tombRelated {
				ps = append(ps, "C05")
			}
			return uniq(ps...)
		}
		for _, name := range XattrPool {
			if ex.DCUserX && !isSystemXattr(name) {
				continue
			}
			wv, wok := want.X[name]
			gv, gok := got[name]
			switch {
			case wok && !gok:
				kind := "post.xattr.lost"
				if ex.FreshX[name] {
					kind = "post.xattr.notset"
				}
				rep(xprops(), kind, fmt.Sprintf("after %s on %s xattr %s is missing (want %s)", o.Variant(), pre.Class(), name, trunc([]byte(wv))))
			case !wok && gok:
				kind := "post.xattr.leaked"
				if _, was := pre.X[name]; !was {
					kind = "post.xattr.invented"
				}
				rep(xprops(), kind, fmt.Sprintf("after %s on %s xattr %s=%s is present but should not be", o.Variant(), pre.Class(), name, trunc([]byte(gv))))
			case wok && gok:
				if mx, isMacro := ex.MacroX[name]; isMacro {
					exp := strings.ReplaceAll(mx, "${cas}", casMacroString(obsCas))
					exp = strings.ReplaceAll(exp, "${crc}", crc32cString(post.Raw))
					if !jsonEqualExact([]byte(gv), []byte(exp)) {
						rep([]string{"C07"}, "post.macro", fmt.Sprintf("after %s xattr %s=%s, want %s (new CAS %d, stored body crc %s)", o.Variant(), name, gv, exp, obsCas, crc32cString(post.Raw)))
					}
				} else if ex.FreshX[name] {
					if !jsonEqualExact([]byte(gv), []byte(wv)) {
						rep(xprops(), "post.xattr.value", fmt.Sprintf("after %s xattr %s=%s, want %s", o.Variant(), name, trunc([]byte(gv)), trunc([]byte(wv))))
					}
				} else if gv != wv {
					rep(xprops(), "post.xattr.touched", fmt.Sprintf("%s did not name xattr %s but its bytes changed %q -> %q", o.Variant(), name, trunc([]byte(wv)), trunc([]byte(gv))))
				}
			}
		}
	}

	// revision number
	if post.present() {
		if r, okr := post.rev(); !okr || r != want.Rev {
			rep([]string{"C17"}, "post.rev", fmt.Sprintf("after %s on %s (rev %d) $document.revid=%s, want %d", o.Variant(), pre.Class(), pre.Rev, post.RevID, want.Rev))
		}
	}

	d := docFromObs(post, want.JSON)
	d.CasByMeta = o.Kind == KSetMeta || o.Kind == KDelMeta || (pre.CasByMeta && d.Cas == pre.Cas)
	return d
}

func refusalName(r *Result) string {
	if r.IsAdd && r.Err == "" {
		return "added=false"
	}
	return r.Err
}

func panicProps(o *Op) []string {
	ps := []string{"C01"}
	if o.IsXattrOp() {
		ps = append(ps, "C07")
	}
	if o.IsSubdoc() {
		ps = append(ps, "C18")
	}
	return ps
}

func trunc(b []byte) string {
	if len(b) > 80 {
		return string(b[:80]) + "…"
	}
	return string(b)
}

// judgeObservers: model-free agreement between the read entry points (C05, C01).
func judgeObservers(st *Step, rep Reporter) {
	p := &st.PostObs
	has := p.hasBody()
	if p.ExErr == "" && p.Exists != has {
		rep([]string{"C01", "C05"}, "observer.exists", fmt.Sprintf("after %s: Exists=%v but GetRaw %s", st.Op.Variant(), p.Exists, orOK(p.RawErr)))
	}
	// Get (the decoding read) must agree with GetRaw
	if (p.GetErr == "") != has || (has && (!bytes.Equal(p.GetBody, p.Raw) || p.GetCas != p.RawCas)) {
		rep([]string{"C01", "C05"}, "observer.get", fmt.Sprintf("after %s: Get %s (cas %d, %d bytes) but GetRaw %s (cas %d, %d bytes)", st.Op.Variant(), orOK(p.GetErr), p.GetCas, len(p.GetBody), orOK(p.RawErr), p.RawCas, len(p.Raw)))
	} else if has && p.GetJSONErr != "" {
		rep([]string{"C01"}, "observer.get.json", fmt.Sprintf("after %s: Get into a Go value failed for a valid JSON body: %s", st.Op.Variant(), p.GetJSONErr))
	}
	if p.GXErr == "" {
		if (p.GXBody != nil) != has {
			rep([]string{"C01", "C05"}, "observer.getwithxattrs.body", fmt.Sprintf("after %s: GetWithXattrs body present=%v but GetRaw %s", st.Op.Variant(), p.GXBody != nil, orOK(p.RawErr)))
		} else if has && !bytes.Equal(p.GXBody, p.Raw) {
			rep([]string{"C01"}, "observer.getwithxattrs.bytes", "GetWithXattrs and GetRaw return different bodies")
		}
		if has && p.GXCas != p.RawCas {
			rep([]string{"C01"}, "observer.cas", fmt.Sprintf("GetWithXattrs CAS %d != GetRaw CAS %d", p.GXCas, p.RawCas))
		}
		if p.XErr == "" && !mapEq(p.X, p.GX) {
			rep([]string{"C07"}, "observer.getxattrs", "GetXattrs and GetWithXattrs disagree about the xattrs")
		}
	} else if has && p.GXErr == "missing" {
		rep([]string{"C01", "C05"}, "observer.getwithxattrs.missing", "GetRaw returns a body but GetWithXattrs reports the key missing")
	}
	if p.VErr == "" && p.DocV != "" {
		var dv struct {
			CRC string `json:"value_crc32c"`
			Rev string `json:"revid"`
		}
		if json.Unmarshal([]byte(p.DocV), &dv) == nil {
			if `"`+dv.Rev+`"` != p.RevID {
				rep([]string{"C17"}, "observer.revid", fmt.Sprintf("$document.revid=%s but $document says %q", p.RevID, dv.Rev))
			}
			if dv.CRC != crc32cString(p.Raw) {
				rep([]string{"C01", "C07"}, "observer.crc", fmt.Sprintf("$document.value_crc32c=%s but the stored body hashes to %s", dv.CRC, crc32cString(p.Raw)))
			}
		}
	}
}

func orOK(s string) string {
	if s == "" {
		return "succeeds"
	}
	return "fails with " + s
}

// ---------------------------------------------------------------- feed events

// EvView is a decoded feed event.
type EvView struct {
	Deletion bool
	Body     []byte
	X        map[string]string
	JSON     bool
	XFlag    bool
}

func decodeEv(e *Ev) (EvView, error) {
	v := EvView{Deletion: e.Op == sgbucket.FeedOpDeletion, JSON: e.DT&sgbucket.FeedDataTypeJSON != 0, XFlag: e.DT&sgbucket.FeedDataTypeXattr != 0}
	if v.XFlag {
		body, xattrs, err := sgbucket.DecodeValueWithAllXattrs(e.Value)
		if err != nil {
			return v, err
		}
		v.Body = body
		if len(body) == 0 {
			v.Body = nil
		}
		v.X = xstrings(xattrs)
	} else {
		v.Body = e.Value
	}
	return v, nil
}

// CompareEvent checks a (live or backfill) event against the current read-back of its key.
// pfx is "event" or "backfill"; owner is the primary property (C08 / C09).
func CompareEvent(pfx, owner string, e *Ev, o *Obs, wantJSON *bool, collID uint32, keysOnly bool, rep Reporter, ctx string) {
	if keysOnly {
		// a KeysOnly feed carries no value and no xattrs; everything else must describe the document
		if e.Value != nil {
			rep([]string{owner}, pfx+".keysonly.value", fmt.Sprintf("%s: a KeysOnly feed received a value of %d bytes", ctx, len(e.Value)))
		}
		has := o.hasBody()
		if (e.Op == sgbucket.FeedOpDeletion) == has {
			rep(uniq(owner, "C05"), pfx+".opcode", fmt.Sprintf("%s (KeysOnly): opcode deletion=%v but the document %s a body", ctx, e.Op == sgbucket.FeedOpDeletion, ifs(has, "has", "has no")))
		}
		if e.Cas != o.rowCas() {
			rep([]string{owner}, pfx+".cas", fmt.Sprintf("%s (KeysOnly): event CAS %d, stored CAS %d", ctx, e.Cas, o.rowCas()))
		}
		if o.ExpErr == "" && e.Exp != o.Exp {
			rep(uniq(owner), pfx+".expiry", fmt.Sprintf("%s (KeysOnly): event expiry %d, stored %d", ctx, e.Exp, o.Exp))
		}
		if r, ok := o.rev(); ok && e.Rev != r {
			rep(uniq(owner, "C17"), pfx+".rev", fmt.Sprintf("%s (KeysOnly): event RevNo %d, $document.revid %d", ctx, e.Rev, r))
		}
		if e.Coll != collID {
			rep(uniq(owner, "C11"), pfx+".collection", fmt.Sprintf("%s (KeysOnly): event collection id %d, want %d", ctx, e.Coll, collID))
		}
		if wantJSON != nil && (e.DT&sgbucket.FeedDataTypeJSON != 0) != *wantJSON {
			rep([]string{owner}, pfx+".datatype", fmt.Sprintf("%s (KeysOnly): event datatype JSON=%v, document JSON=%v", ctx, e.DT&sgbucket.FeedDataTypeJSON != 0, *wantJSON))
		}
		return
	}
	v, err := decodeEv(e)
	if err != nil {
		rep([]string{owner}, pfx+".decode", fmt.Sprintf("%s: cannot decode value with xattrs: %v", ctx, err))
		return
	}
	has := o.hasBody()
	if v.Deletion == has {
		rep(uniq(owner, "C05"), pfx+".opcode", fmt.Sprintf("%s: opcode deletion=%v but the document %s a body", ctx, v.Deletion, ifs(has, "has", "has no")))
	}
	if e.Cas != o.rowCas() {
		rep([]string{owner}, pfx+".cas", fmt.Sprintf("%s: event CAS %d, stored CAS %d", ctx, e.Cas, o.rowCas()))
	}
	wantBody := o.Raw
	if !has {
		wantBody = nil
	}
	if !bytes.Equal(v.Body, wantBody) {
		rep([]string{owner}, pfx+".body", fmt.Sprintf("%s: event body %q, stored %q", ctx, trunc(v.Body), trunc(wantBody)))
	}
	wantX := o.GX
	if o.GXErr != "" {
		wantX = nil
	}
	if !mapEq(v.X, wantX) {
		rep(uniq(owner, "C07"), pfx+".xattrs", fmt.Sprintf("%s: event xattrs %v, stored %v", ctx, v.X, wantX))
	}
	// The xattr datatype flag is only the framing of Value (already decoded above): a set flag with an empty
	// xattr section decodes to the same body and xattrs, so it is not judged on its own.
	if o.ExpErr == "" && e.Exp != o.Exp {
		rep(uniq(owner), pfx+".expiry", fmt.Sprintf("%s: event expiry %d, stored %d", ctx, e.Exp, o.Exp))
	}
	if r, ok := o.rev(); ok && e.Rev != r {
		rep(uniq(owner, "C17"), pfx+".rev", fmt.Sprintf("%s: event RevNo %d, $document.revid %d", ctx, e.Rev, r))
	}
	if e.Coll != collID {
		rep(uniq(owner, "C11"), pfx+".collection", fmt.Sprintf("%s: event collection id %d, want %d", ctx, e.Coll, collID))
	}
	if wantJSON != nil && v.JSON != *wantJSON {
		rep([]string{owner}, pfx+".datatype", fmt.Sprintf("%s: event datatype JSON=%v, document JSON=%v", ctx, v.JSON, *wantJSON))
	}
}

func ifs(c bool, a, b string) string {
	if c {
		return a
	}
	return b
}

// Exported accessors for other engines.
func (o *Obs) RowCas() uint64      { return o.rowCas() }
func (o *Obs) Present() bool       { return o.present() }
func (o *Obs) HasBody() bool       { return o.hasBody() }
func (o *Obs) Rev() (uint64, bool) { return o.rev() }
