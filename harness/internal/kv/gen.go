package kv

import (
	"encoding/json"
	"fmt"

	sgbucket "github.com/couchbase/sg-bucket"

	"verifharness/internal/rng"
)

// ---- value pools

var jsonBodies = []string{
	`{"n":1,"t":"a","tags":["x","y"],"sub":{"p":1,"q":{"r":true}}}`,
	`{"n":2,"t":"b","tags":[],"sub":{"p":2},"gap":null}`,
	`{"n":3,"t":"a","s":"he said \"hi\" <&>","arr":[1,2,3]}`,
	`{"n":-4,"t":"c","deep":{"a":{"b":{"c":1}}},"gap":{"y":null}}`,
	`{"n":5.5,"t":"b","u":"ünï©ødé"}`,
	`{"t":"nokey"}`,
	`{"n":8,"t":"v","bell":"ring\u0007ring","del":"a\u007fb","astral":"tag\udb40\udc01end","sub":{"p":"v\u000bt\u0001","q":{"r":"\u001f"}}}`,
	`{"n":9,"t":"e","":{"x":1,"":0},"sub":{"":2,"p":3,"q":{"":{"r":4}}}}`, // the empty string is a legal property name
	`{"n":10,"t":"Apple","tags":["B","a"]}`, // strings whose byte order is not their collation order
	`{"n":11,"t":"a-b","tags":["a-b","aa"]}`,
	`{"n":12,"t":"Banana"}`,
	`{"n":13,"t":"apple"}`,
	`{"n":6,"t":"c","big":9007199254740993,"dec":1.0000000000000000001,"sub":{"p":3,"q":{"r":12345678901234567890}}}`,
}

var emptyBody = []byte{}

var rawBodies = []string{
	"raw-bytes\x00\x01\xff\xfe end",
	"plain text, not json",
	"[not json",
	"\x89PNG\r\n\x1a\n",
}

var counterBodies = []string{"0", "7", "41"}

var xattrValues = []string{
	`{"seq":1,"rev":"1-abc"}`,
	`{"seq":2,"rev":"2-def","history":["1-abc"],"flags":0}`,
	`{"seq":30,"s":"<tag> & \"q\"","nested":{"k":[1,2,{"z":null}]}}`,
	`"just a string"`,
	`12345`,
	`1`, // {"u1":1} and {"_x":1} are eight bytes long
	`[1,"two",{"three":3}]`,
	`{"a":"x",   "b":  [ 1 , 2 ] }`, // whitespace that a re-marshal would normalise
	`{"seq":4,"big":9007199254740993,"dec":0.1000000000000000055511151231257827}`, // numbers a float64 round trip would change
}

var xattrObjValues = []string{
	`{"seq":5,"big":12345678901234567890}`,
	`{"seq":1,"rev":"1-abc"}`,
	`{"seq":2,"cas":"old","crc":"old","k":{"j":1}}`,
}

const farExp = 2000000000 // absolute, year 2033
const relExp = 2000000    // relative (< 30 days), ~23 days

const maxRelExp = 60 * 60 * 24 * 30 // the largest offset: exactly 30 days is still relative

var expChoices = []uint32{0, 0, farExp, farExp + 77, relExp, relExp + 5, maxRelExp, maxRelExp - 1}

// Gen builds ops from a PRNG.
type Gen struct {
	R       *rng.R
	Keys    []string
	Colls   int
	Bkts    int
	Hnd     int
	BadJSON int // if > 0, one in BadJSON xattr-setting ops carries an unparseable xattr value
	Big     int // if > 0, one in Big bodies is padded to 64 KiB - 1 MiB
	EmptyX  int // if > 0, one in EmptyX bodies handed to the body+xattr entry points is zero-length (but not nil)
	Short   int // if > 0, one in Short JSON bodies is a very short document (SQLite takes some 8-byte texts for JSONB)
	TrailWS int // if > 0, one in TrailWS JSON bodies ends in insignificant whitespace (what json.Encoder writes)
	n       int
}

func (g *Gen) uniq() string { g.n++; return fmt.Sprintf("%d", g.n) }

func (g *Gen) jsonBody() []byte {
	if g.Big > 0 && g.R.Chance(1, g.Big) {
		pad := make([]byte, (64<<10)<<uint(g.R.Intn(5)))
		for i := range pad {
			pad[i] = byte('a' + i%26)
		}
		return []byte(`{"n":7,"t":"big","u":"` + g.uniq() + `","pad":"` + string(pad) + `"}`)
	}
	if g.Short > 0 && g.R.Chance(1, g.Short) {
		return []byte(rng.Pick(g.R, []string{`{"n":10}`, `{"n":77}`, `{"t":1}`, `[1,22]`, `{"ab":1}`, `{"n":1}`, `{"n":100}`}))
	}
	b := rng.Pick(g.R, jsonBodies)
	// make the value unique so a read identifies the write it observed
	out := b[:len(b)-1] + `,"u":"` + g.uniq() + `"}`
	if g.TrailWS > 0 && g.R.Chance(1, g.TrailWS) {
		out += rng.Pick(g.R, []string{"\n", " ", "\r\n", "\t\n"})
	}
	return []byte(out)
}

// xBody is the body handed to WriteWithXattrs / WriteResurrectionWithXattrs / WriteUpdateWithXattrs.
func (g *Gen) xBody() []byte {
	if g.EmptyX > 0 && g.R.Chance(1, g.EmptyX) {
		return []byte{} // a zero-length body is still a body, not a request to delete it
	}
	return g.jsonBody()
}
func (g *Gen) rawBody() []byte {
	if g.R.Chance(1, 12) {
		return emptyBody // a zero-length body is still a body
	}
	return []byte(rng.Pick(g.R, rawBodies) + "#" + g.uniq())
}
func (g *Gen) exp() uint32 { return rng.Pick(g.R, expChoices) }
func (g *Gen) key() string { return rng.Pick(g.R, g.Keys) }
func (g *Gen) casClass(w []int) string {
	return []string{CasZero, CasCurrent, CasStale, CasBogus}[g.R.Weighted(w)]
}

func (g *Gen) xset(max int, objOnly bool) map[string]string {
	n := 1 + g.R.Intn(max)
	m := map[string]string{}
	for i := 0; i < n; i++ {
		name := rng.Pick(g.R, XattrPool)
		if objOnly {
			m[name] = rng.Pick(g.R, xattrObjValues)
		} else {
			v := rng.Pick(g.R, xattrValues)
			m[name] = v
		}
	}
	return m
}

func (g *Gen) xnames(max int) []string {
	n := 1 + g.R.Intn(max)
	seen := map[string]bool{}
	var out []string
	for i := 0; i < n; i++ {
		name := rng.Pick(g.R, XattrPool)
		if !seen[name] {
			seen[name] = true
			out = append(out, name)
		}
	}
	return out
}

func (g *Gen) place(o Op) Op {
	o.Key = g.key()
	if g.Colls > 1 {
		o.Coll = g.R.Intn(g.Colls)
	}
	if g.Bkts > 1 && g.R.Chance(1, 5) {
		o.Bucket = 1 + g.R.Intn(g.Bkts-1)
	}
	if g.Hnd > 1 {
		o.Handle = g.R.Intn(g.Hnd)
	}
	return o
}

var casW = []int{2, 5, 2, 1} // zero, current, stale, bogus

// Make builds a random op of the given kind (unplaced: no key/collection).
func (g *Gen) Make(kind string) Op {
	o := Op{Kind: kind}
	switch kind {
	case KAdd:
		o.Body, o.Exp = g.jsonBody(), g.exp()
	case KAddRaw:
		if g.R.Bool() {
			o.Body = g.jsonBody()
		} else {
			o.Body = g.rawBody()
		}
		o.Exp = g.exp()
	case KSet:
		o.Body, o.Exp, o.Preserve = g.jsonBody(), g.exp(), g.R.Chance(1, 4)
	case KSetRaw:
		o.Body, o.Exp, o.Preserve = g.rawBody(), g.exp(), g.R.Chance(1, 4)
	case KWriteCas:
		o.Exp = g.exp()
		o.CasClass = g.casClass(casW)
		switch g.R.Intn(6) {
		case 0:
			o.Raw, o.Body = true, g.rawBody()
		case 1:
			o.AddOnly, o.Body = true, g.jsonBody()
			// the flag is a bit: it must be honoured in combination with every other one
			switch g.R.Intn(4) {
			case 0:
				o.Raw, o.Body = true, g.rawBody()
			case 1:
				o.Flags = rng.Pick(g.R, []int{int(sgbucket.Persist), int(sgbucket.Indexable), int(sgbucket.Persist | sgbucket.Indexable)})
			}
		case 2:
			o.Append, o.Body = true, []byte("+app"+g.uniq())
			o.CasClass = g.casClass([]int{1, 6, 2, 1})
		case 3:
			if g.R.Chance(1, 2) {
				o.BodyNil, o.AddOnly = true, g.R.Chance(1, 3) // a deletion through WriteCas, also down the insert path
				break
			}
			o.Body = g.jsonBody()
		default:
			o.Body = g.jsonBody()
		}
	case KRemove:
		o.CasClass = g.casClass([]int{1, 6, 2, 1})
	case KDelete:
	case KUpdate:
		o.Mode = rng.Pick(g.R, []string{"set", "set", "set", "delete", "cancel", "error", "exponly", "retryonce"})
		o.Body, o.Exp = g.jsonBody(), g.exp()
		if g.R.Chance(1, 3) || o.Mode == "exponly" {
			e := g.exp()
			o.CbExp = &e
		}
	case KIncr:
		o.Amt, o.Def, o.Exp = uint64(g.R.Intn(10)), uint64(g.R.Intn(100)), g.exp()
		if g.R.Chance(1, 6) {
			o.Def = 9223372036854775800 + uint64(g.R.Intn(16)) // counters around 2^63
		}
	case KTouch, KGetTouch:
		o.Exp = g.exp()
	case KSetX:
		o.X = g.xset(3, false)
	case KRemoveX:
		o.XDel = g.xnames(2)
		o.BadName = g.R.Chance(1, 10)
		o.CasClass = g.casClass([]int{1, 6, 2, 1})
	case KDelPaths:
		o.XDel = g.xnames(3)
		o.BadName = g.R.Chance(1, 8)
	case KUpdateX:
		o.X, o.Exp, o.Preserve = g.xset(2, false), g.exp(), g.R.Chance(1, 3)
		o.CasClass = g.casClass([]int{1, 6, 2, 1})
		g.maybeMacro(&o)
	case KWriteWX:
		o.Exp, o.Preserve = g.exp(), g.R.Chance(1, 4)
		o.CasClass = g.casClass([]int{3, 5, 2, 1})
		o.X = g.xset(3, false)
		if g.R.Chance(1, 4) {
			o.BodyNil = true
		} else {
			o.Body = g.xBody()
		}
		if g.R.Chance(1, 3) {
			o.XDel = g.xnames(2)
			for _, d := range o.XDel {
				if g.R.Chance(3, 4) {
					delete(o.X, d) // mostly avoid the upsert+delete validation error
				}
			}
		}
		if len(o.X) == 0 && g.R.Chance(3, 4) {
			o.X = g.xset(1, false)
			o.XDel = nil
		}
		g.maybeMacro(&o)
	case KWriteTomb:
		o.Exp = g.exp()
		o.CasClass = g.casClass([]int{2, 6, 2, 1})
		o.X = g.xset(2, false)
		o.DelBody = g.R.Bool()
		if g.R.Chance(1, 5) {
			// the older entry point for the same write: one xattr, no deletions, DeleteBody not set
			o.DelBody, o.Legacy = false, true
			o.X = g.xset(1, false)
			g.maybeMacro(&o)
			break
		}
		if g.R.Chance(1, 4) {
			o.XDel = g.xnames(1)
			for _, d := range o.XDel {
				delete(o.X, d)
			}
			if len(o.X) == 0 {
				o.X = map[string]string{"_x": `{"k":1}`}
				if o.XDel[0] == "_x" {
					o.XDel = []string{"_vv"}
				}
			}
		}
		g.maybeMacro(&o)
	case KWriteRes:
		o.Exp, o.Body = g.exp(), g.xBody()
		if g.R.Chance(4, 5) {
			o.X = g.xset(2, false)
		}
		g.maybeMacro(&o)
	case KWriteUpd:
		o.Mode = rng.Pick(g.R, []string{"body", "body", "xonly", "tomb", "error", "retryonce"})
		o.Body = g.xBody()
		o.X = g.xset(2, false)
		if g.R.Chance(1, 3) {
			e := g.exp()
			o.CbExp = &e
		}
		if g.R.Chance(1, 5) {
			o.XDel = g.xnames(1)
			for _, d := range o.XDel {
				delete(o.X, d)
			}
			if len(o.X) == 0 {
				o.X = map[string]string{"_x": `{"k":2}`}
				if o.XDel[0] == "_x" {
					o.XDel = []string{"_vv"}
				}
			}
		}
		g.maybeMacro(&o)
		if g.R.Chance(1, 3) {
			o.Preserve = true
		}
		if len(o.Macros) > 0 && g.R.Bool() {
			o.SpecInCb = true
		}
	case KDeleteWX:
		o.XDel = g.xnames(2)
		o.BadName = g.R.Chance(1, 8)
	case KSetMeta:
		o.CasClass = g.casClass([]int{2, 6, 2, 1})
		o.NewCasClass = rng.Pick(g.R, []string{"above", "above", "below", "far", "between"})
		o.Exp = rng.Pick(g.R, []uint32{0, farExp, farExp + 9})
		if g.R.Bool() {
			o.Body, o.JSON = g.jsonBody(), true
		} else {
			o.Body = g.rawBody()
		}
		if g.R.Chance(2, 3) {
			o.XRaw = g.xblob()
		}
	case KDelMeta:
		o.CasClass = g.casClass([]int{2, 6, 2, 1})
		o.NewCasClass = rng.Pick(g.R, []string{"above", "above", "below", "far", "between"})
		o.Exp = rng.Pick(g.R, []uint32{0, farExp})
		if g.R.Chance(2, 3) {
			o.XRaw = g.xblob()
		}
	case KWriteSub, KSubInsert:
		o.Path = rng.Pick(g.R, subdocPaths)
		o.CasClass = g.casClass([]int{5, 4, 2, 1})
		if kind == KWriteSub && g.R.Chance(1, 5) {
			o.Body = nil // remove the property
			if g.R.Bool() {
				o.Body = []byte{} // an empty value removes too, nil or not
			}
		} else {
			o.Body = []byte(rng.Pick(g.R, subdocValues))
			if g.R.Bool() {
				o.Body = []byte(`"v` + g.uniq() + `"`)
			}
		}
	case KGetSub:
		o.Path = rng.Pick(g.R, subdocPaths)
	case KPurge, KDropColl:
	}
	return o
}

var subdocPaths = []string{"gap.x", "gap.y.z", "n", "t", "newprop", "sub.p", "sub.q.r", "sub.newp", "sub.q.newr", "tags.x", "n.x", "missing.x", "deep.a.b.c", "deep.a.b.d", "sub", "bell", "del", "astral", "sub.", ".x", "sub..p", "."}
var subdocValues = []string{`9007199254740993`, `1`, `"str"`, `{"k":"v"}`, `[1,2]`, `true`, `{"p":9,"z":{"y":1}}`}

// xblob builds the xattr blob handed to SetWithMeta/DeleteWithMeta. rosmar stores that blob verbatim and
// re-marshals it (compacting whitespace, escaping HTML characters) on the next xattr write, so the blob is
// generated in encoding/json's canonical form: otherwise the byte-identity oracle for xattrs an operation
// did not name (C07) would report a JSON-equivalent normalisation (DESIGN §3.12).
func (g *Gen) xblob() []byte {
	m := g.xset(3, false)
	parsed := map[string]any{}
	for k, v := range m {
		var x any
		_ = json.Unmarshal([]byte(v), &x)
		parsed[k] = x
	}
	b, _ := json.Marshal(parsed)
	return b
}

func (g *Gen) maybeMacro(o *Op) {
	if !g.R.Chance(1, 3) || len(o.X) == 0 {
		return
	}
	// put a macro on one xattr that carries an object value
	var present []string
	for _, name := range XattrPool {
		if _, ok := o.X[name]; ok {
			present = append(present, name)
		}
	}
	if len(present) == 0 {
		return
	}
	for _, name := range present[g.R.Intn(len(present)):] {
		o.X[name] = rng.Pick(g.R, xattrObjValues)
		if g.R.Chance(1, 12) {
			// an argument error: the path stops at the xattr's name (the call must fail cleanly, or expand nothing)
			o.Macros = append(o.Macros, Macro{Path: name, Type: 0})
			o.BadMacro = true
			return
		}
		if g.R.Chance(1, 4) {
			// the macros address properties of a nested object
			o.X[name] = `{"seq":7,"meta":{"rev":"3-c","deep":{"x":1}},"k":2}`
			o.Macros = append(o.Macros, Macro{Path: name + ".meta.cas", Type: 0})
			if g.R.Bool() {
				o.Macros = append(o.Macros, Macro{Path: name + ".meta.deep.crc", Type: 1})
			}
			return
		}
		o.Macros = append(o.Macros, Macro{Path: name + ".cas", Type: 0})
		if g.R.Bool() {
			o.Macros = append(o.Macros, Macro{Path: name + ".crc", Type: 1})
		}
		return
	}
}

// AllKinds lists every mutating op kind of the KV / xattr / subdoc API.
var AllKinds = []string{KAdd, KAddRaw, KSet, KSetRaw, KWriteCas, KRemove, KDelete, KUpdate, KIncr, KTouch, KGetTouch,
	KSetX, KRemoveX, KDelPaths, KUpdateX, KWriteWX, KWriteTomb, KWriteRes, KWriteUpd, KDeleteWX, KSetMeta, KDelMeta, KWriteSub, KSubInsert}

// Profile is a weighting of op kinds.
type Profile map[string]int

func (p Profile) pick(r *rng.R) string {
	kinds := make([]string, 0, len(p))
	for _, k := range AllKinds {
		if p[k] > 0 {
			kinds = append(kinds, k)
		}
	}
	for _, k := range []string{KPurge, KDropColl, KGetSub} {
		if p[k] > 0 {
			kinds = append(kinds, k)
		}
	}
	w := make([]int, len(kinds))
	for i, k := range kinds {
		w[i] = p[k]
	}
	return kinds[r.Weighted(w)]
}

// Uniform gives every mutating kind the same weight.
func Uniform(w int) Profile {
	p := Profile{}
	for _, k := range AllKinds {
		p[k] = w
	}
	return p
}

func (p Profile) With(kv ...any) Profile {
	q := Profile{}
	for k, v := range p {
		q[k] = v
	}
	for i := 0; i+1 < len(kv); i += 2 {
		q[kv[i].(string)] = kv[i+1].(int)
	}
	return q
}

// Random returns a placed random op drawn from the profile.
func (g *Gen) Random(p Profile) Op {
	o := g.Make(p.pick(g.R))
	if g.BadJSON > 0 && len(o.X) > 0 && g.R.Chance(1, g.BadJSON) {
		switch o.Kind {
		case KSetX, KUpdateX, KWriteWX, KWriteTomb, KWriteRes, KWriteUpd:
			o.BadJSONX = true
		}
	}
	return g.place(o)
}

// ---------------------------------------------------------------- bounded-exhaustive catalogue

// Variants enumerates every op shape (kind × option × CAS class) with fixed representative arguments.
func Variants() []Op {
	var out []Op
	jb := []byte(`{"n":9,"t":"v","sub":{"p":1},"gap":null}`)
	rb := []byte("raw\x00variant")
	x1 := map[string]string{"_sync": `{"seq":7,"rev":"7-x"}`, "u1": `{"a": 1}`}
	xs := map[string]string{"_vv": `{"cv":"1@a"}`}
	add := func(o Op) { out = append(out, o) }
	add(Op{Kind: KAdd, Body: jb})
	add(Op{Kind: KAdd, Body: jb, Exp: farExp})
	add(Op{Kind: KAddRaw, Body: rb, Exp: relExp})
	add(Op{Kind: KSet, Body: jb})
	add(Op{Kind: KSet, Body: jb, Exp: farExp + 1})
	add(Op{Kind: KSet, Body: jb, Exp: farExp + 2, Preserve: true})
	add(Op{Kind: KSetRaw, Body: rb})
	add(Op{Kind: KSetRaw, Body: []byte{}}) // a zero-length body is still a body
	add(Op{Kind: KAddRaw, Body: []byte{}})
	add(Op{Kind: KWriteCas, Raw: true, Body: []byte{}, CasClass: CasCurrent})
	for _, cc := range []string{CasZero, CasCurrent, CasStale, CasBogus} {
		add(Op{Kind: KWriteCas, Body: jb, CasClass: cc, Exp: farExp + 3})
		add(Op{Kind: KWriteCas, Body: rb, Raw: true, CasClass: cc})
		add(Op{Kind: KWriteCas, Body: jb, AddOnly: true, CasClass: cc})
		add(Op{Kind: KWriteCas, Body: rb, AddOnly: true, Raw: true, CasClass: cc})
		add(Op{Kind: KWriteCas, BodyNil: true, AddOnly: cc == CasBogus, CasClass: cc}) // a deletion through WriteCas (what Update(delete) issues), also down the insert path
		add(Op{Kind: KWriteCas, Body: jb, AddOnly: true, Flags: int(sgbucket.Persist), CasClass: cc})
		add(Op{Kind: KWriteCas, Body: jb, Flags: int(sgbucket.Indexable), CasClass: cc})
		add(Op{Kind: KWriteCas, Body: []byte("+tail"), Append: true, CasClass: cc})
		add(Op{Kind: KRemove, CasClass: cc})
		add(Op{Kind: KRemoveX, CasClass: cc, XDel: []string{"_sync"}})
		add(Op{Kind: KRemoveX, CasClass: cc, XDel: []string{"u1", "_vv"}})
		add(Op{Kind: KUpdateX, CasClass: cc, X: xs, Exp: farExp + 4})
		add(Op{Kind: KUpdateX, CasClass: cc, X: xs, Exp: farExp + 4, Preserve: true})
		add(Op{Kind: KWriteWX, CasClass: cc, Body: jb, X: x1, Exp: farExp + 5})
		add(Op{Kind: KWriteWX, CasClass: cc, BodyNil: true, X: xs})
		add(Op{Kind: KWriteWX, CasClass: cc, Body: jb, X: xs, XDel: []string{"u1"}, Preserve: true})
		add(Op{Kind: KWriteTomb, CasClass: cc, X: xs, Exp: farExp + 6})
		add(Op{Kind: KWriteTomb, CasClass: cc, X: xs, DelBody: true})
		add(Op{Kind: KWriteTomb, CasClass: cc, X: xs, Legacy: true, Exp: farExp + 13})
		add(Op{Kind: KSetMeta, CasClass: cc, NewCasClass: "above", Body: jb, JSON: true, XRaw: []byte(`{"_sync":{"m":1},"u2":[1]}`), Exp: farExp + 7})
		add(Op{Kind: KDelMeta, CasClass: cc, NewCasClass: "above", XRaw: []byte(`{"_sync":{"m":2}}`)})
		add(Op{Kind: KWriteSub, CasClass: cc, Path: "sub.p", Body: []byte(`"new"`)})
		add(Op{Kind: KWriteSub, CasClass: cc, Path: "added", Body: []byte(`{"k":1}`)})
		add(Op{Kind: KSubInsert, CasClass: cc, Path: "ins", Body: []byte(`5`)})
		add(Op{Kind: KSubInsert, CasClass: cc, Path: "n", Body: []byte(`5`)})
	}
	add(Op{Kind: KDelete})
	for _, m := range []string{"set", "delete", "cancel", "error", "exponly", "retryonce"} {
		e := uint32(farExp + 8)
		o := Op{Kind: KUpdate, Mode: m, Body: jb, Exp: farExp + 9}
		if m == "exponly" {
			o.CbExp = &e
		}
		add(o)
	}
	add(Op{Kind: KIncr, Amt: 3, Def: 10})
	add(Op{Kind: KIncr, Amt: 1, Def: 9223372036854775807}) // the counter is unsigned: 2^63-1, then 2^63, ...
	add(Op{Kind: KIncr, Amt: 2, Def: 18446744073709551000})
	add(Op{Kind: KIncr, Amt: 0, Def: 7, Exp: farExp + 11}) // "read the counter": still a write (creates it, sets the expiry, new CAS)
	add(Op{Kind: KIncr, Amt: 1, Def: 0, Exp: farExp + 10})
	add(Op{Kind: KTouch, Exp: farExp + 11})
	add(Op{Kind: KTouch, Exp: maxRelExp})
	add(Op{Kind: KSet, Body: jb, Exp: maxRelExp})
	add(Op{Kind: KAddRaw, Body: rb, Exp: maxRelExp})
	add(Op{Kind: KTouch, Exp: 0})
	add(Op{Kind: KGetTouch, Exp: relExp + 1})
	add(Op{Kind: KSetX, X: xs})
	add(Op{Kind: KSetX, X: map[string]string{"u2": `"s"`, "_x": `[1]`}})
	add(Op{Kind: KDelPaths, XDel: []string{"_sync"}})
	add(Op{Kind: KDelPaths, XDel: []string{"u1", "u2", "_x"}})
	add(Op{Kind: KWriteRes, Body: jb, X: xs, Exp: farExp + 12})
	add(Op{Kind: KWriteRes, Body: jb})
	for _, m := range []string{"body", "xonly", "tomb", "error", "retryonce"} {
		add(Op{Kind: KWriteUpd, Mode: m, Body: jb, X: xs})
	}
	add(Op{Kind: KWriteUpd, Mode: "body", Body: jb, X: xs, XDel: []string{"u1"}})
	add(Op{Kind: KDeleteWX, XDel: []string{"_sync"}})
	add(Op{Kind: KDeleteWX, XDel: []string{"_sync", "_vv"}, BadName: true})
	add(Op{Kind: KDelPaths, XDel: []string{"_sync", "u1"}, BadName: true})
	add(Op{Kind: KWriteUpd, Mode: "body", Body: jb, X: map[string]string{"_sync": `{"seq":1}`}, Preserve: true, SpecInCb: true, Macros: []Macro{{Path: "_sync.cas", Type: 0}, {Path: "_sync.crc", Type: 1}}})
	add(Op{Kind: KWriteUpd, Mode: "xonly", X: map[string]string{"_sync": `{"seq":2}`}, Preserve: true})
	add(Op{Kind: KDeleteWX, XDel: []string{"u1"}})
	add(Op{Kind: KWriteSub, CasClass: CasZero, Path: "sub.p", Body: nil})
	add(Op{Kind: KWriteSub, CasClass: CasZero, Path: "sub.p", Body: []byte{}})
	add(Op{Kind: KWriteSub, CasClass: CasCurrent, Path: "n", Body: []byte{}})
	add(Op{Kind: KWriteSub, CasClass: CasZero, Path: "gap.x", Body: []byte(`1`)})
	add(Op{Kind: KSubInsert, CasClass: CasZero, Path: "gap.x", Body: []byte(`1`)})
	add(Op{Kind: KWriteWX, CasClass: CasZero, Body: []byte{}, X: xs})
	add(Op{Kind: KWriteWX, CasClass: CasCurrent, Body: []byte{}, X: xs})
	add(Op{Kind: KWriteRes, Body: []byte{}, X: xs})
	add(Op{Kind: KWriteRes, Body: []byte{}})
	add(Op{Kind: KWriteUpd, Mode: "body", Body: []byte{}, X: xs})
	add(Op{Kind: KWriteUpd, Mode: "body", Body: jb, X: map[string]string{"_sync": `{"seq":1}`}, Macros: []Macro{{Path: "_sync.cas", Type: 0}, {Path: "_sync.crc", Type: 1}}})
	add(Op{Kind: KWriteWX, CasClass: CasCurrent, Body: jb, X: map[string]string{"_sync": `{"seq":1}`}, Macros: []Macro{{Path: "_sync.cas", Type: 0}, {Path: "_sync.crc", Type: 1}}})
	add(Op{Kind: KUpdateX, CasClass: CasCurrent, X: map[string]string{"_vv": `{"v":1}`}, Macros: []Macro{{Path: "_vv.cas", Type: 0}, {Path: "_vv.crc", Type: 1}}})
	add(Op{Kind: KWriteWX, CasClass: CasCurrent, Body: jb, X: map[string]string{"_x": `{"k":1}`, "_x2": `{"k":2}`}, Macros: []Macro{{Path: "_x2.cas", Type: 0}, {Path: "_x2.crc", Type: 1}}})
	add(Op{Kind: KUpdateX, CasClass: CasCurrent, X: map[string]string{"_x": `{"k":3}`, "_x2": `{"k":4}`}, Macros: []Macro{{Path: "_x2.cas", Type: 0}}})
	return out
}

// Setups are op prefixes that bring a fresh key into each pre-state class.
func Setups() [][]Op {
	jb := []byte(`{"n":1,"t":"s","sub":{"p":0,"q":{"r":1}},"tags":[1]}`)
	x1 := map[string]string{"_sync": `{"seq":1, "rev":"1-a"}`, "u1": `{"a":1}`, "_vv": `"x"`}
	cur := CasCurrent
	return [][]Op{
		{}, // absent
		{{Kind: KSet, Body: jb}},
		{{Kind: KSetRaw, Body: []byte("raw\x01setup")}},
		{{Kind: KWriteWX, CasClass: CasZero, Body: jb, X: x1}},
		{{Kind: KSet, Body: jb, Exp: farExp + 100}},
		{{Kind: KWriteWX, CasClass: CasZero, Body: jb, X: x1, Exp: farExp + 101}},
		{{Kind: KIncr, Amt: 1, Def: 5}},
		{{Kind: KSet, Body: jb}, {Kind: KDelete}},
		{{Kind: KWriteWX, CasClass: CasZero, Body: jb, X: x1}, {Kind: KDelete}},
		{{Kind: KWriteWX, CasClass: CasZero, Body: jb, X: x1}, {Kind: KRemove, CasClass: cur}},
		{{Kind: KWriteTomb, CasClass: CasZero, X: map[string]string{"_sync": `{"born":"dead"}`}}},
		{{Kind: KSet, Body: jb}, {Kind: KUpdate, Mode: "delete"}},
		{{Kind: KWriteWX, CasClass: CasZero, Body: jb, X: x1}, {Kind: KDeleteWX, XDel: []string{"_vv"}}},
		{{Kind: KWriteWX, CasClass: CasZero, Body: jb, X: x1}, {Kind: KWriteTomb, CasClass: cur, X: map[string]string{"_sync": `{"t":1}`}, DelBody: true}},
		{{Kind: KSet, Body: jb}, {Kind: KDelMeta, CasClass: cur, NewCasClass: "above", XRaw: []byte(`{"_sync":{"dm":1}}`)}},
		{{Kind: KSet, Body: jb}, {Kind: KWriteUpd, Mode: "tomb", X: map[string]string{"_sync": `{"wu":1}`}}},
		{{Kind: KSet, Body: jb}, {Kind: KDelete}, {Kind: KPurge}},
		// resurrected through each resurrecting entry point
		{{Kind: KWriteWX, CasClass: CasZero, Body: jb, X: x1}, {Kind: KDelete}, {Kind: KAdd, Body: jb}},
		{{Kind: KWriteWX, CasClass: CasZero, Body: jb, X: x1}, {Kind: KDelete}, {Kind: KSet, Body: jb}},
		{{Kind: KWriteWX, CasClass: CasZero, Body: jb, X: x1}, {Kind: KDelete}, {Kind: KWriteCas, CasClass: CasZero, Body: jb}},
		{{Kind: KWriteWX, CasClass: CasZero, Body: jb, X: x1}, {Kind: KDelete}, {Kind: KWriteCas, CasClass: cur, Body: jb}},
		{{Kind: KWriteWX, CasClass: CasZero, Body: jb, X: x1}, {Kind: KDelete}, {Kind: KWriteCas, AddOnly: true, CasClass: CasBogus, Body: jb}},
		{{Kind: KSet, Body: jb}, {Kind: KDelete}, {Kind: KIncr, Amt: 1, Def: 3}},
		{{Kind: KWriteWX, CasClass: CasZero, Body: jb, X: x1}, {Kind: KDelete}, {Kind: KUpdate, Mode: "set", Body: jb}},
		{{Kind: KWriteWX, CasClass: CasZero, Body: jb, X: x1}, {Kind: KDelete}, {Kind: KWriteRes, Body: jb, X: map[string]string{"_x": `{"r":1}`}}},
		{{Kind: KWriteWX, CasClass: CasZero, Body: jb, X: x1}, {Kind: KDelete}, {Kind: KWriteSub, CasClass: CasZero, Path: "p", Body: []byte(`1`)}},
		{{Kind: KSet, Body: jb}, {Kind: KDelete}, {Kind: KSetMeta, CasClass: cur, NewCasClass: "above", Body: jb, JSON: true}},
		{{Kind: KWriteWX, CasClass: CasZero, Body: jb, X: x1}, {Kind: KDelete}, {Kind: KWriteUpd, Mode: "body", Body: jb, X: map[string]string{"_x": `{"r":2}`}}},
		// xattr-only updates of tombstones
		{{Kind: KWriteWX, CasClass: CasZero, Body: jb, X: x1}, {Kind: KDelete}, {Kind: KSetX, X: map[string]string{"_x": `{"on":"tomb"}`}}},
		{{Kind: KWriteWX, CasClass: CasZero, Body: jb, X: x1}, {Kind: KDelete}, {Kind: KUpdateX, CasClass: cur, X: map[string]string{"_x": `{"on":"tomb2"}`}}},
		{{Kind: KSetX, X: map[string]string{"_x": `{"on":"absent"}`}}},
		{{Kind: KSet, Body: jb}, {Kind: KTouch, Exp: farExp + 102}},
		{{Kind: KWriteSub, CasClass: CasZero, Path: "p", Body: []byte(`{"q":1}`)}},
	}
}

// FollowUps are appended after the op under test so that the resulting state is probed through the
// entry points whose behaviour depends on hidden state (the tombstone flag, the revision counter).
func FollowUps() []Op {
	jb := []byte(`{"n":2,"t":"f"}`)
	return []Op{
		{Kind: KAdd, Body: jb},
		{Kind: KWriteCas, CasClass: CasZero, Body: jb},
		{Kind: KWriteCas, AddOnly: true, CasClass: CasZero, Body: jb},
		{Kind: KWriteRes, Body: jb, X: map[string]string{"_x": `{"f":1}`}},
		{Kind: KWriteUpd, Mode: "body", Body: jb, X: map[string]string{"_x": `{"f":2}`}},
		{Kind: KWriteWX, CasClass: CasZero, Body: jb, X: map[string]string{"_x": `{"f":3}`}},
		{Kind: KTouch, Exp: farExp + 200},
		{Kind: KDelete},
		{Kind: KSet, Body: jb},
	}
}
