package kv

import (
	"bytes"
	"encoding/binary"
	"encoding/json"
	"fmt"
	"hash/crc32"
	"math/big"
	"reflect"
	"strconv"
	"strings"
)

// Doc is the model state of one (bucket, collection, key).
// Source priority for every transition below: property statements (P), sg-bucket interface
// documentation (D), behaviour pinned by rosmar's own tests (T). See DESIGN.md §3 / Appendix A.
type Doc struct {
	Present   bool              `json:"present"`
	Body      []byte            `json:"body"` // nil => tombstone (when Present)
	JSON      bool              `json:"json"`
	X         map[string]string `json:"x,omitempty"`
	Cas       uint64            `json:"cas"`
	Exp       uint32            `json:"exp"`
	Rev       uint64            `json:"rev"`
	CasByMeta bool              `json:"casByMeta,omitempty"` // current CAS was chosen by a WithMeta caller
	OldCas    []uint64          `json:"-"`
}

func (d *Doc) Live() bool { return d.Present && d.Body != nil }
func (d *Doc) Tomb() bool { return d.Present && d.Body == nil }

// Class names the pre-state class for coverage cells and signatures.
func (d *Doc) Class() string {
	switch {
	case !d.Present:
		return "absent"
	case d.Body == nil:
		if len(d.X) > 0 {
			return "tombX"
		}
		return "tomb"
	default:
		s := "live"
		if !d.JSON {
			s = "liveRaw"
		}
		if len(d.X) > 0 {
			s += "X"
		}
		if d.Exp != 0 {
			s += "Exp"
		}
		return s
	}
}

func (d Doc) clone() Doc {
	n := d
	if d.X != nil {
		n.X = make(map[string]string, len(d.X))
		for k, v := range d.X {
			n.X[k] = v
		}
	}
	n.OldCas = nil
	return n
}

// Expect is what the specification allows for one (state, op).
type Expect struct {
	Accept      int      // +1 must succeed, -1 must be refused, 0 either is allowed
	Why         string   // what decides Accept: "cas", "body", "exists", "arg", "path", "num", "cb", "size", "xattr"
	FailClasses []string // error classes allowed for a refusal (empty: any class)
	// When the call succeeds:
	Post     Doc
	NoChange bool            // success without any state change (cancelled Update)
	BodyJSON bool            // compare body by JSON equality (the implementation re-marshals it)
	FreshX   map[string]bool // xattrs written by this op: compared by JSON equivalence (DESIGN §3.12)
	DCUserX  bool            // user xattrs of the result are not pinned
	DCExp    bool            // expiry of the result is not pinned
	DCJSON   bool            // datatype of the result is not pinned
	DCX      bool            // xattrs entirely unpinned
	ExpLo    uint32          // expected expiry range (relative inputs straddle a second boundary)
	ExpHi    uint32
	NewCas   int // +1 a new CAS, 0 unchanged, -1 either (bare touch, §3.8)
	Event    int // +1 exactly one event, 0 none, -1 exactly one iff the CAS changed
	Deletion bool
	RetNum   *uint64 // Incr result
	RetBody  []byte  // GetAndTouchRaw body
	HasRet   bool
	MacroX   map[string]string // xattr name -> expected JSON after macro expansion ("${cas}"/"${crc}" placeholders resolved by judge)
}

const kMaxDelta = 60 * 60 * 24 * 30

func absRange(exp uint32, t0, t1 int64) (uint32, uint32) {
	if exp == 0 || exp > kMaxDelta {
		return exp, exp
	}
	return exp + uint32(t0), exp + uint32(t1)
}

func sysOnly(x map[string]string) map[string]string {
	var out map[string]string
	for k, v := range x {
		if isSystemXattr(k) {
			if out == nil {
				out = map[string]string{}
			}
			out[k] = v
		}
	}
	return out
}

func copyX(x map[string]string) map[string]string {
	if len(x) == 0 {
		return nil
	}
	out := make(map[string]string, len(x))
	for k, v := range x {
		out[k] = v
	}
	return out
}

func fail(why string, classes ...string) Expect {
	return Expect{Accept: -1, Why: why, FailClasses: classes}
}

func either(why string) Expect { return Expect{Accept: 0, Why: why} }

func looksLikeJSON(b []byte) bool { return len(b) >= 2 && b[0] == '{' && b[len(b)-1] == '}' }

// casOK evaluates the expected-CAS argument against the model (0 stands for "no such document").
func casMatches(d *Doc, cas uint64) bool {
	if !d.Present {
		return cas == 0
	}
	return cas == d.Cas
}

func validJSON(b []byte) bool { return json.Valid(b) }

// Spec computes what is allowed. t0/t1 are unix seconds around the call (for relative expiries).
func Spec(pre *Doc, o *Op, t0, t1 int64, maxDoc int) Expect {
	ex := spec(pre, o, t0, t1, maxDoc)
	if macroMixed(o) || o.BadJSONX || o.BadName || o.BadMacro {
		if ex.Accept == 1 {
			ex.Accept, ex.Why = 0, "arg"
		}
		ex.FailClasses = nil // a second failure cause applies; which one is reported is not pinned
	}
	if maxDoc > 0 && ex.Accept == 1 && len(o.Macros) > 0 && sizeVerdict(len(ex.Post.Body)+48*len(o.Macros), ex.Post.X, maxDoc) != -1 {
		ex.Accept, ex.Why = 0, "size"
	}
	if maxDoc > 0 && ex.Why != "size" {
		ex.FailClasses = nil // several failure causes may apply at once in the size profile; the class is not judged
	}
	if ex.Accept >= 0 && !ex.NoChange {
		if ex.Post.Present && ex.Post.Body == nil {
			ex.Deletion = true
		}
	}
	return ex
}

func tooBig(n, maxDoc int) bool { return maxDoc > 0 && n > maxDoc }

// sizeVerdict for body+xattrs (the stored xattr blob is re-marshalled, so its exact length is not known to the
// model): +1 surely too big, -1 surely fits, 0 unsure.
func sizeVerdict(body int, x map[string]string, maxDoc int) int {
	if maxDoc <= 0 {
		return -1
	}
	n := xattrsLen(x)
	if body+n*7/10-8 > maxDoc {
		return 1
	}
	if body+n*13/10+16 <= maxDoc {
		return -1
	}
	return 0
}

func applySize(ex Expect, body int, x map[string]string, maxDoc int) Expect {
	switch sizeVerdict(body, x, maxDoc) {
	case 1:
		return fail("size", "toobig")
	case 0:
		ex.Accept, ex.Why = 0, "size"
	}
	return ex
}

func xattrsLen(x map[string]string) int {
	if len(x) == 0 {
		return 0
	}
	n := 2
	for k, v := range x {
		n += len(k) + len(v) + 4
	}
	return n
}

func spec(pre *Doc, o *Op, t0, t1 int64, maxDoc int) Expect {
	lo, hi := absRange(o.Exp, t0, t1)
	newRev := pre.Rev + 1
	if !pre.Present {
		newRev = 1
	}
	live := func(body []byte, isJSON bool, x map[string]string) Expect {
		return Expect{Accept: 1, Post: Doc{Present: true, Body: body, JSON: isJSON, X: x, Exp: lo, Rev: newRev}, ExpLo: lo, ExpHi: hi, NewCas: 1, Event: 1}
	}
	tomb := func(x map[string]string) Expect {
		return Expect{Accept: 1, Post: Doc{Present: true, Body: nil, JSON: false, X: x, Exp: lo, Rev: newRev}, ExpLo: lo, ExpHi: hi, NewCas: 1, Event: 1}
	}
	keepExpIfPreserve := func(ex *Expect) {
		if o.Preserve {
			if pre.Present {
				ex.Post.Exp, ex.ExpLo, ex.ExpHi = pre.Exp, pre.Exp, pre.Exp
				if pre.Tomb() {
					ex.DCExp = true // preserving a tombstone's expiry is not pinned
				}
			}
		}
	}

	switch o.Kind {
	case KAdd, KAddRaw:
		if tooBig(len(o.Body), maxDoc) {
			return fail("size", "toobig")
		}
		if pre.Live() {
			return fail("body") // added=false, nil (§3.4); no event (§3.18)
		}
		isJSON := o.Kind == KAdd || looksLikeJSON(o.Body)
		return live(o.Body, isJSON, nil) // absent or tombstone: created without the tombstone's xattrs (P C05/C06)

	case KSet, KSetRaw:
		if tooBig(len(o.Body), maxDoc) {
			return fail("size", "toobig")
		}
		var x map[string]string
		if pre.Live() {
			x = copyX(pre.X) // body-only write keeps xattrs (P C07)
		}
		ex := live(o.Body, o.Kind == KSet, x)
		keepExpIfPreserve(&ex)
		return ex

	case KWriteCas:
		return specWriteCas(pre, o, lo, hi, newRev, maxDoc)

	case KRemove, KDelete:
		if !pre.Present {
			return fail("exists", "missing")
		}
		if o.Kind == KRemove && pre.Live() && o.Cas != pre.Cas {
			return fail("cas", "casmismatch", "missing", "keyexists")
		}
		if pre.Tomb() {
			// §3.5: either refused, or a new tombstone version.
			ex := Expect{Accept: 0, Why: "body", Post: Doc{Present: true, X: sysOnly(pre.X), Rev: newRev}, NewCas: 1, Event: 1}
			if o.Kind == KRemove && o.Cas != pre.Cas {
				ex.Accept = -1
				ex.Why = "cas"
			}
			return ex
		}
		return Expect{Accept: 1, Post: Doc{Present: true, X: sysOnly(pre.X), Exp: 0, Rev: newRev}, NewCas: 1, Event: 1}

	case KUpdate:
		return specUpdate(pre, o, t0, t1, newRev, maxDoc)

	case KIncr:
		if pre.Live() {
			var cur uint64
			if err := json.Unmarshal(pre.Body, &cur); err != nil {
				return fail("num")
			}
			n := cur + o.Amt
			ex := live([]byte(strconv.FormatUint(n, 10)), true, copyX(pre.X))
			ex.RetNum = &n
			return ex
		}
		n := o.Def
		ex := live([]byte(strconv.FormatUint(n, 10)), true, nil)
		ex.RetNum = &n
		return ex

	case KTouch, KGetTouch:
		if !pre.Live() {
			return fail("exists", "missing")
		}
		p := pre.clone()
		p.Exp, p.Rev = lo, pre.Rev+1
		ex := Expect{Accept: 1, Post: p, ExpLo: lo, ExpHi: hi, NewCas: -1, Event: -1}
		if o.Kind == KGetTouch {
			ex.RetBody, ex.HasRet = pre.Body, true
		}
		return ex

	case KSetX:
		set := o.X
		if o.BadJSONX {
			return fail("arg")
		}
		if !pre.Present {
			// §3.16: rejected, or applied — then the body-less result must be a coherent tombstone.
			ex := tomb(copyX(set))
			ex.Accept, ex.Why = 0, "exists"
			ex.Post.Exp, ex.ExpLo, ex.ExpHi = 0, 0, 0
			ex.FreshX = names(set)
			return ex
		}
		p := pre.clone()
		p.Rev = pre.Rev + 1
		p.X = mergeX(pre.X, set, nil)
		ex := Expect{Accept: 1, Post: p, ExpLo: pre.Exp, ExpHi: pre.Exp, NewCas: 1, Event: 1, FreshX: names(set)}
		return applySize(ex, len(pre.Body), p.X, maxDoc)

	case KRemoveX:
		if o.BadName && len(o.XDel) > 0 {
			return fail("arg")
		}
		if !pre.Present {
			return fail("exists")
		}
		if o.Cas != pre.Cas {
			return fail("cas", "casmismatch", "missing", "keyexists")
		}
		for _, n := range o.XDel {
			if _, ok := pre.X[n]; !ok {
				return fail("xattr") // missing xattr: nothing is applied (P C07)
			}
		}
		p := pre.clone()
		p.Rev = pre.Rev + 1
		p.X = mergeX(pre.X, nil, o.XDel)
		return Expect{Accept: 1, Post: p, ExpLo: pre.Exp, ExpHi: pre.Exp, NewCas: 1, Event: 1}

	case KDelPaths:
		if !pre.Present {
			// §3.16: rejected, or applied (then the result must be a coherent, xattr-less tombstone)
			return Expect{Accept: 0, Why: "exists", Post: Doc{Present: true, Rev: 1}, NewCas: 1, Event: 1}
		}
		p := pre.clone()
		p.Rev = pre.Rev + 1
		p.X = mergeX(pre.X, nil, o.XDel)
		ex := Expect{Accept: 1, Post: p, ExpLo: pre.Exp, ExpHi: pre.Exp, NewCas: 1, Event: 1}
		if o.BadName {
			// an unsupported path in the list: the call may refuse (then nothing is applied) or ignore that name, but
			// it may not stop half-way: on success every valid name is gone (P C07 all-or-nothing)
			ex.Accept, ex.Why = 0, "arg"
		}
		return ex

	case KUpdateX:
		if o.BadJSONX {
			return fail("arg")
		}
		if !pre.Present {
			if o.Cas != 0 {
				return fail("cas", "casmismatch", "missing", "keyexists")
			}
			ex := tomb(copyX(o.X)) // §3.16
			ex.Accept, ex.Why = 0, "exists"
			ex.FreshX = names(o.X)
			ex.DCExp = o.Preserve
			specMacros(&ex, o)
			return ex
		}
		if o.Cas != pre.Cas {
			return fail("cas", "casmismatch", "missing", "keyexists")
		}
		p := pre.clone()
		p.Rev = pre.Rev + 1
		p.X = mergeX(pre.X, o.X, nil)
		ex := Expect{Accept: 1, Post: p, ExpLo: lo, ExpHi: hi, NewCas: 1, Event: 1, FreshX: names(o.X)}
		ex.Post.Exp = lo
		if o.Preserve { // §3.17
			ex.Post.Exp, ex.ExpLo, ex.ExpHi = pre.Exp, pre.Exp, pre.Exp
		}
		if macroNeedsObject(o) {
			return fail("arg")
		}
		specMacros(&ex, o)
		return applySize(ex, len(pre.Body), p.X, maxDoc)

	case KWriteWX:
		return specWriteWX(pre, o, lo, hi, newRev, maxDoc)

	case KWriteTomb:
		return specWriteTomb(pre, o, lo, hi, newRev, maxDoc)

	case KWriteRes:
		return specWriteRes(pre, o, lo, hi, newRev, maxDoc)

	case KWriteUpd:
		return specWriteUpd(pre, o, t0, t1, newRev, maxDoc)

	case KDeleteWX:
		if !pre.Present {
			return Expect{Accept: 0, Why: "exists", Post: Doc{Present: true, Rev: 1}, NewCas: 1, Event: 1} // §3.16
		}
		p := Doc{Present: true, Body: nil, Rev: pre.Rev + 1, X: mergeX(pre.X, nil, o.XDel), Exp: pre.Exp}
		ex := Expect{Accept: 1, Post: p, NewCas: 1, Event: 1, ExpLo: pre.Exp, ExpHi: pre.Exp}
		ex.Post.Exp, ex.ExpLo, ex.ExpHi = 0, 0, 0 // a delete clears the expiry (P C14 "cleared by delete")
		if o.BadName {
			ex.Accept, ex.Why = 0, "arg" // see DeleteSubDocPaths
		}
		if pre.Live() {
			ex.DCUserX = true // §3.7
		}
		return ex

	case KSetMeta, KDelMeta:
		if !casMatches(pre, o.Cas) {
			return fail("cas", "casmismatch", "missing", "keyexists")
		}
		var x map[string]string
		if len(o.XRaw) > 0 {
			var m map[string]json.RawMessage
			if json.Unmarshal(o.XRaw, &m) == nil {
				x = map[string]string{}
				for k, v := range m {
					x[k] = string(v)
				}
			}
		}
		p := Doc{Present: true, X: x, Exp: o.Exp, Rev: newRev, Cas: o.NewCas, CasByMeta: true}
		if o.Kind == KSetMeta {
			p.Body, p.JSON = o.Body, o.JSON
		}
		return Expect{Accept: 1, Post: p, ExpLo: o.Exp, ExpHi: o.Exp, NewCas: 1, Event: 1}

	case KWriteSub, KSubInsert:
		return specSubdoc(pre, o, newRev, maxDoc)
	}
	return either("unknown")
}

func names(m map[string]string) map[string]bool {
	out := map[string]bool{}
	for k := range m {
		out[k] = true
	}
	return out
}

func mergeX(base, set map[string]string, del []string) map[string]string {
	out := copyX(base)
	for k, v := range set {
		if out == nil {
			out = map[string]string{}
		}
		out[k] = v
	}
	for _, k := range del {
		delete(out, k)
	}
	if len(out) == 0 {
		return nil
	}
	return out
}

// macroNeedsObject: a macro path addresses an xattr whose value is not a JSON object (cannot be expanded).
func macroNeedsObject(o *Op) bool {
	for _, m := range o.Macros {
		xn := strings.SplitN(m.Path, ".", 2)[0]
		if v, ok := o.X[xn]; ok {
			var mm map[string]any
			if json.Unmarshal([]byte(v), &mm) != nil {
				return true
			}
		}
	}
	return false
}

// macroMixed: macros are given and some xattr set by the same call is not a JSON object. rosmar refuses
// such calls; no property pins that, so either outcome is allowed (generators mostly avoid it).
func macroMixed(o *Op) bool {
	if len(o.Macros) == 0 {
		return false
	}
	for _, v := range o.X {
		var mm map[string]any
		if json.Unmarshal([]byte(v), &mm) != nil || mm == nil {
			return true
		}
	}
	return false
}

// specMacros records, for each xattr that carries a macro, the JSON expected after expansion, with
// placeholders the judge resolves once the new CAS and stored body are known.
func specMacros(ex *Expect, o *Op) {
	for _, m := range o.Macros {
		parts := strings.Split(m.Path, ".")
		xn := parts[0]
		v, ok := o.X[xn]
		if !ok || len(parts) < 2 {
			continue
		}
		cur := v
		if ex.MacroX != nil {
			if c, ok := ex.MacroX[xn]; ok {
				cur = c
			}
		}
		var mm map[string]any
		if decodeExact([]byte(cur), &mm) != nil || mm == nil {
			continue
		}
		// the macro replaces exactly the addressed property, however deep it sits; the objects on the way stay what they were
		at := mm
		okPath := true
		for _, p := range parts[1 : len(parts)-1] {
			nxt, isObj := at[p].(map[string]any)
			if !isObj {
				okPath = false
				break
			}
			at = nxt
		}
		if !okPath {
			continue
		}
		if m.Type == 0 {
			at[parts[len(parts)-1]] = "${cas}"
		} else {
			at[parts[len(parts)-1]] = "${crc}"
		}
		b, _ := json.Marshal(mm)
		if ex.MacroX == nil {
			ex.MacroX = map[string]string{}
		}
		ex.MacroX[xn] = string(b)
	}
}

func specWriteCas(pre *Doc, o *Op, lo, hi uint32, newRev uint64, maxDoc int) Expect {
	if tooBig(len(o.Body), maxDoc) && !o.BodyNil {
		return fail("size", "toobig")
	}
	isJSON := !o.Raw && !o.Append
	mk := func(body []byte, x map[string]string) Expect {
		return Expect{Accept: 1, Post: Doc{Present: true, Body: body, JSON: isJSON, X: x, Exp: lo, Rev: newRev}, ExpLo: lo, ExpHi: hi, NewCas: 1, Event: 1}
	}
	if o.BodyNil { // only reachable through Update(delete); judged leniently (§3.6, §3.16)
		if pre.Live() {
			if o.AddOnly {
				return fail("body", "keyexists", "casmismatch") // insert-only, and there is a body
			}
			if o.Cas != pre.Cas {
				return fail("cas", "casmismatch", "missing", "keyexists")
			}
			ex := mk(nil, sysOnly(pre.X))
			ex.Post.JSON = false
			ex.DCUserX, ex.DCExp = true, true
			return ex
		}
		ex := mk(nil, sysOnly(pre.X))
		ex.Accept, ex.Why = 0, "exists"
		ex.DCUserX, ex.DCExp, ex.DCX = true, true, true
		if pre.Present && o.Cas != pre.Cas && o.Cas != 0 && !o.AddOnly { // (AddOnly ignores the CAS)
			return fail("cas")
		}
		return ex
	}
	if o.Append {
		if !pre.Present {
			return fail("exists", "missing", "casmismatch")
		}
		if pre.Tomb() {
			if o.Cas != pre.Cas {
				return fail("cas")
			}
			// §3.16: Append on a tombstone: either refused, or applied (then it must be readable).
			ex := mk(append([]byte(nil), o.Body...), nil)
			ex.Accept, ex.Why = 0, "exists"
			ex.Post.JSON = false
			ex.DCJSON = true
			return ex
		}
		if o.Cas != pre.Cas {
			return fail("cas", "casmismatch", "missing", "keyexists")
		}
		nb := append(append([]byte(nil), pre.Body...), o.Body...)
		if tooBig(len(nb), maxDoc) {
			ex := mk(nb, copyX(pre.X)) // size check applies to the appended piece only in KV calls; either
			ex.Accept = 0
			ex.Post.JSON = false
			return ex
		}
		ex := mk(nb, copyX(pre.X))
		ex.Post.JSON = false
		return ex
	}
	if o.AddOnly {
		if pre.Live() {
			return fail("body", "keyexists", "casmismatch")
		}
		return mk(o.Body, nil) // absent or tombstone; CAS ignored (T TestNoCasOnResurrection, P C06)
	}
	if o.Cas == 0 {
		if pre.Live() {
			return fail("body", "casmismatch", "keyexists")
		}
		return mk(o.Body, nil)
	}
	// cas != 0, plain write
	if !pre.Present {
		return fail("cas", "casmismatch", "missing", "keyexists")
	}
	if o.Cas != pre.Cas {
		return fail("cas", "casmismatch", "missing", "keyexists")
	}
	if pre.Live() {
		return mk(o.Body, copyX(pre.X))
	}
	return mk(o.Body, nil) // tombstone with its own CAS: resurrected without xattrs
}

func specUpdate(pre *Doc, o *Op, t0, t1 int64, newRev uint64, maxDoc int) Expect {
	exp := o.Exp
	if o.CbExp != nil && (o.Mode == "set" || o.Mode == "exponly" || o.Mode == "retryonce") {
		exp = *o.CbExp
	}
	lo, hi := absRange(exp, t0, t1)
	switch o.Mode {
	case "cancel":
		return Expect{Accept: 1, NoChange: true, Post: pre.clone()}
	case "error":
		return fail("cb", "callback")
	case "set", "retryonce":
		if tooBig(len(o.Body), maxDoc) {
			return fail("size", "toobig")
		}
		var x map[string]string
		if pre.Live() {
			x = copyX(pre.X)
		}
		return Expect{Accept: 1, Post: Doc{Present: true, Body: o.Body, JSON: true, X: x, Exp: lo, Rev: newRev}, ExpLo: lo, ExpHi: hi, NewCas: 1, Event: 1}
	case "exponly":
		if o.CbExp == nil {
			return Expect{Accept: 1, NoChange: true, Post: pre.clone()}
		}
		if pre.Live() {
			ex := Expect{Accept: 1, Post: Doc{Present: true, Body: pre.Body, JSON: true, X: copyX(pre.X), Exp: lo, Rev: newRev}, ExpLo: lo, ExpHi: hi, NewCas: 1, Event: 1}
			if tooBig(len(pre.Body), maxDoc) {
				// the stored body is above the size limit already (SetWithMeta does not look at it); Update writes it back
				// through WriteCas, which does: no property pins which of the two is right
				ex.Accept, ex.Why = 0, "size"
			}
			return ex
		}
		ex := Expect{Accept: 0, Why: "exists", Post: Doc{Present: true, X: sysOnly(pre.X), Exp: lo, Rev: newRev}, NewCas: 1, Event: 1, DCExp: true, DCUserX: true}
		ex.DCX = true // no property pins the xattrs of a tombstone re-written through Update
		return ex
	case "delete":
		ex := Expect{Accept: 1, Post: Doc{Present: true, X: sysOnly(pre.X), Exp: lo, Rev: newRev}, ExpLo: lo, ExpHi: hi, NewCas: 1, Event: 1, DCUserX: true, DCExp: true}
		if !pre.Live() {
			ex.Accept, ex.Why = 0, "exists" // §3.16
			ex.DCX = true
		}
		return ex
	}
	return either("unknown")
}

func validateXArgs(o *Op) (Expect, bool) {
	for k := range o.X {
		for _, d := range o.XDel {
			if d == k {
				return fail("arg", "upsertanddelete"), true
			}
		}
	}
	return Expect{}, false
}

func applyXattrEdit(base map[string]string, o *Op) (map[string]string, bool) {
	for _, d := range o.XDel {
		if _, ok := base[d]; !ok {
			if _, set := o.X[d]; !set {
				return nil, false
			}
		}
	}
	return mergeX(base, o.X, o.XDel), true
}

func specWriteWX(pre *Doc, o *Op, lo, hi uint32, newRev uint64, maxDoc int) Expect {
	if o.BadJSONX {
		return fail("arg")
	}
	if o.Cas == 0 && (len(o.XDel) > 0 || o.XDelNonNil) {
		return fail("arg", "delxattroninsert")
	}
	if (o.BodyNil || len(o.Body) == 0) && len(o.X) == 0 {
		return fail("arg", "needxattrs")
	}
	if ex, bad := validateXArgs(o); bad {
		return ex
	}
	if macroNeedsObject(o) {
		return fail("arg")
	}
	if !pre.Present {
		if o.Cas != 0 {
			return fail("cas", "casmismatch", "missing", "keyexists")
		}
		var ex Expect
		if o.BodyNil {
			ex = Expect{Accept: 0, Why: "exists", Post: Doc{Present: true, X: copyX(o.X), Exp: lo, Rev: 1}, ExpLo: lo, ExpHi: hi, NewCas: 1, Event: 1}
		} else {
			ex = Expect{Accept: 1, Post: Doc{Present: true, Body: o.Body, JSON: true, X: copyX(o.X), Exp: lo, Rev: 1}, ExpLo: lo, ExpHi: hi, NewCas: 1, Event: 1}
		}
		if o.Preserve {
			ex.Post.Exp, ex.ExpLo, ex.ExpHi = 0, 0, 0
			ex.DCExp = true
		}
		ex.FreshX = names(o.X)
		specMacros(&ex, o)
		return applySize(ex, len(o.Body), o.X, maxDoc)
	}
	if pre.Tomb() && !o.BodyNil {
		return fail("body", "keyexists", "casmismatch") // P C06: CAS-0 insert only if the key does not exist at all; T
	}
	if o.Cas != pre.Cas {
		return fail("cas", "casmismatch", "missing", "keyexists")
	}
	x, ok := applyXattrEdit(pre.X, o)
	if !ok {
		return fail("xattr")
	}
	p := Doc{Present: true, Body: pre.Body, JSON: pre.JSON, X: x, Exp: lo, Rev: pre.Rev + 1}
	if !o.BodyNil {
		p.Body, p.JSON = o.Body, true
	}
	ex := Expect{Accept: 1, Post: p, ExpLo: lo, ExpHi: hi, NewCas: 1, Event: 1, FreshX: names(o.X)}
	if o.Preserve {
		ex.Post.Exp, ex.ExpLo, ex.ExpHi = pre.Exp, pre.Exp, pre.Exp
	}
	specMacros(&ex, o)
	return applySize(ex, len(p.Body), x, maxDoc)
}

func specWriteTomb(pre *Doc, o *Op, lo, hi uint32, newRev uint64, maxDoc int) Expect {
	if o.BadJSONX {
		return fail("arg")
	}
	if len(o.X) == 0 {
		return fail("arg", "needxattrs")
	}
	if o.Cas == 0 && (len(o.XDel) > 0 || o.XDelNonNil) {
		return fail("arg", "delxattroninsert")
	}
	if ex, bad := validateXArgs(o); bad {
		return ex
	}
	if macroNeedsObject(o) {
		return fail("arg")
	}
	if !pre.Present {
		if o.Cas != 0 || o.DelBody {
			return fail("exists", "missing", "casmismatch")
		}
		ex := Expect{Accept: 1, Post: Doc{Present: true, X: copyX(o.X), Exp: lo, Rev: 1}, ExpLo: lo, ExpHi: hi, NewCas: 1, Event: 1, FreshX: names(o.X)}
		specMacros(&ex, o)
		return applySize(ex, 0, o.X, maxDoc)
	}
	if pre.Tomb() && o.DelBody {
		return fail("body", "missing", "casmismatch") // T
	}
	if o.Cas != pre.Cas {
		return fail("cas", "casmismatch", "missing", "keyexists")
	}
	base := sysOnly(pre.X)
	// A delete that names a user xattr of the live document is not pinned (it is dropped anyway).
	userDel := false
	for _, d := range o.XDel {
		if _, ok := pre.X[d]; ok && !isSystemXattr(d) {
			userDel = true
		}
	}
	x, ok := applyXattrEdit(base, o)
	if !ok && !userDel {
		return fail("xattr")
	}
	if userDel {
		x = mergeX(base, o.X, o.XDel)
	}
	ex := Expect{Accept: 1, Post: Doc{Present: true, X: x, Exp: lo, Rev: pre.Rev + 1}, ExpLo: lo, ExpHi: hi, NewCas: 1, Event: 1, FreshX: names(o.X)}
	if userDel {
		ex.Accept, ex.Why = 0, "xattr"
	}
	specMacros(&ex, o)
	return applySize(ex, 0, x, maxDoc)
}

func specWriteRes(pre *Doc, o *Op, lo, hi uint32, newRev uint64, maxDoc int) Expect {
	if o.BadJSONX {
		return fail("arg")
	}
	if o.BodyNil || o.Body == nil {
		return fail("arg", "needbody")
	}
	if macroNeedsObject(o) {
		return fail("arg")
	}
	if pre.Live() {
		return fail("body", "keyexists", "casmismatch")
	}
	ex := Expect{Accept: 1, Post: Doc{Present: true, Body: o.Body, JSON: true, X: copyX(o.X), Exp: lo, Rev: newRev}, ExpLo: lo, ExpHi: hi, NewCas: 1, Event: 1, FreshX: names(o.X)}
	if o.Preserve {
		ex.DCExp = true
	}
	specMacros(&ex, o)
	return applySize(ex, len(o.Body), o.X, maxDoc)
}

func specWriteUpd(pre *Doc, o *Op, t0, t1 int64, newRev uint64, maxDoc int) Expect {
	var exp uint32
	if o.CbExp != nil {
		exp = *o.CbExp
	}
	lo, hi := absRange(exp, t0, t1)
	sub := *o
	sub.Exp = exp
	sub.Cas = pre.Cas
	if !pre.Present {
		sub.Cas = 0
	}
	switch o.Mode {
	case "error":
		return fail("cb", "callback")
	case "tomb":
		sub.Kind = KWriteTomb
		sub.DelBody = pre.Live()
		sub.CasClass = CasCurrent
		if sub.Cas == 0 {
			sub.CasClass = CasZero
		}
		return specWriteTomb(pre, &sub, lo, hi, newRev, maxDoc)
	case "body", "retryonce", "xonly":
		if o.Mode == "xonly" {
			sub.BodyNil, sub.Body = true, nil
		}
		if pre.Tomb() {
			if len(o.XDel) > 0 {
				return fail("arg", "delxattrontombstone")
			}
			sub.Kind = KWriteRes
			return specWriteRes(pre, &sub, lo, hi, newRev, maxDoc)
		}
		sub.Kind = KWriteWX
		sub.CasClass = CasCurrent
		if sub.Cas == 0 {
			sub.CasClass = CasZero
		}
		return specWriteWX(pre, &sub, lo, hi, newRev, maxDoc)
	}
	return either("unknown")
}

// ---- sub-document

func parsePath(p string) []string { return strings.Split(p, ".") }

func specSubdoc(pre *Doc, o *Op, newRev uint64, maxDoc int) Expect {
	path := parsePath(o.Path)
	insert := o.Kind == KSubInsert
	if pre.Live() {
		var probe map[string]any
		if err := decodeExact(pre.Body, &probe); err != nil || probe == nil {
			return fail("num") // body is not a JSON object (whatever the CAS argument says)
		}
	}
	if !pre.Live() {
		if insert {
			return fail("exists", "missing") // SubdocInsert refuses a missing document (P C18)
		}
		if o.Cas != 0 && !(pre.Present && o.Cas == pre.Cas) {
			return fail("cas", "casmismatch", "missing", "keyexists")
		}
	} else if o.Cas != 0 && o.Cas != pre.Cas {
		return fail("cas", "casmismatch", "missing", "keyexists")
	}
	var doc map[string]any
	if pre.Live() {
		if err := decodeExact(pre.Body, &doc); err != nil || doc == nil {
			return fail("num") // body is not a JSON object
		}
	} else {
		doc = map[string]any{}
	}
	parent := doc
	for _, p := range path[:len(path)-1] {
		nxt, ok := parent[p]
		if !ok || nxt == nil {
			return fail("path", "pathnotfound")
		}
		m, ok := nxt.(map[string]any)
		if !ok {
			return fail("path", "pathmismatch")
		}
		parent = m
	}
	last := path[len(path)-1]
	if insert {
		if v, ok := parent[last]; ok && v != nil {
			return fail("path", "pathexists")
		}
	}
	if len(o.Body) > 0 {
		var v any
		if err := decodeExact(o.Body, &v); err != nil {
			if insert {
				v = string(o.Body)
			} else {
				return fail("arg")
			}
		}
		if v == nil {
			delete(parent, last)
		} else {
			parent[last] = v
		}
	} else {
		delete(parent, last)
	}
	nb, _ := json.Marshal(doc)
	var x map[string]string
	if pre.Live() {
		x = copyX(pre.X)
	}
	p := Doc{Present: true, Body: nb, JSON: true, X: x, Rev: newRev}
	ex := Expect{Accept: 1, Post: p, BodyJSON: true, DCExp: true, NewCas: 1, Event: 1}
	if tooBig(len(nb), maxDoc) {
		return fail("size", "toobig")
	}
	return ex
}

// ---- helpers used by judges

// decodeExact decodes JSON keeping number literals (json.Number), so that integers beyond 2^53 and long decimals
// are not rounded by the oracle itself.
func decodeExact(b []byte, v any) error {
	d := json.NewDecoder(bytes.NewReader(b))
	d.UseNumber()
	if err := d.Decode(v); err != nil {
		return err
	}
	if d.More() {
		return fmt.Errorf("trailing data")
	}
	return nil
}

func exactEq(x, y any) bool {
	switch a := x.(type) {
	case json.Number:
		b, ok := y.(json.Number)
		if !ok {
			return false
		}
		if a == b {
			return true
		}
		ra, oka := new(big.Rat).SetString(string(a))
		rb, okb := new(big.Rat).SetString(string(b))
		return oka && okb && ra.Cmp(rb) == 0
	case map[string]any:
		b, ok := y.(map[string]any)
		if !ok || len(a) != len(b) {
			return false
		}
		for k, v := range a {
			w, ok := b[k]
			if !ok || !exactEq(v, w) {
				return false
			}
		}
		return true
	case []any:
		b, ok := y.([]any)
		if !ok || len(a) != len(b) {
			return false
		}
		for i := range a {
			if !exactEq(a[i], b[i]) {
				return false
			}
		}
		return true
	default:
		return reflect.DeepEqual(x, y)
	}
}

// jsonEqualExact: JSON equality in which numbers are compared as exact rationals (1.0 == 1, but
// 9007199254740993 != 9007199254740992).
func jsonEqualExact(a, b []byte) bool {
	var x, y any
	if decodeExact(a, &x) != nil || decodeExact(b, &y) != nil {
		return bytes.Equal(a, b)
	}
	return exactEq(x, y)
}

func jsonEqual(a, b []byte) bool {
	var x, y any
	if json.Unmarshal(a, &x) != nil || json.Unmarshal(b, &y) != nil {
		return bytes.Equal(a, b)
	}
	return reflect.DeepEqual(x, y)
}

var castagnoli = crc32.MakeTable(crc32.Castagnoli)

func crc32cString(body []byte) string { return fmt.Sprintf("0x%08x", crc32.Checksum(body, castagnoli)) }

func casMacroString(cas uint64) string {
	b := make([]byte, 8)
	binary.LittleEndian.PutUint64(b, cas)
	return fmt.Sprintf("0x%x", b)
}
