package kv

import (
	"context"
	"encoding/json"
	"fmt"
	"sort"

	sgbucket "github.com/couchbase/sg-bucket"
)

// ---------------------------------------------------------------- view definitions with native twins

type emitted struct {
	Key any
	Val any
}

// twin evaluates the Go twin of a map function. doc is the parsed JSON body ({} for raw bodies and tombstones),
// x the parsed xattrs (nil if none).
type twinFn func(id string, doc any, x map[string]any) []emitted

type ViewDef struct {
	Name   string
	Map    string
	Reduce string
	Twin   twinFn
	ArrKey bool // keys are arrays (group_level usable)
}

func objField(doc any, f string) (any, bool) {
	m, ok := doc.(map[string]any)
	if !ok {
		return nil, false
	}
	v, ok := m[f]
	return v, ok
}

var viewByN = ViewDef{Name: "byN", Reduce: "_count",
	Map: `function(doc, meta) { if (doc.n !== undefined) { emit(doc.n, doc.t === undefined ? null : doc.t); } }`,
	Twin: func(id string, doc any, x map[string]any) []emitted {
		n, ok := objField(doc, "n")
		if !ok {
			return nil
		}
		t, _ := objField(doc, "t")
		return []emitted{{n, t}}
	}}

var viewByT = ViewDef{Name: "byN", Reduce: "_count", // replacement for byN under the same name
	Map: `function(doc, meta) { if (doc.t !== undefined) { emit(doc.t, doc.n === undefined ? null : doc.n); } }`,
	Twin: func(id string, doc any, x map[string]any) []emitted {
		t, ok := objField(doc, "t")
		if !ok {
			return nil
		}
		n, _ := objField(doc, "n")
		return []emitted{{t, n}}
	}}

var viewTags = ViewDef{Name: "tags", Reduce: "_sum", ArrKey: true,
	Map: `function(doc, meta) { if (doc.tags && doc.t !== undefined) { for (var i = 0; i < doc.tags.length; i++) { emit([doc.t, doc.tags[i]], 1); } } }`,
	Twin: func(id string, doc any, x map[string]any) []emitted {
		tags, ok := objField(doc, "tags")
		t, tok := objField(doc, "t")
		arr, isArr := tags.([]any)
		if !ok || !tok || !isArr {
			return nil
		}
		var out []emitted
		for _, tg := range arr {
			out = append(out, emitted{[]any{t, tg}, float64(1)})
		}
		return out
	}}

var viewBySeq = ViewDef{Name: "bySeq",
	Map: `function(doc, meta) { if (meta.xattrs && meta.xattrs._sync && meta.xattrs._sync.seq !== undefined) { emit(meta.xattrs._sync.seq, meta.id); } }`,
	Twin: func(id string, doc any, x map[string]any) []emitted {
		s, ok := x["_sync"].(map[string]any)
		if !ok {
			return nil
		}
		seq, ok := s["seq"]
		if !ok {
			return nil
		}
		return []emitted{{seq, id}}
	}}

var viewAll = ViewDef{Name: "all", Reduce: "_count",
	Map: `function(doc, meta) { emit(meta.id, null); }`,
	Twin: func(id string, doc any, x map[string]any) []emitted {
		return []emitted{{id, nil}}
	}}

// DDocName is the design document every C12 scenario installs.
const DDocName = "vd"

type viewState struct {
	defs map[string]ViewDef // by view name
	gen  int
}

func ddocOf(defs []ViewDef) *sgbucket.DesignDoc {
	dd := &sgbucket.DesignDoc{Language: "javascript", Views: sgbucket.ViewMap{}}
	for _, d := range defs {
		dd.Views[d.Name] = sgbucket.ViewDef{Map: d.Map, Reduce: d.Reduce}
	}
	return dd
}

// PutViews installs (or replaces) the design document on (b, c).
func (s *Sim) PutViews(b, c int, defs []ViewDef) error {
	if s.views == nil {
		s.views = map[[2]int]*viewState{}
	}
	s.viewN++
	err := s.coll(b, s.viewN%len(s.Env.Buckets[b].Handles), c).PutDDoc(context.Background(), DDocName, ddocOf(defs))
	if err != nil {
		return err
	}
	vs := &viewState{defs: map[string]ViewDef{}}
	if old := s.views[[2]int{b, c}]; old != nil {
		vs.gen = old.gen + 1
	}
	for _, d := range defs {
		vs.defs[d.Name] = d
	}
	s.views[[2]int{b, c}] = vs
	s.Ctx.Count("ddoc_puts", 1)
	return nil
}

// VRow is one expected / observed view row in canonical JSON.
type VRow struct {
	ID  string `json:"id"`
	Key string `json:"key"`
	Val string `json:"value"`
}

func canon(v any) string {
	b, _ := json.Marshal(v)
	return string(b)
}

type sortRow struct {
	id  string
	key any
	val any
}

// oracleRows evaluates the twin over the KV read-back of every key of the collection.
func (s *Sim) oracleRows(b, c int, def ViewDef) []sortRow {
	var rows []sortRow
	for k, o := range s.Last {
		if k.B != b || k.C != c || !o.present() {
			continue
		}
		var x map[string]any
		if o.GXErr == "" && len(o.GX) > 0 {
			x = map[string]any{}
			for n, v := range o.GX {
				var pv any
				_ = json.Unmarshal([]byte(v), &pv)
				x[n] = pv
			}
		}
		if !o.hasBody() && len(x) == 0 {
			continue // deleted without xattrs: not seen by any view
		}
		var doc any = map[string]any{}
		d := s.doc(k)
		if o.hasBody() && d.JSON {
			var pd any
			if err := json.Unmarshal(o.Raw, &pd); err != nil {
				continue // the JS side cannot parse it either: no rows
			}
			if pd == nil {
				continue
			}
			doc = pd
		}
		for _, e := range def.Twin(k.K, doc, x) {
			rows = append(rows, sortRow{k.K, e.Key, e.Val})
		}
	}
	var coll sgbucket.JSONCollator
	sort.SliceStable(rows, func(i, j int) bool {
		if c := coll.Collate(rows[i].key, rows[j].key); c != 0 {
			return c < 0
		}
		if rows[i].id != rows[j].id {
			return rows[i].id < rows[j].id
		}
		return canon(rows[i].val) < canon(rows[j].val)
	})
	return rows
}

// ViewQ is one judged query shape.
type ViewQ struct {
	Shape  string
	Params map[string]any
}

func applyParams(rows []sortRow, q ViewQ, reduce string) []VRow {
	p := q.Params
	var coll sgbucket.JSONCollator
	desc, _ := p["descending"].(bool)
	var lower, upper any
	lowerIncl, upperIncl := true, true
	inclEnd := true
	if v, ok := p["inclusive_end"].(bool); ok {
		inclEnd = v
	}
	if k, ok := p["key"]; ok {
		lower, upper = k, k
	} else if desc {
		lower, upper = p["endkey"], p["startkey"]
		lowerIncl = inclEnd
	} else {
		lower, upper = p["startkey"], p["endkey"]
		upperIncl = inclEnd
	}
	var sel []sortRow
	for _, r := range rows {
		if lower != nil {
			c := coll.Collate(r.key, lower)
			if c < 0 || (c == 0 && !lowerIncl) {
				continue
			}
		}
		if upper != nil {
			c := coll.Collate(r.key, upper)
			if c > 0 || (c == 0 && !upperIncl) {
				continue
			}
		}
		sel = append(sel, r)
	}
	if desc {
		for i, j := 0, len(sel)-1; i < j; i, j = i+1, j-1 {
			sel[i], sel[j] = sel[j], sel[i]
		}
	}
	if l, ok := p["limit"].(int); ok && l < len(sel) {
		sel = sel[:l]
	}
	doReduce := reduce != ""
	if v, ok := p["reduce"].(bool); ok {
		doReduce = doReduce && v
	}
	if !doReduce {
		out := make([]VRow, len(sel))
		for i, r := range sel {
			out[i] = VRow{r.id, canon(r.key), canon(r.val)}
		}
		return out
	}
	if len(sel) == 0 {
		return nil
	}
	red := func(g []sortRow) any {
		if reduce == "_count" {
			return float64(len(g))
		}
		t := 0.0
		for _, r := range g {
			f, _ := r.val.(float64)
			t += f
		}
		return t
	}
	group, _ := p["group"].(bool)
	gl, hasGL := p["group_level"].(int)
	if !group && !hasGL {
		return []VRow{{"", "null", canon(red(sel))}}
	}
	gkey := func(r sortRow) any {
		if hasGL && gl > 0 && !group {
			if a, ok := r.key.([]any); ok && len(a) >= gl {
				return a[:gl]
			}
		}
		return r.key
	}
	var out []VRow
	start := 0
	for i := 1; i <= len(sel); i++ {
		if i == len(sel) || coll.Collate(gkey(sel[i]), gkey(sel[start])) != 0 {
			out = append(out, VRow{"", canon(gkey(sel[start])), canon(red(sel[start:i]))})
			start = i
		}
	}
	return out
}

// viewShapes builds the parameter shapes judged for one view from the keys that currently exist.
func (s *Sim) viewShapes(rows []sortRow, def ViewDef) []ViewQ {
	// the first query after a batch of writes is the one that has to refresh the index: each spelling of "not stale"
	// takes that place in turn
	first := []ViewQ{{"none", map[string]any{"reduce": false}}, {"stale=false", map[string]any{"stale": false, "reduce": false}}, {"stale-false-string", map[string]any{"stale": "false", "reduce": false}}}
	k := s.viewN % len(first)
	qs := []ViewQ{first[k], first[(k+1)%len(first)], first[(k+2)%len(first)]}
	var keys []any
	for _, r := range rows {
		keys = append(keys, r.key)
	}
	pick := func() any {
		if len(keys) == 0 {
			return float64(s.R.Intn(5))
		}
		return keys[s.R.Intn(len(keys))]
	}
	lo, hi := pick(), pick()
	var coll sgbucket.JSONCollator
	if coll.Collate(lo, hi) > 0 {
		lo, hi = hi, lo
	}
	lim := 1 + s.R.Intn(3)
	qs = append(qs,
		ViewQ{"key", map[string]any{"key": pick(), "reduce": false}},
		ViewQ{"range", map[string]any{"startkey": lo, "endkey": hi, "reduce": false}},
		ViewQ{"range-exclusive-end", map[string]any{"startkey": lo, "endkey": hi, "inclusive_end": false, "reduce": false}},
		ViewQ{"startkey-only", map[string]any{"startkey": lo, "reduce": false}},
		ViewQ{"endkey-only", map[string]any{"endkey": hi, "reduce": false}},
		ViewQ{"descending", map[string]any{"descending": true, "reduce": false}},
		ViewQ{"descending-range", map[string]any{"descending": true, "startkey": hi, "endkey": lo, "reduce": false}},
		ViewQ{"descending-range-exclusive-end", map[string]any{"descending": true, "startkey": hi, "endkey": lo, "inclusive_end": false, "reduce": false}},
		ViewQ{"limit", map[string]any{"limit": lim, "reduce": false}},
		ViewQ{"limit-descending", map[string]any{"limit": lim, "descending": true, "reduce": false}},
		ViewQ{"limit-range", map[string]any{"limit": lim, "startkey": lo, "reduce": false}},
	)
	if def.Reduce != "" {
		qs = append(qs,
			ViewQ{"reduce", map[string]any{}},
			ViewQ{"reduce-group", map[string]any{"group": true}},
			ViewQ{"reduce-range", map[string]any{"startkey": lo, "endkey": hi}},
			ViewQ{"reduce-group-descending", map[string]any{"group": true, "descending": true}},
		)
		if def.ArrKey {
			qs = append(qs, ViewQ{"reduce-group_level-1", map[string]any{"group_level": 1}})
		}
	}
	return qs
}

func (s *Sim) runView(b, c int, ddoc, view string, params map[string]any, useIter bool) ([]VRow, error) {
	s.viewN++
	col := s.coll(b, s.viewN%len(s.Env.Buckets[b].Handles), c) // design documents and queries go through every handle in turn
	var res sgbucket.ViewResult
	var err error
	func() {
		defer func() {
			if r := recover(); r != nil {
				err = fmt.Errorf("panic: %v", r)
			}
		}()
		if useIter {
			var it sgbucket.QueryResultIterator
			it, err = col.ViewQuery(context.Background(), ddoc, view, params)
			if err != nil {
				return
			}
			for {
				var row sgbucket.ViewRow
				if !it.Next(context.Background(), &row) {
					break
				}
				r := row
				res.Rows = append(res.Rows, &r)
			}
			err = it.Close()
		} else {
			res, err = col.View(context.Background(), ddoc, view, params)
		}
	}()
	if err != nil {
		return nil, err
	}
	out := make([]VRow, len(res.Rows))
	for i, r := range res.Rows {
		out[i] = VRow{r.ID, canon(r.Key), canon(r.Value)}
	}
	return out, nil
}

func rowsEq(a, b []VRow) bool {
	if len(a) != len(b) {
		return false
	}
	for i := range a {
		if a[i] != b[i] {
			return false
		}
	}
	return true
}

func diffRows(got, want []VRow) string {
	gs, ws := map[VRow]int{}, map[VRow]int{}
	for _, r := range got {
		gs[r]++
	}
	for _, r := range want {
		ws[r]++
	}
	var extra, missing []VRow
	for r, n := range gs {
		if n > ws[r] {
			extra = append(extra, r)
		}
	}
	for r, n := range ws {
		if n > gs[r] {
			missing = append(missing, r)
		}
	}
	if len(extra) == 0 && len(missing) == 0 {
		return "membership"
	}
	return ""
}

// JudgeViews queries every installed view of (b, c) with every parameter shape and compares with the twin (C12).
// age names how the index got here: "fresh", "incremental", "replaced".
func (s *Sim) JudgeViews(b, c int, age string) {
	vs := s.views[[2]int{b, c}]
	if vs == nil {
		return
	}
	names := make([]string, 0, len(vs.defs))
	for n := range vs.defs {
		names = append(names, n)
	}
	sort.Strings(names)
	for _, name := range names {
		def := vs.defs[name]
		all := s.oracleRows(b, c, def)
		if hasObjectKey(all) {
			// sg-bucket's two collation entry points (Collate on decoded values, which this oracle uses, and CollateRaw on
			// JSON text, which rosmar's SQLite collation uses) do not order two JSON objects the same way; both are the
			// trusted dependency's, so a view that currently emits an object-valued key is not judged (DESIGN §11.3)
			s.Ctx.Count("view_judgments_skipped_for_object_valued_keys", 1)
			continue
		}
		for qi, q := range s.viewShapes(all, def) {
			want := applyParams(all, q, def.Reduce)
			got, err := s.runView(b, c, DDocName, name, q.Params, qi%3 == 2)
			s.Ctx.Count("view_queries_judged", 1)
			s.Ctx.Count("view_rows_compared", int64(len(want)))
			s.Ctx.Cell(fmt.Sprintf("view|%s|%s|%s|%s", viewLabel(def), q.Shape, age, ifs(s.Env.Cfg.Disk, "disk", "mem")))
			if err != nil {
				s.reportView(b, c, "view.error", viewLabel(def), q.Shape, fmt.Sprintf("view %s(%s) failed: %v", name, q.Shape, err), nil)
				continue
			}
			if !rowsEq(got, want) {
				kind := "view.rows"
				if len(got) == len(want) && diffRows(got, want) == "membership" {
					kind = "view.order"
				}
				s.reportView(b, c, kind, viewLabel(def), q.Shape,
					fmt.Sprintf("view %s on b%d/c%d with %s %v (index %s): got %d rows, oracle %d rows", name, b, c, q.Shape, q.Params, age, len(got), len(want)),
					map[string]any{"got": capRows(got), "want": capRows(want), "params": q.Params, "docs": s.docDigest(b, c)})
			}
		}
	}
}

func viewLabel(d ViewDef) string {
	if d.Name == "byN" && d.Map == viewByT.Map {
		return "byT"
	}
	return d.Name
}

func capRows(r []VRow) []VRow {
	if len(r) > 30 {
		return r[:30]
	}
	return r
}

func (s *Sim) docDigest(b, c int) any {
	type dd struct {
		Key, Class, LastMut string
		Cas                 uint64
		ByMeta              bool
	}
	var out []dd
	for k := range s.Last {
		if k.B == b && k.C == c {
			d := s.doc(k)
			out = append(out, dd{k.K, d.Class(), orDash(s.LastMut[k]), d.Cas, d.CasByMeta})
		}
	}
	sort.Slice(out, func(i, j int) bool { return out[i].Key < out[j].Key })
	return out
}

func (s *Sim) reportView(b, c int, kind, view, shape, msg string, detail map[string]any) {
	// the signature names the view, the shape and the entry point that last mutated any document (most often the culprit)
	last := "-"
	if n := len(s.Log); n > 0 {
		last = s.Log[n-1].Op.Variant()
	}
	n := len(s.Log)
	from := n - 8
	if from < 0 {
		from = 0
	}
	if detail == nil {
		detail = map[string]any{}
	}
	detail["config"] = s.Env.Cfg
	detail["last_steps"] = s.Log[from:n]
	s.Ctx.Viol([]string{"C12"}, fmt.Sprintf("%s|%s|%s|after:%s", kind, view, shape, last), msg, detail)
}

// FreshViewCrossCheck installs an identical design document under a new name (full rebuild) and requires the
// same rows as the incrementally maintained index; model-free (C12).
func (s *Sim) FreshViewCrossCheck(b, c int) {
	vs := s.views[[2]int{b, c}]
	if vs == nil {
		return
	}
	var defs []ViewDef
	for _, d := range vs.defs {
		defs = append(defs, d)
	}
	sort.Slice(defs, func(i, j int) bool { return defs[i].Name < defs[j].Name })
	s.freshN++
	name := fmt.Sprintf("fresh%d", s.freshN)
	col := s.coll(b, 0, c)
	if err := col.PutDDoc(context.Background(), name, ddocOf(defs)); err != nil {
		s.reportView(b, c, "view.fresh.error", "-", "-", fmt.Sprintf("cannot create design document %s: %v", name, err), nil)
		return
	}
	for _, d := range defs {
		p := map[string]any{"reduce": false}
		inc, err1 := s.runView(b, c, DDocName, d.Name, p, false)
		fr, err2 := s.runView(b, c, name, d.Name, p, false)
		s.Ctx.Count("fresh_view_crosschecks", 1)
		if err1 != nil || err2 != nil {
			s.reportView(b, c, "view.fresh.error", viewLabel(d), "none", fmt.Sprintf("view query failed: %v / %v", err1, err2), nil)
			continue
		}
		if !rowsEq(inc, fr) {
			s.reportView(b, c, "view.incremental-vs-fresh", viewLabel(d), "none",
				fmt.Sprintf("view %s: the incrementally maintained index returns %d rows, a freshly built identical view %d rows", d.Name, len(inc), len(fr)),
				map[string]any{"incremental": capRows(inc), "fresh": capRows(fr), "docs": s.docDigest(b, c)})
		}
	}
	if err := col.DeleteDDoc(name); err != nil {
		s.reportView(b, c, "view.fresh.error", "-", "-", fmt.Sprintf("cannot delete design document %s: %v", name, err), nil)
	}
}

// StaleQuery issues an unjudged stale=ok / update_after query as a perturbation.
func (s *Sim) StaleQuery(b, c int, mode any) {
	vs := s.views[[2]int{b, c}]
	if vs == nil {
		return
	}
	for n := range vs.defs {
		_, _ = s.runView(b, c, DDocName, n, map[string]any{"stale": mode, "reduce": false}, false)
		s.Ctx.Count("stale_queries_unjudged", 1)
		return
	}
}

// ViewSet returns the installed family; alt swaps the byN view for its replacement under the same name.
// ViewSetVariant: 0 = the base set, 1 = byN replaced by another map function under the same name, 2 = the base
// set with only reduce functions changed (tags: _sum -> _count, all: _count -> none).
func ViewSetVariant(v int) []ViewDef {
	switch v % 3 {
	case 1:
		return ViewSet(true)
	case 2:
		tc := viewTags
		tc.Reduce = "_count"
		an := viewAll
		an.Reduce = ""
		return []ViewDef{viewByN, tc, viewBySeq, an}
	}
	return ViewSet(false)
}

func ViewSet(alt bool) []ViewDef {
	if alt {
		return []ViewDef{viewByT, viewTags, viewBySeq, viewAll}
	}
	return []ViewDef{viewByN, viewTags, viewBySeq, viewAll}
}

// ViewRows runs one non-stale view query of the installed design document and returns canonical rows (or the error text).
func (s *Sim) ViewRows(b, c int, view string, params map[string]any, useIter bool) ([]VRow, string) {
	rows, err := s.runView(b, c, DDocName, view, params, useIter)
	if err != nil {
		return nil, err.Error()
	}
	return rows, ""
}

func hasObjectKey(rows []sortRow) bool {
	for _, r := range rows {
		if _, isObj := r.key.(map[string]any); isObj {
			return true
		}
	}
	return false
}
