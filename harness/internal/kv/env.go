package kv

import (
	"bytes"
	"context"
	"encoding/json"
	"fmt"
	"os"
	"path/filepath"
	"sort"
	"sync"
	"sync/atomic"
	"time"

	sgbucket "github.com/couchbase/sg-bucket"
	"github.com/couchbaselabs/rosmar"
)

// CollNames are the collections every scenario uses (index 0 is the default collection).
var CollNames = []sgbucket.DataStoreNameImpl{
	{Scope: sgbucket.DefaultScope, Collection: sgbucket.DefaultCollection},
	{Scope: "s1", Collection: "c1"},
	{Scope: "s2", Collection: "c1"}, // the same collection name in another scope
	{Scope: "s1", Collection: "c2"}, // another collection in the same scope
}

type Config struct {
	Disk     bool   `json:"disk"`
	Buckets  int    `json:"buckets"`
	Handles  int    `json:"handles"`
	Colls    int    `json:"colls"`
	FeedsPer int    `json:"feedsPer"`           // live feeds per collection (started through alternating handles)
	Marker   bool   `json:"marker"`             // fence every step with a marker write
	KeysOnly bool   `json:"keysOnly,omitempty"` // additionally register a KeysOnly feed on every collection BEFORE the full feeds
	MaxDoc   int    `json:"maxDoc,omitempty"`
	Name     string `json:"name,omitempty"`   // fixed bucket name (crash engine); the bucket lives in <tmp>/<name>
	Reopen   bool   `json:"reopen,omitempty"` // open an existing on-disk bucket instead of creating it
}

var bucketSerial uint64

// Ev is a recorded feed event (copied out of the callback).
type Ev struct {
	Op    sgbucket.FeedOpcode
	Key   string
	Value []byte
	Cas   uint64
	Rev   uint64
	Exp   uint32
	Coll  uint32
	DT    uint8
	Seq   uint64 // arrival order on this feed
}

type FeedRec struct {
	Bucket, Coll, Handle int
	KeysOnly             bool
	mu                   sync.Mutex
	cond                 *sync.Cond
	evs                  []Ev
	read                 int // events consumed by the judge so far
	term                 chan bool
	done                 chan struct{}
	ended                atomic.Bool
	after                atomic.Int64 // callbacks after done closed
}

func (f *FeedRec) callback(e sgbucket.FeedEvent) bool {
	f.mu.Lock()
	if f.ended.Load() {
		f.after.Add(1)
	}
	f.evs = append(f.evs, Ev{Op: e.Opcode, Key: string(e.Key), Value: append([]byte(nil), e.Value...), Cas: e.Cas, Rev: e.RevNo,
		Exp: e.Expiry, Coll: e.CollectionID, DT: e.DataType, Seq: uint64(len(f.evs))})
	if e.Value == nil {
		f.evs[len(f.evs)-1].Value = nil
	}
	f.cond.Broadcast()
	f.mu.Unlock()
	return true
}

// WaitFor blocks until an unread event with (key, cas) has arrived (cas 0 = any cas) or the timeout passes.
// It returns all unread events up to and including that event and marks them read.
func (f *FeedRec) WaitFor(key string, cas uint64, timeout time.Duration) (evs []Ev, found bool) {
	deadline := time.Now().Add(timeout)
	f.mu.Lock()
	defer f.mu.Unlock()
	for {
		for i := f.read; i < len(f.evs); i++ {
			if f.evs[i].Key == key && (cas == 0 || f.evs[i].Cas == cas) {
				evs = append([]Ev(nil), f.evs[f.read:i+1]...)
				f.read = i + 1
				return evs, true
			}
		}
		if time.Now().After(deadline) {
			evs = append([]Ev(nil), f.evs[f.read:]...)
			f.read = len(f.evs)
			return evs, false
		}
		// timed wait
		t := time.AfterFunc(50*time.Millisecond, func() { f.mu.Lock(); f.cond.Broadcast(); f.mu.Unlock() })
		f.cond.Wait()
		t.Stop()
	}
}

// Drain returns unread events without waiting.
func (f *FeedRec) Drain() []Ev {
	f.mu.Lock()
	defer f.mu.Unlock()
	evs := append([]Ev(nil), f.evs[f.read:]...)
	f.read = len(f.evs)
	return evs
}

type BucketEnv struct {
	Name    string
	URL     string
	Dir     string
	Handles []*rosmar.Bucket
	Colls   [][]*rosmar.Collection // [handle][coll]
	Feeds   []*FeedRec
}

type Env struct {
	Cfg     Config
	Buckets []*BucketEnv
	tmp     string
	oldMax  int
	markerN uint64
}

// NewEnv opens the buckets, handles, collections and live feeds of a scenario.
func NewEnv(cfg Config, tmp string) (*Env, error) {
	if cfg.Buckets == 0 {
		cfg.Buckets = 1
	}
	if cfg.Handles == 0 {
		cfg.Handles = 1
	}
	if cfg.Colls == 0 {
		cfg.Colls = 1
	}
	e := &Env{Cfg: cfg, tmp: tmp, oldMax: rosmar.MaxDocSize}
	if cfg.MaxDoc > 0 {
		rosmar.MaxDocSize = cfg.MaxDoc
	}
	for bi := 0; bi < cfg.Buckets; bi++ {
		n := atomic.AddUint64(&bucketSerial, 1)
		be := &BucketEnv{Name: fmt.Sprintf("vb%d_%d", os.Getpid(), n)}
		if cfg.Name != "" {
			be.Name = cfg.Name
		}
		if cfg.Disk {
			be.Dir = filepath.Join(tmp, be.Name)
			be.URL = "rosmar://" + be.Dir
		} else {
			be.URL = rosmar.InMemoryURL
		}
		for h := 0; h < cfg.Handles; h++ {
			mode := rosmar.CreateNew
			if cfg.Reopen {
				mode = rosmar.ReOpenExisting
			}
			if h > 0 {
				mode = rosmar.ReOpenExisting
				if !cfg.Disk {
					mode = rosmar.CreateOrOpen
				}
			}
			b, err := rosmar.OpenBucket(be.URL, be.Name, rosmar.OpenMode(mode))
			if err != nil {
				e.Close()
				return nil, fmt.Errorf("open bucket %s handle %d: %w", be.Name, h, err)
			}
			be.Handles = append(be.Handles, b)
			var cs []*rosmar.Collection
			for ci := 0; ci < cfg.Colls; ci++ {
				var ds sgbucket.DataStore
				var err error
				if ci == 0 {
					ds = b.DefaultDataStore()
					if ds == nil {
						err = fmt.Errorf("DefaultDataStore returned nil")
					}
				} else {
					ds, err = b.NamedDataStore(CollNames[ci])
				}
				if err != nil {
					e.Buckets = append(e.Buckets, be)
					e.Close()
					return nil, err
				}
				cs = append(cs, ds.(*rosmar.Collection))
			}
			be.Colls = append(be.Colls, cs)
		}
		e.Buckets = append(e.Buckets, be)
		for ci := 0; ci < cfg.Colls; ci++ {
			if cfg.KeysOnly && cfg.FeedsPer > 0 {
				if _, err := e.startLiveFeed(bi, ci, 0, true); err != nil {
					e.Close()
					return nil, err
				}
			}
			for k := 0; k < cfg.FeedsPer; k++ {
				if _, err := e.StartLiveFeed(bi, ci, k%cfg.Handles); err != nil {
					e.Close()
					return nil, err
				}
			}
		}
	}
	return e, nil
}

// StartLiveFeed starts a no-backfill live feed on (bucket, coll) through the given handle.
func (e *Env) StartLiveFeed(bi, ci, h int) (*FeedRec, error) {
	return e.startLiveFeed(bi, ci, h, false)
}

func (e *Env) startLiveFeed(bi, ci, h int, keysOnly bool) (*FeedRec, error) {
	be := e.Buckets[bi]
	f := &FeedRec{Bucket: bi, Coll: ci, Handle: h, KeysOnly: keysOnly, term: make(chan bool), done: make(chan struct{})}
	f.cond = sync.NewCond(&f.mu)
	args := sgbucket.FeedArguments{ID: fmt.Sprintf("live-%d-%d-%d", bi, ci, len(be.Feeds)), Backfill: sgbucket.FeedNoBackfill, Terminator: f.term, DoneChan: f.done, KeysOnly: keysOnly}
	if err := be.Colls[h][ci].StartDCPFeed(context.Background(), args, f.callback, nil); err != nil {
		return nil, err
	}
	be.Feeds = append(be.Feeds, f)
	return f, nil
}

func (e *Env) FeedsOf(bi, ci int) []*FeedRec {
	var out []*FeedRec
	for _, f := range e.Buckets[bi].Feeds {
		if f.Coll == ci && !f.ended.Load() {
			out = append(out, f)
		}
	}
	return out
}

// Close tears everything down and removes on-disk data.
func (e *Env) Close() {
	ctx := context.Background()
	for _, be := range e.Buckets {
		for _, f := range be.Feeds {
			if !f.ended.Swap(true) {
				close(f.term)
			}
		}
		for _, f := range be.Feeds {
			select {
			case <-f.done:
			case <-time.After(5 * time.Second):
			}
		}
		for i, h := range be.Handles {
			if h == nil {
				continue
			}
			if i == len(be.Handles)-1 {
				func() {
					defer func() { _ = recover() }()
					_ = h.CloseAndDelete(ctx)
				}()
			} else {
				func() {
					defer func() { _ = recover() }()
					h.Close(ctx)
				}()
			}
		}
		if be.Dir != "" {
			_ = os.RemoveAll(be.Dir)
		}
	}
	rosmar.MaxDocSize = e.oldMax
}

// DumpEvents runs a Dump feed with backfill from startCas on a collection and returns everything delivered.
func (e *Env) DumpEvents(bi, h, ci int, startCas uint64, keysOnly bool) ([]Ev, error) {
	f := &FeedRec{Bucket: bi, Coll: ci, Handle: h, done: make(chan struct{})}
	f.cond = sync.NewCond(&f.mu)
	args := sgbucket.FeedArguments{ID: "dump", Backfill: startCas, Dump: true, DoneChan: f.done, KeysOnly: keysOnly}
	if err := e.Buckets[bi].Colls[h][ci].StartDCPFeed(context.Background(), args, f.callback, nil); err != nil {
		return nil, err
	}
	select {
	case <-f.done:
	case <-time.After(20 * time.Second):
		return nil, fmt.Errorf("dump feed did not finish within 20s")
	}
	return f.Drain(), nil
}

// ---------------------------------------------------------------- read-back

// Obs is the full read-back of one key through every read entry point.
type Obs struct {
	RawErr     string            `json:"rawErr,omitempty"`
	Raw        []byte            `json:"raw"`
	RawCas     uint64            `json:"rawCas"`
	Exists     bool              `json:"exists"`
	ExErr      string            `json:"exErr,omitempty"`
	Exp        uint32            `json:"exp"`
	ExpErr     string            `json:"expErr,omitempty"`
	GXErr      string            `json:"gxErr,omitempty"`
	GXBody     []byte            `json:"gxBody"`
	GX         map[string]string `json:"gx,omitempty"`
	GXCas      uint64            `json:"gxCas"`
	XErr       string            `json:"xErr,omitempty"`
	X          map[string]string `json:"xo,omitempty"`
	XCas       uint64            `json:"xCas"`
	VErr       string            `json:"vErr,omitempty"`
	VCas       uint64            `json:"vCas"`
	RevID      string            `json:"revid,omitempty"` // $document.revid (JSON string)
	DocV       string            `json:"docv,omitempty"`  // $document
	Panic      string            `json:"panic,omitempty"`
	GetErr     string            `json:"getErr,omitempty"` // Get(key, *[]byte)
	GetCas     uint64            `json:"getCas"`
	GetBody    []byte            `json:"getBody"`
	GetJSONErr string            `json:"getJsonErr,omitempty"` // Get(key, *any): decodes JSON bodies
}

var virtNames = []string{"$document", "$document.revid"}

// ReadBack reads one key through GetRaw, Exists, GetExpiry, GetWithXattrs, GetXattrs and the virtual xattrs.
func ReadBack(c *rosmar.Collection, key string) (o Obs) {
	defer func() {
		if r := recover(); r != nil {
			o.Panic = fmt.Sprint(r)
		}
	}()
	ctx := context.Background()
	var err error
	o.Raw, o.RawCas, err = c.GetRaw(key)
	o.RawErr = ErrClass(err)
	o.Exists, err = c.Exists(key)
	o.ExErr = ErrClass(err)
	var gb []byte
	o.GetCas, err = c.Get(key, &gb)
	o.GetErr, o.GetBody = ErrClass(err), gb
	if err == nil && len(gb) > 0 && (gb[0] == '{' || gb[0] == '[' || gb[0] == '"' || (gb[0] >= '0' && gb[0] <= '9')) && json.Valid(gb) {
		var v any
		_, err = c.Get(key, &v)
		o.GetJSONErr = ErrClass(err)
		if err == nil {
			if rb, merr := json.Marshal(v); merr != nil || !jsonEqual(rb, gb) {
				o.GetJSONErr = "decoded value differs from the stored JSON"
			}
		}
	}
	o.Exp, err = c.GetExpiry(ctx, key)
	o.ExpErr = ErrClass(err)
	var gx map[string][]byte
	o.GXBody, gx, o.GXCas, err = c.GetWithXattrs(ctx, key, XattrPool)
	o.GXErr = ErrClass(err)
	o.GX = xstrings(gx)
	var xo map[string][]byte
	xo, o.XCas, err = c.GetXattrs(ctx, key, XattrPool)
	o.XErr = ErrClass(err)
	o.X = xstrings(xo)
	var vx map[string][]byte
	vx, o.VCas, err = c.GetXattrs(ctx, key, virtNames)
	o.VErr = ErrClass(err)
	if err == nil {
		o.RevID = string(vx["$document.revid"])
		o.DocV = string(vx["$document"])
	}
	return o
}

// Equal compares two read-backs byte for byte.
func (o *Obs) Equal(p *Obs) bool { return o.Diff(p) == "" }

// Diff returns the name of the first differing field ("" if identical).
func (o *Obs) Diff(p *Obs) string {
	switch {
	case o.RawErr != p.RawErr:
		return "GetRaw.err"
	case !bytes.Equal(o.Raw, p.Raw) || (o.Raw == nil) != (p.Raw == nil):
		return "GetRaw.body"
	case o.RawCas != p.RawCas && o.RawErr == "":
		return "GetRaw.cas"
	case o.Exists != p.Exists || o.ExErr != p.ExErr:
		return "Exists"
	case o.Exp != p.Exp || o.ExpErr != p.ExpErr:
		return "GetExpiry"
	case o.GXErr != p.GXErr:
		return "GetWithXattrs.err"
	case !bytes.Equal(o.GXBody, p.GXBody):
		return "GetWithXattrs.body"
	case o.GXCas != p.GXCas && o.GXErr == "":
		return "GetWithXattrs.cas"
	case !mapEq(o.GX, p.GX):
		return "GetWithXattrs.xattrs"
	case o.XErr != p.XErr || !mapEq(o.X, p.X):
		return "GetXattrs"
	case o.VErr != p.VErr || o.RevID != p.RevID:
		return "$document.revid"
	case o.DocV != p.DocV:
		return "$document"
	case o.Panic != p.Panic:
		return "panic"
	case o.GetErr != p.GetErr || !bytes.Equal(o.GetBody, p.GetBody) || (o.GetErr == "" && o.GetCas != p.GetCas):
		return "Get"
	}
	return ""
}

func mapEq(a, b map[string]string) bool {
	if len(a) != len(b) {
		return false
	}
	for k, v := range a {
		if w, ok := b[k]; !ok || w != v {
			return false
		}
	}
	return true
}

func sortedKeys(m map[string]string) []string {
	ks := make([]string, 0, len(m))
	for k := range m {
		ks = append(ks, k)
	}
	sort.Strings(ks)
	return ks
}
