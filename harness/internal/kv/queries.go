package kv

import (
	"context"
	"encoding/hex"
	"encoding/json"
	"fmt"
	"sort"
	"strings"

	sgbucket "github.com/couchbase/sg-bucket"
)

// QRow is a query result row in canonical form (column -> canonical JSON).
type QRow map[string]string

func qrowKey(r QRow) string {
	ks := make([]string, 0, len(r))
	for k := range r {
		ks = append(ks, k)
	}
	sort.Strings(ks)
	var sb strings.Builder
	for _, k := range ks {
		sb.WriteString(k + "=" + r[k] + ";")
	}
	return sb.String()
}

type liveDoc struct {
	id   string
	body []byte
	doc  any            // parsed body (nil if not JSON)
	x    map[string]any // parsed xattrs
}

func (s *Sim) liveDocs(b, c int) (docs []liveDoc, allJSON bool) {
	allJSON = true
	for k, o := range s.Last {
		if k.B != b || k.C != c || !o.hasBody() {
			continue
		}
		d := liveDoc{id: k.K, body: o.Raw}
		if err := json.Unmarshal(o.Raw, &d.doc); err != nil {
			allJSON = false
			d.doc = nil
		}
		if o.GXErr == "" {
			d.x = map[string]any{}
			for n, v := range o.GX {
				var pv any
				_ = json.Unmarshal([]byte(v), &pv)
				d.x[n] = pv
			}
		}
		docs = append(docs, d)
	}
	sort.Slice(docs, func(i, j int) bool { return docs[i].id < docs[j].id })
	return
}

// sqlNum mimics SQLite's comparison of a ->> extracted value with a numeric parameter: NULL never matches,
// numbers compare numerically, TEXT sorts above every number.
func sqlGE(v any, n float64) bool {
	switch t := v.(type) {
	case float64:
		return t >= n
	case string, []any, map[string]any:
		return true // ->> yields TEXT (a string, or the JSON text of an array/object), and TEXT sorts above every number
	case bool:
		if t {
			return 1 >= n
		}
		return 0 >= n
	}
	return false
}

type queryCase struct {
	name     string
	stmt     string
	args     map[string]any
	ordered  bool
	jsonOnly bool
	want     func(docs []liveDoc) []QRow
}

func (s *Sim) queryCases() []queryCase {
	prefix := rng_pick(s, []string{"k%", "k1%", "%2", "e1%", "%", "K%", "E1%"})
	lim := 1 + s.R.Intn(3)
	nmin := float64(s.R.Intn(4))
	tval := rng_pick(s, []string{"a", "b", "c", "v"})
	smin := float64(1 + s.R.Intn(3))
	like := func(id string) bool {
		// (SQLite's LIKE ignores the case of ASCII letters)
		id, pat := strings.ToLower(id), strings.ToLower(prefix)
		switch {
		case pat == "%":
			return true
		case strings.HasSuffix(pat, "%"):
			return strings.HasPrefix(id, strings.TrimSuffix(pat, "%"))
		default:
			return strings.HasSuffix(id, strings.TrimPrefix(pat, "%"))
		}
	}
	idRow := func(d liveDoc) QRow { return QRow{"id": canon(d.id)} }
	return []queryCase{
		{name: "exact-bytes", ordered: false,
			stmt: `SELECT json_quote(id) AS id, json_quote(hex(body)) AS b, json_quote(json_extract(xattrs,'$._sync')) AS s, json_quote(json_extract(xattrs,'$.u1')) AS u FROM $_keyspace`,
			want: func(docs []liveDoc) []QRow {
				var out []QRow
				for _, d := range docs {
					r := QRow{"id": canon(d.id), "b": canon(strings.ToUpper(hex.EncodeToString(d.body)))}
					if v, ok := d.x["_sync"]; ok && v != nil {
						r["s"] = canon(v)
					}
					if v, ok := d.x["u1"]; ok && v != nil {
						r["u"] = canon(v)
					}
					out = append(out, r)
				}
				return out
			}},
		{name: "like", ordered: true, args: map[string]any{"p": prefix},
			stmt: `SELECT json_quote(id) AS id FROM $_keyspace WHERE id LIKE $p ORDER BY id`,
			want: func(docs []liveDoc) []QRow {
				var out []QRow
				for _, d := range docs {
					if like(d.id) {
						out = append(out, idRow(d))
					}
				}
				return out
			}},
		{name: "like-literal", ordered: true,
			// the same pattern written into the statement text (a '%' in the text is the statement's, nobody else's)
			stmt: `SELECT json_quote(id) AS id FROM $_keyspace WHERE id LIKE '` + prefix + `' AND (length(id) % 2) = 0 ORDER BY id`,
			want: func(docs []liveDoc) []QRow {
				var out []QRow
				for _, d := range docs {
					if like(d.id) && len(d.id)%2 == 0 {
						out = append(out, idRow(d))
					}
				}
				return out
			}},
		{name: "quoted-column-names", ordered: true,
			stmt: `SELECT json_quote(id) AS "the ""id""", json_quote(id) AS "back\slash", json_quote(id) AS "tab	and
newline" FROM $_keyspace ORDER BY id`,
			want: func(docs []liveDoc) []QRow {
				var out []QRow
				for _, d := range docs {
					out = append(out, QRow{`the "id"`: canon(d.id), `back\slash`: canon(d.id), "tab\tand\nnewline": canon(d.id)})
				}
				return out
			}},
		{name: "order-limit", ordered: true,
			stmt: fmt.Sprintf(`SELECT json_quote(id) AS id FROM $_keyspace ORDER BY id DESC LIMIT %d`, lim),
			want: func(docs []liveDoc) []QRow {
				var out []QRow
				for i := len(docs) - 1; i >= 0 && len(out) < lim; i-- {
					out = append(out, idRow(docs[i]))
				}
				return out
			}},
		{name: "two-keyspaces", ordered: true,
			stmt: `SELECT json_quote(a.id) AS id FROM $_keyspace AS a WHERE a.id IN (SELECT id FROM $_keyspace) ORDER BY a.id`,
			want: func(docs []liveDoc) []QRow {
				var out []QRow
				for _, d := range docs {
					out = append(out, idRow(d))
				}
				return out
			}},
		{name: "body-number", ordered: true, jsonOnly: true, args: map[string]any{"n": goNumber(nmin, s.nsteps)},
			stmt: `SELECT json_quote(id) AS id, json_quote(body->'n') AS n FROM $_keyspace WHERE body->>'n' >= $n ORDER BY id`,
			want: func(docs []liveDoc) []QRow {
				var out []QRow
				for _, d := range docs {
					if v, ok := objField(d.doc, "n"); ok && sqlGE(v, nmin) {
						out = append(out, QRow{"id": canon(d.id), "n": canon(v)})
					}
				}
				return out
			}},
		{name: "body-text", ordered: true, jsonOnly: true, args: map[string]any{"t": tval},
			stmt: `SELECT json_quote(id) AS id FROM $_keyspace WHERE body->>'t' = $t ORDER BY id`,
			want: func(docs []liveDoc) []QRow {
				var out []QRow
				for _, d := range docs {
					if v, ok := objField(d.doc, "t"); ok && v == tval {
						out = append(out, idRow(d))
					}
				}
				return out
			}},
		{name: "xattrs-is-null", ordered: true,
			stmt: `SELECT json_quote(id) AS id FROM $_keyspace WHERE xattrs IS NULL ORDER BY id`,
			want: func(docs []liveDoc) []QRow {
				var out []QRow
				for _, d := range docs {
					if len(d.x) == 0 {
						out = append(out, idRow(d))
					}
				}
				return out
			}},
		{name: "xattrs-column", ordered: true,
			stmt: `SELECT json_quote(id) AS id, xattrs AS x FROM $_keyspace ORDER BY id`,
			want: func(docs []liveDoc) []QRow {
				var out []QRow
				for _, d := range docs {
					r := idRow(d)
					if len(d.x) > 0 {
						r["x"] = canon(d.x)
					}
					out = append(out, r)
				}
				return out
			}},
		{name: "null-first-column", ordered: true,
			stmt: `SELECT xattrs->'_sync'->'seq' AS s, xattrs->'u1' AS u, json_quote(id) AS id FROM $_keyspace ORDER BY id`,
			want: func(docs []liveDoc) []QRow {
				var out []QRow
				for _, d := range docs {
					r := idRow(d)
					if sy, ok := d.x["_sync"].(map[string]any); ok {
						if v, ok := sy["seq"]; ok && v != nil {
							r["s"] = canon(v)
						}
					}
					if v, ok := d.x["u1"]; ok && v != nil {
						r["u"] = canon(v)
					}
					out = append(out, r)
				}
				return out
			}},
		{name: "null-middle-column", ordered: true, jsonOnly: true,
			stmt: `SELECT json_quote(id) AS id, body->'n' AS n, body->'t' AS t, json_quote(id) AS id2 FROM $_keyspace ORDER BY id DESC`,
			want: func(docs []liveDoc) []QRow {
				var out []QRow
				for i := len(docs) - 1; i >= 0; i-- {
					d := docs[i]
					r := QRow{"id": canon(d.id), "id2": canon(d.id)}
					if v, ok := objField(d.doc, "n"); ok && v != nil {
						r["n"] = canon(v)
					}
					if v, ok := objField(d.doc, "t"); ok && v != nil {
						r["t"] = canon(v)
					}
					out = append(out, r)
				}
				return out
			}},
		{name: "xattr-number", ordered: true, args: map[string]any{"s": goNumber(smin, s.nsteps+1)},
			stmt: `SELECT json_quote(id) AS id FROM $_keyspace WHERE xattrs->'_sync'->>'seq' >= $s ORDER BY id`,
			want: func(docs []liveDoc) []QRow {
				var out []QRow
				for _, d := range docs {
					if sy, ok := d.x["_sync"].(map[string]any); ok {
						if v, ok := sy["seq"]; ok && sqlGE(v, smin) {
							out = append(out, idRow(d))
						}
					}
				}
				return out
			}},
	}
}

func rng_pick(s *Sim, l []string) string { return l[s.R.Intn(len(l))] }

func (s *Sim) runQuery(b, c int, stmt string, args map[string]any, useBytes bool) (rows []QRow, err error) {
	defer func() {
		if r := recover(); r != nil {
			err = fmt.Errorf("panic: %v", r)
		}
	}()
	it, err := s.coll(b, 0, c).Query(sgbucket.SQLiteLanguage, stmt, args, sgbucket.RequestPlus, false)
	if err != nil {
		return nil, err
	}
	for {
		var m map[string]any
		if useBytes {
			raw := it.NextBytes()
			if raw == nil {
				break
			}
			if e := json.Unmarshal(raw, &m); e != nil {
				_ = it.Close()
				return nil, fmt.Errorf("row is not JSON: %q", raw)
			}
		} else if !it.Next(context.Background(), &m) {
			break
		}
		r := QRow{}
		for k, v := range m {
			if v != nil {
				r[k] = canon(v)
			}
		}
		rows = append(rows, r)
	}
	return rows, it.Close()
}

// JudgeQueries runs the query family on (b, c) and compares with the same predicates evaluated over the KV read-back (C19).
func (s *Sim) JudgeQueries(b, c int) {
	docs, allJSON := s.liveDocs(b, c)
	tombs := 0
	for k, o := range s.Last {
		if k.B == b && k.C == c && o.present() && !o.hasBody() {
			tombs++
		}
	}
	for qi, q := range s.queryCases() {
		want := q.want(docs)
		got, err := s.runQuery(b, c, q.stmt, q.args, qi%2 == 1)
		if s.Env.Cfg.Marker {
			// the fence document the feed judge writes is not one of the history's documents (its body is raw, too)
			if q.jsonOnly || strings.Contains(q.stmt, "LIMIT") {
				continue
			}
			kept := got[:0]
			for _, r := range got {
				if r["id"] != canon(MarkerKey) && r[`the "id"`] != canon(MarkerKey) {
					kept = append(kept, r)
				}
			}
			got = kept
		}
		if q.jsonOnly && !allJSON {
			// a body that is not JSON makes SQLite's JSON operators fail: the query may report that error (from Query,
			// from the iteration or from Close), but it must not pass off the rows it got so far as the whole result
			s.Ctx.Count("body_queries_over_raw_bodies", 1)
			if err != nil {
				s.Ctx.Count("body_queries_over_raw_bodies_refused", 1)
				continue
			}
		}
		s.Ctx.Count("queries_judged", 1)
		s.Ctx.Count("query_rows_compared", int64(len(want)))
		s.Ctx.Cell(fmt.Sprintf("query|%s|docs=%d|tombs=%v|%s", q.name, min64(int64(len(docs)), 4), tombs > 0, ifs(s.Env.Cfg.Disk, "disk", "mem")))
		if err != nil {
			s.reportQuery(q.name, "query.error", fmt.Sprintf("query %s on b%d/c%d failed: %v", q.name, b, c, err), nil)
			continue
		}
		gk, wk := make([]string, len(got)), make([]string, len(want))
		for i, r := range got {
			gk[i] = qrowKey(r)
		}
		for i, r := range want {
			wk[i] = qrowKey(r)
		}
		if !q.ordered {
			sort.Strings(gk)
			sort.Strings(wk)
		}
		if strings.Join(gk, "\n") != strings.Join(wk, "\n") {
			detail := map[string]any{"stmt": q.stmt, "args": q.args, "got": gk, "want": wk, "docs": s.docDigest(b, c)}
			// a row for a key that has no body: the query is one of the observers that must report a deleted document as absent (C05)
			for _, r := range got {
				for k, o := range s.Last {
					if k.B == b && k.C == c && o.present() && !o.hasBody() && (r["id"] == canon(k.K) || r[`the "id"`] == canon(k.K)) {
						detail["tombstone_in_result"] = k.K
					}
				}
			}
			s.reportQuery(q.name, "query.rows", fmt.Sprintf("query %s on b%d/c%d: got %d rows, the KV read-back gives %d", q.name, b, c, len(got), len(want)), detail)
		}
	}
}

func (s *Sim) reportQuery(name, kind, msg string, detail map[string]any) {
	last := "-"
	n := len(s.Log)
	if n > 0 {
		last = s.Log[n-1].Op.Variant()
	}
	from := n - 8
	if from < 0 {
		from = 0
	}
	if detail == nil {
		detail = map[string]any{}
	}
	detail["config"] = s.Env.Cfg
	detail["last_steps"] = s.Log[from:n]
	props := []string{"C19"}
	if t, ok := detail["tombstone_in_result"]; ok {
		props = []string{"C05", "C19"}
		msg += fmt.Sprintf("; the result has a row for %v, which is a tombstone", t)
	}
	s.Ctx.Viol(props, fmt.Sprintf("%s|%s|after:%s", kind, name, last), msg, detail)
}

// QueryRows runs one SQL statement over (b, c) and returns the canonical rows in result order (or the error text).
func (s *Sim) QueryRows(b, c int, stmt string, args map[string]any, useBytes bool) ([]string, string) {
	rows, err := s.runQuery(b, c, stmt, args, useBytes)
	if err != nil {
		return nil, "error"
	}
	out := make([]string, len(rows))
	for i, r := range rows {
		out[i] = qrowKey(r)
	}
	return out, ""
}

// goNumber hands a whole number to a query as one of the Go types a caller may hold it in: all of them are numbers
// to the statement, not text.
func goNumber(f float64, pick int) any {
	switch pick % 6 {
	case 0:
		return int(f)
	case 1:
		return int64(f)
	case 2:
		return uint32(f)
	case 3:
		return int32(f)
	case 4:
		return uint64(f)
	}
	return f
}
