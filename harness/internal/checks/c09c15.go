package checks

import (
	"fmt"
	"strings"
	"time"

	"verifharness/internal/conc"
	"verifharness/internal/rng"
	"verifharness/internal/sup"

	"github.com/couchbaselabs/rosmar"
)

func splitKind(msg string) (string, string) {
	if i := strings.IndexByte(msg, '|'); i > 0 {
		return msg[:i], msg[i+1:]
	}
	return "other", msg
}

// largeBackfillScenario (C09): backfills over a few hundred documents, some of which share a CAS.
func largeBackfillScenario(c *sup.Ctx, r *rng.R) {
	disk := c.Local%2 == 1
	b, err := conc.OpenBucket(c.Tmp, disk, 1)
	if err != nil {
		c.Incon("cannot open bucket: " + err.Error())
		return
	}
	defer b.Close()
	dumps, msg, info := conc.LargeBackfillRun(b, r)
	c.Count("large_backfills", int64(dumps))
	c.Cell(fmt.Sprintf("large-backfill|%s|%d", ifStr(disk, "disk", "mem"), dumps))
	if msg != "" {
		k, text := splitKind(msg)
		if k == "setup" {
			c.Incon(text)
		} else {
			c.Viol([]string{"C09"}, "large-backfill|"+k, text, info)
		}
	}
	c.Sample(info)
}

// bystanderStopScenario (C15): a plain feed next to the checkpointed one is stopped while the latter keeps running.
func bystanderStopScenario(c *sup.Ctx, r *rng.R) {
	disk := c.Local%2 == 1
	m, err := conc.OpenMulti(c.Tmp, disk, 1+r.Intn(2), 1)
	if err != nil {
		c.Incon("cannot open bucket: " + err.Error())
		return
	}
	defer m.Close()
	msg, info := conc.BystanderStopRun(m, r)
	c.Count("neighbour_feed_stops", 1)
	c.Cell(fmt.Sprintf("bystander-stop|%s|before=%v|after=%v", ifStr(disk, "disk", "mem"), info["plain_feeds_registered_before"], info["after"]))
	if msg != "" {
		k, text := splitKind(msg)
		if k == "setup" {
			c.Incon(text)
		} else {
			c.Viol([]string{"C15"}, "bystander-stop|"+k, text, info)
		}
	}
	c.Sample(info)
}

func joinScenario(c *sup.Ctx, r *rng.R, props []string) {
	disk := c.Local%2 == 1
	m, err := conc.OpenMulti(c.Tmp, disk, 2, 1)
	if err != nil {
		c.Incon("cannot open bucket: " + err.Error())
		return
	}
	defer m.Close()
	writers := 2 + r.Intn(5)
	res, msg, detail := conc.JoinRun(m, writers, 15+r.Intn(25), 3, r)
	c.Count("join_races", 1)
	c.Count("writes_inside_registration_window", res.InWindow)
	if res.WindowReached {
		c.Count("join_races_parked_in_the_window", 1)
	}
	if res.WindowReached && res.InWindow > 0 {
		c.Count("join_races_with_a_write_in_the_window", 1)
	}
	c.Count("backfill_events_in_joins", int64(res.BackfillEvs))
	c.Count("live_events_in_joins", int64(res.LiveEvs))
	c.Cell(fmt.Sprintf("join|writers=%d|inwindow=%d|%s", writers, min(res.InWindow, 3), ifStr(disk, "disk", "mem")))
	if msg != "" {
		kind, text := splitKind(msg)
		if kind == "setup" {
			c.Incon(text)
		} else {
			c.Viol(props, "join|"+kind, text, detail)
		}
	}
	c.Sample(map[string]any{"writers": writers, "disk": disk, "result": res})
}

func checkpointScenario(c *sup.Ctx, r *rng.R, props []string) {
	disk := c.Local%2 == 1
	m, err := conc.OpenMulti(c.Tmp, disk, 2, 1)
	if err != nil {
		c.Incon("cannot open bucket: " + err.Error())
		return
	}
	defer m.Close()
	restore, _ := conc.Noise(r.U64())
	defer restore()
	if c.Local%3 == 2 {
		// a clock that stands still makes every CAS the successor of the previous one, so "checkpoint+1" is always a real document
		frozen := uint64(1_800_000_000_000_000_000) + uint64(c.Local)<<20
		rosmar.VerifSetClock(func() uint64 { return frozen })
		defer rosmar.VerifSetClock(nil)
		c.Count("checkpoint_scenarios_with_frozen_clock", 1)
	}
	writers := 1 + r.Intn(6)
	restarts := 3 + r.Intn(6)
	keysOnly := (c.Local/3)%3 == 2 // a checkpointed feed may be KeysOnly too
	if keysOnly {
		c.Count("checkpoint_scenarios_with_a_keysonly_feed", 1)
	}
	nkeys := 4
	if keysOnly {
		nkeys = 12 // more keys, fewer rewrites: a version that a run skipped is more likely to be its key's final one
	}
	res, msg, detail := conc.CheckpointRun(m, writers, 20+r.Intn(30), nkeys, restarts, keysOnly, r)
	c.Count("checkpoint_scenarios", 1)
	c.Count("feed_runs", int64(res.Runs))
	c.Count("feed_stops", int64(res.Runs-1))
	c.Count("stops_with_queued_events", int64(res.StopsWithQueued))
	c.Count("stops_while_writers_active", int64(res.StopsWhileBusy))
	c.Count("events_delivered", int64(res.Delivered))
	c.Count("checkpoints_read", int64(len(res.Checkpoints)))
	c.Count("recreations_while_feed_stopped", int64(res.OfflineRecreations))
	c.Count("imports_with_a_future_cas", int64(res.FutureImports))
	c.Count("resumes_right_after_a_stop", int64(res.ResumesRightAfterAStop))
	c.Count("final_versions_checked", int64(res.FinalVersionsChecked))
	c.Cell(fmt.Sprintf("checkpoint|writers=%d|restarts=%d|busy=%d|%s", writers, restarts, min(int64(res.StopsWhileBusy), 4), ifStr(disk, "disk", "mem")))
	if msg != "" {
		kind, text := splitKind(msg)
		if kind == "setup" {
			c.Incon(text)
		} else {
			c.Viol(props, "checkpoint|"+kind, text, detail)
		}
	}
	c.Sample(map[string]any{"writers": writers, "restarts": restarts, "disk": disk, "result": res})
}

func multiCheckpointScenario(c *sup.Ctx, r *rng.R, props []string) {
	disk := c.Local%2 == 1
	m, err := conc.OpenMulti(c.Tmp, disk, 1+(c.Local/2)%2, 2)
	if err != nil {
		c.Incon("cannot open bucket: " + err.Error())
		return
	}
	defer m.Close()
	rounds := 2 + r.Intn(4)
	res, msg, detail := conc.MultiCheckpointRun(m, rounds, r)
	c.Count("multi_collection_checkpoint_scenarios", 1)
	c.Count("multi_collection_feed_runs", int64(res.Runs))
	c.Count("multi_collection_events_delivered", int64(res.Delivered))
	c.Cell(fmt.Sprintf("checkpoint-multi|rounds=%d|%s", rounds, ifStr(disk, "disk", "mem")))
	if msg != "" {
		kind, text := splitKind(msg)
		if kind == "setup" {
			c.Incon(text)
		} else {
			c.Viol(props, "checkpoint-multi|"+kind, text, detail)
		}
	}
	c.Sample(map[string]any{"disk": disk, "rounds": rounds, "result": res})
}

func init() {
	mk := func(prop, name string, q, t int, race bool, f func(*sup.Ctx, *rng.R, []string)) sup.Part {
		return sup.Part{Name: name, Race: race, Timeout: 120 * time.Second, Count: func(tier string) int { return tierN(tier, q, t) },
			Run: func(c *sup.Ctx) {
				f(c, rng.New(c.Seed, rng.HashString(prop), rng.HashString(name), uint64(c.Local)), []string{prop})
			}}
	}
	sup.Register(&sup.Check{
		Prop: "C09", Level: "exploration",
		Rule: "(snapshot) engine A: at quiescent points Dump feeds are started from start CAS in {0, a median CAS, the maximum, maximum+1, the touched key's CAS} (every fourth one KeysOnly) and compared with the current read-back of every key: bracketed by the markers, in CAS order, exactly the documents (tombstones included) with CAS >= start, once each, every field equal to what a live event for that state carries and, where the live feed delivered the same version (CAS, RevNo), equal field by field to that live event; (join) a backfill+live feed is started while 2-6 writers run and the feed.registered hook parks the starter between end of backfill and registration until further writes have been acknowledged; after a fence the newest event received for every key must be its final version; (large backfill) 260-340 documents with groups of 2-3 sharing one CAS at fixed and PRNG positions, dumps from 0 / median / each group's CAS / CAS+1; KeysOnly backfill events are compared with the KeysOnly live event of the same version; WithMeta writers in the join races; (stale DataStore) a Dump backfill by name through a handle whose cache predates the collection's re-creation must deliver the documents that exist now; cell = (variant, pre-state, outcome, bucket type) / (writers, writes inside the window)",
		Assumptions: kvAssume,
		Parts: append(c09SeqParts(),
			mk("C09", "large-backfill", 40, 800, false, func(c *sup.Ctx, r *rng.R, _ []string) { largeBackfillScenario(c, r) }),
			mk("C09", "join-races", 300, 6000, false, joinScenario),
			mk("C09", "join-races-race", 20, 200, true, joinScenario),
			sup.Part{Name: "stale-handle-after-drop", Timeout: 60 * time.Second, Count: func(t string) int { return tierN(t, 60, 1200) }, Run: staleHandleScenario}),
		RaceOwner: func(string) bool { return false },
		Floor: func(tier string, m *sup.Merged) string {
			if m.Counts["backfill_events_compared"] < 5000 {
				return "fewer than 5000 backfill events compared"
			}
			if m.Counts["join_races_parked_in_the_window"] < 50 {
				return "fewer than 50 join races parked the starter inside the backfill->registration window while writers were running"
			}
			return ""
		},
	})
	sup.Register(&sup.Check{
		Prop: "C15", Level: "exploration",
		Rule: "1-6 writers (regular API) run while a feed with a checkpoint prefix in resume mode is started through alternating handles, allowed a PRNG-chosen number of callbacks (the callback parks on a channel so events stay queued), stopped by its terminator, its checkpoint document read, 3-8 times; then a Dump resume run catches up; oracle: the checkpoint's last_seq never exceeds the highest CAS the feed delivered so far, the final version (read-back CAS) of every key is in the union of the runs' deliveries, and the newest version delivered for a key describes its final state (deletion iff it has no body, the same body bytes); while the feed is stopped, keys of their own are re-created over tombstones that earlier runs already delivered and checkpointed (Add, AddRaw, WriteCas 0, Set, WriteResurrectionWithXattrs, Update) and never touched again, so only a resume can deliver their final version; (two collections) one bucket-level feed over two collections with one ID and checkpoint prefix is run, stopped after a PRNG-chosen number of callbacks and resumed while both collections are written between the runs: every document of either collection is delivered by some run and each collection's checkpoint stays at or below what was delivered for it; schedule noise at the commit->post hook; also under the race detector; (neighbour feed) plain live feeds registered before / after the checkpointed one, one of them stopped by its terminator, then two writes, stop, resumed dump: both must have been delivered; a third of the checkpoint scenarios use a KeysOnly feed; (queued rewrites) keys written again behind later ones while the callback is parked, PRNG-chosen number of callbacks released, stop, resumed dump; cell = (writers, restarts, stops while writers active, bucket type)",
		Assumptions: []string{"the checkpoint document itself is excluded from the must-deliver set (it is written by the feed)", "stops are sampled at PRNG-chosen callback counts, not at every queue position"},
		Parts: []sup.Part{
			mk("C15", "checkpoint-restarts", 1500, 30000, false, checkpointScenario),
			mk("C15", "checkpoint-restarts-race", 60, 2400, true, checkpointScenario),
			mk("C15", "checkpoint-restarts-two-collections", 300, 6000, false, multiCheckpointScenario),
			mk("C15", "neighbour-feed-stopped", 60, 1200, false, func(c *sup.Ctx, r *rng.R, _ []string) { bystanderStopScenario(c, r) }),
			mk("C15", "rewrites-queued-behind-a-parked-callback", 200, 4000, false, func(c *sup.Ctx, r *rng.R, _ []string) {
				disk := c.Local%2 == 1
				m, err := conc.OpenMulti(c.Tmp, disk, 1+r.Intn(2), 1)
				if err != nil {
					c.Incon("cannot open bucket: " + err.Error())
					return
				}
				defer m.Close()
				keysOnly := (c.Local/2)%2 == 1
				msg, info := conc.QueuedRewriteRun(m, keysOnly, r)
				c.Count("queued_rewrite_scenarios", 1)
				c.Cell(fmt.Sprintf("queued-rewrite|%s|keysonly=%v", ifStr(disk, "disk", "mem"), keysOnly))
				if msg != "" {
					k, text := splitKind(msg)
					if k == "setup" {
						c.Incon(text)
					} else {
						c.Viol([]string{"C15"}, "queued-rewrite|"+k, text, info)
					}
				}
				c.Sample(info)
			}),
		},
		RaceOwner: func(string) bool { return false },
		Floor: func(tier string, m *sup.Merged) string {
			if m.Counts["feed_stops"] < 300 {
				return "fewer than 300 feed stops"
			}
			if m.Counts["stops_while_writers_active"] < 50 {
				return "fewer than 50 stops while writers were active"
			}
			return ""
		},
	})
}
