package checks

import (
	"verifharness/internal/kv"
	"verifharness/internal/rng"
	"verifharness/internal/sup"
)

// Engine-A parts of C02, C08, C09, C14, C18 (their concurrent / real-time parts are added in other files).

func c02SeqParts() []sup.Part {
	cond := kvOpts{
		Cfg:       defaultCfg(2, 1, 1, 0, false),
		Variants:  filterVariants(func(o *kv.Op) bool { return o.IsConditional() }),
		Setups:    kv.Setups,
		FollowUps: func() []kv.Op { return kv.FollowUps()[:4] },
	}
	r := cond
	r.Profile = heavy(1, 7, kv.KWriteCas, kv.KRemove, kv.KWriteWX, kv.KWriteTomb, kv.KUpdateX, kv.KRemoveX, kv.KSetMeta, kv.KDelMeta, kv.KWriteSub, kv.KSubInsert).With(kv.KSet, 4, kv.KDelete, 3, kv.KSetX, 3)
	r.Steps = 80
	return []sup.Part{
		exhaustivePart("seq-exhaustive", cond),
		randomPart("seq-random", 800, 12000, r),
	}
}

func c08SeqParts() []sup.Part {
	cfg := func(r *rng.R, local int) kv.Config {
		return kv.Config{Disk: local%2 == 1, Buckets: 1, Handles: 2, Colls: 2, FeedsPer: 2 + local%2, Marker: true, KeysOnly: local%4 >= 2}
	}
	ex := kvOpts{
		Sim:       kv.SimOptions{JudgeEvents: true},
		Cfg:       cfg,
		Variants:  kv.Variants,
		Setups:    kv.Setups,
		FollowUps: kv.FollowUps,
	}
	r := ex
	r.Profile = kv.Uniform(3).With(kv.KPurge, 1)
	r.Steps = 60
	r.ExtraEvery = func(s *kv.Sim, i int) {
		// one third into the history the earliest-registered feed of a collection is stopped by its terminator:
		// the feeds registered after it must keep receiving everything
		if i == 20 {
			s.EndFirstFeed(0, s.R.Intn(len(s.Env.Buckets[0].Colls[0])))
		}
	}
	return []sup.Part{
		exhaustivePart("seq-exhaustive", ex),
		randomPart("seq-random", 800, 12000, r),
	}
}

func c09SeqParts() []sup.Part {
	ex := kvOpts{
		Sim: kv.SimOptions{JudgeEvents: true, DumpEachStep: true},
		Cfg: func(r *rng.R, local int) kv.Config {
			// (in a third of the scenarios a KeysOnly live feed listens as well, so that KeysOnly backfills have a live twin to be compared with)
			return kv.Config{Disk: local%2 == 1, Buckets: 1, Handles: 1, Colls: 2, FeedsPer: 1, Marker: true, KeysOnly: (local/2)%3 == 2}
		},
		Variants:  kv.Variants,
		Setups:    kv.Setups,
		FollowUps: kv.FollowUps,
	}
	r := ex
	r.Sim = kv.SimOptions{JudgeEvents: true}
	r.Profile = kv.Uniform(3).With(kv.KPurge, 1)
	r.Steps = 60
	r.ExtraEvery = func(s *kv.Sim, i int) {
		if i%10 == 9 {
			dumpSweep(s)
		}
	}
	r.AtEnd = dumpSweep
	return []sup.Part{
		exhaustivePart("snapshot-exhaustive", ex),
		randomPart("snapshot-random", 600, 9000, r),
	}
}

func c14SeqParts() []sup.Part {
	ex := kvOpts{
		Cfg:       defaultCfg(2, 1, 1, 0, false),
		Variants:  kv.Variants,
		Setups:    kv.Setups,
		FollowUps: kv.FollowUps,
	}
	r := ex
	r.Profile = kv.Uniform(3).With(kv.KTouch, 8, kv.KGetTouch, 6, kv.KSet, 6, kv.KUpdateX, 6, kv.KWriteWX, 6)
	r.Steps = 70
	return []sup.Part{
		exhaustivePart("expiry-in-force-exhaustive", ex),
		randomPart("expiry-in-force-random", 400, 6000, r),
	}
}

func c18SeqParts() []sup.Part {
	sub := kvOpts{
		Cfg:       defaultCfg(2, 1, 1, 0, false),
		Variants:  filterVariants(func(o *kv.Op) bool { return o.IsSubdoc() }),
		Setups:    kv.Setups,
		FollowUps: func() []kv.Op { return kv.FollowUps()[:3] },
	}
	r := sub
	r.Profile = kv.Profile{kv.KWriteSub: 10, kv.KSubInsert: 6, kv.KGetSub: 8, kv.KSet: 4, kv.KDelete: 2, kv.KSetRaw: 1, kv.KIncr: 1, kv.KSetX: 2, kv.KUpdate: 2, kv.KWriteCas: 2, kv.KTouch: 1}
	r.Steps = 100
	r.TrailWS = 8 // documents as json.Encoder writes them (a newline after the closing brace)
	return []sup.Part{
		exhaustivePart("seq-exhaustive", sub),
		randomPart("seq-random", 1000, 15000, r),
	}
}
