package checks

import (
	"context"
	"fmt"
	"sort"
	"strings"

	"verifharness/internal/conc"
	"verifharness/internal/rng"
	"verifharness/internal/sup"

	sgbucket "github.com/couchbase/sg-bucket"
)

// withMetaAtHighWaterMarkScenario (C12, model-free): SetWithMeta / DeleteWithMeta take the CAS from their caller. A
// CAS that is exactly the collection's newest one (a document replicated with the CAS of the last local write), one
// just below it and one above it are mixed with ordinary writes and deletions; the view index is brought up to
// date after every call, so that it sits exactly at the high-water mark when the next WithMeta write arrives. The
// view emits every document's id: a non-stale query must return exactly the keys that Exists reports.
func withMetaAtHighWaterMarkScenario(c *sup.Ctx) {
	r := rng.New(c.Seed, rng.HashString("C12meta"), uint64(c.Local))
	disk := c.Local%2 == 1
	b, err := conc.OpenBucket(c.Tmp, disk, 1+(c.Local/2)%2)
	if err != nil {
		c.Incon("cannot open bucket: " + err.Error())
		return
	}
	defer b.Close()
	ctx := context.Background()
	col := b.Colls[0]
	qcol := b.Colls[len(b.Colls)-1]
	dd := &sgbucket.DesignDoc{Language: "javascript", Views: sgbucket.ViewMap{"v": sgbucket.ViewDef{Map: `function(doc, meta) { if (doc.k !== undefined) { emit(doc.k, null); } }`}}}
	if err := col.PutDDoc(ctx, "dd", dd); err != nil {
		c.Incon("PutDDoc: " + err.Error())
		return
	}
	keys := []string{"a", "b", "c", "d", "e"}
	var hwm uint64
	exact := false // hwm is known to be the CAS of the collection's newest write
	var history []string
	equalWrites := 0
	for step := 0; step < 40; step++ {
		k := keys[r.Intn(len(keys))]
		body := []byte(fmt.Sprintf(`{"k":"%s%d"}`, k, step))
		var cur uint64
		if _, cas, e := col.GetRaw(k); e == nil {
			cur = uint64(cas)
		}
		kind := ""
		var err error
		pick := r.Intn(10)
		newCas := hwm
		class := "equal"
		switch r.Intn(4) {
		case 0:
			class = "below"
			if hwm > 0x20000 {
				newCas = hwm - 0x10000
			}
		case 1:
			class = "above"
			newCas = hwm + 0x10000*uint64(1+r.Intn(50))
		}
		switch {
		case pick < 3:
			kind = "Set"
			err = col.Set(k, 0, nil, body)
		case pick < 4:
			kind = "Delete"
			err = col.Delete(k)
		case pick < 8:
			kind = "SetWithMeta/" + class
			if hwm == 0 {
				kind = "Set"
				err = col.Set(k, 0, nil, body)
				break
			}
			err = col.SetWithMeta(ctx, k, cur, newCas, 0, nil, body, sgbucket.FeedDataTypeJSON)
			if err == nil && class == "equal" && exact {
				equalWrites++
			}
		default:
			kind = "DeleteWithMeta/" + class
			if hwm == 0 || cur == 0 {
				kind = "Set"
				err = col.Set(k, 0, nil, body)
				break
			}
			err = col.DeleteWithMeta(ctx, k, cur, newCas, 0, nil)
			if err == nil && class == "equal" && exact {
				equalWrites++
			}
		}
		history = append(history, fmt.Sprintf("%s %s hwm=%x exact=%v err=%v", kind, k, hwm, exact, err != nil))
		if len(history) > 10 {
			history = history[1:]
		}
		if err == nil {
			switch {
			case strings.Contains(kind, "WithMeta"):
				if newCas >= hwm {
					hwm, exact = newCas, true
				}
			case kind == "Set":
				if _, cas, e := col.GetRaw(k); e == nil && uint64(cas) > hwm {
					hwm, exact = uint64(cas), true
				}
			default: // Delete: the tombstone's CAS is not read back
				exact = false
			}
		}
		var want []string
		for _, kk := range keys {
			if ex, e := col.Exists(kk); e == nil && ex {
				want = append(want, kk)
			}
		}
		res, verr := qcol.View(ctx, "dd", "v", map[string]interface{}{"stale": false})
		if verr != nil {
			c.Viol([]string{"C12"}, "withmeta-hwm|query-error", "non-stale view query failed: "+verr.Error(), map[string]any{"history": history})
			return
		}
		var got []string
		for _, row := range res.Rows {
			got = append(got, row.ID)
		}
		sort.Strings(got)
		sort.Strings(want)
		c.Count("view_queries_after_withmeta_histories", 1)
		if strings.Join(got, ",") != strings.Join(want, ",") {
			c.Viol([]string{"C12"}, "withmeta-hwm|rows", fmt.Sprintf("after %s on %q a non-stale query returns the documents [%s], the key-value API reports [%s]", kind, k, strings.Join(got, " "), strings.Join(want, " ")), map[string]any{"disk": disk, "history": history})
			return
		}
	}
	c.Count("withmeta_writes_exactly_at_the_high_water_mark", int64(equalWrites))
	c.Cell(fmt.Sprintf("withmeta-hwm|%s|handles=%d", ifStr(disk, "disk", "mem"), len(b.Colls)))
}
