package checks

import (
	"context"
	"fmt"
	"strings"
	"sync"
	"time"

	"verifharness/internal/conc"
	"verifharness/internal/rng"
	"verifharness/internal/sup"

	sgbucket "github.com/couchbase/sg-bucket"
	"github.com/couchbaselabs/rosmar"
)

// dropByStrangerScenario (C11): a collection gets documents and a live feed through handle B; handle A, which never
// asked for that collection, drops it and creates a collection of the same name again. The new collection is another
// collection: what is written to it must not reach the feed that was started on the dropped one. The fence is a
// second feed on the new collection - once it has delivered the last write, the old feed has had its chance.
func dropByStrangerScenario(c *sup.Ctx) {
	r := rng.New(c.Seed, rng.HashString("C11stranger"), uint64(c.Local))
	disk := c.Local%2 == 1
	bk, err := conc.OpenBucket(c.Tmp, disk, 2+(c.Local/2)%2)
	if err != nil {
		c.Incon("cannot open bucket: " + err.Error())
		return
	}
	defer bk.Close()
	ctx := context.Background()
	a, b := bk.Handles[0], bk.Handles[len(bk.Handles)-1]
	name := sgbucket.DataStoreNameImpl{Scope: []string{"s", "_default", "t"}[r.Intn(3)], Collection: []string{"c", "victim"}[r.Intn(2)]}
	dsB, err := b.NamedDataStore(name)
	if err != nil {
		c.Incon("create: " + err.Error())
		return
	}
	colB := dsB.(*rosmar.Collection)
	nOld := 1 + r.Intn(4)
	for i := 0; i < nOld; i++ {
		_ = colB.Set(fmt.Sprintf("k%d", i), 0, nil, []byte(fmt.Sprintf(`{"old":%d}`, i)))
	}
	var mu sync.Mutex
	var leaked []string
	oldDone := make(chan struct{})
	oldTerm := make(chan bool)
	backfill := uint64(sgbucket.FeedNoBackfill)
	if r.Bool() {
		backfill = 0
	}
	if err := colB.StartDCPFeed(ctx, sgbucket.FeedArguments{ID: "old", Backfill: backfill, Terminator: oldTerm, DoneChan: oldDone}, func(e sgbucket.FeedEvent) bool {
		if strings.Contains(string(e.Value), `"new"`) || strings.HasPrefix(string(e.Key), "n") {
			mu.Lock()
			leaked = append(leaked, string(e.Key))
			mu.Unlock()
		}
		return true
	}, nil); err != nil {
		c.Incon("feed: " + err.Error())
		return
	}
	defer func() {
		select {
		case <-oldDone:
		default:
			close(oldTerm)
		}
	}()
	if r.Bool() {
		_ = colB.Set("k0", 0, nil, []byte(`{"old":"again"}`)) // the feed is live and has delivered something
	}
	if err := a.DropDataStore(name); err != nil {
		c.Incon("drop through the other handle: " + err.Error())
		return
	}
	dsA, err := a.NamedDataStore(name)
	if err != nil {
		c.Incon("re-create: " + err.Error())
		return
	}
	colA := dsA.(*rosmar.Collection)
	fence := make(chan struct{}, 1)
	newDone := make(chan struct{})
	newTerm := make(chan bool)
	if err := colA.StartDCPFeed(ctx, sgbucket.FeedArguments{ID: "new", Backfill: sgbucket.FeedNoBackfill, Terminator: newTerm, DoneChan: newDone}, func(e sgbucket.FeedEvent) bool {
		if string(e.Key) == "n-last" {
			select {
			case fence <- struct{}{}:
			default:
			}
		}
		return true
	}, nil); err != nil {
		c.Incon("feed on the new collection: " + err.Error())
		return
	}
	defer func() { close(newTerm); <-newDone }()
	nNew := 1 + r.Intn(4)
	for i := 0; i < nNew; i++ {
		_ = colA.Set(fmt.Sprintf("n%d", i), 0, nil, []byte(fmt.Sprintf(`{"new":%d}`, i)))
	}
	if err := colA.Set("n-last", 0, nil, []byte(`{"new":"last"}`)); err != nil {
		c.Incon("write to the new collection: " + err.Error())
		return
	}
	select {
	case <-fence:
	case <-time.After(20 * time.Second):
		c.Incon("the feed on the re-created collection did not deliver the fence write within 20s")
		return
	}
	select {
	case <-oldDone:
		c.Count("old_feed_ended_by_the_drop", 1)
	case <-time.After(150 * time.Millisecond):
	}
	c.Count("drops_through_a_handle_that_never_opened_the_collection", 1)
	c.Cell(fmt.Sprintf("drop-by-stranger|%s|handles=%d|backfill=%v|%s", ifStr(disk, "disk", "mem"), len(bk.Handles), backfill == 0, name.Scope))
	mu.Lock()
	got := append([]string(nil), leaked...)
	mu.Unlock()
	if len(got) > 0 {
		c.Viol([]string{"C11", "C16"}, "drop-by-stranger|old-feed-sees-new-collection", fmt.Sprintf("a feed started on %s.%s before it was dropped (through a handle that never opened it) and created again delivered %d document(s) of the new collection: %v", name.Scope, name.Collection, len(got), got), map[string]any{"disk": disk, "handles": len(bk.Handles)})
	}
}
