package checks

import (
	"context"
	"fmt"
	"strings"
	"sync"
	"time"

	"verifharness/internal/conc"
	"verifharness/internal/kv"
	"verifharness/internal/rng"
	"verifharness/internal/sup"

	sgbucket "github.com/couchbase/sg-bucket"
	"github.com/couchbaselabs/rosmar"
)

func hlcScenario(c *sup.Ctx, r *rng.R) {
	class := c.Local
	callers := []int{1, 2, 4, 8, 16, 64}[r.Intn(6)]
	each := 10000 / callers
	if c.Tier == "thorough" {
		each *= 4
	}
	last := uint64(0)
	if r.Chance(1, 3) {
		last = uint64(1_700_000_500_000_000_000) + r.U64()%1_000_000_000_000 // seeded above the clock
	}
	n, eq, msg, detail := conc.HLCRun(r, class, callers, each, last)
	c.Count("hlc_scripts", 1)
	c.Count("timestamps_checked", int64(n))
	c.Count("equal_or_backward_clock_readings_fed", int64(eq))
	cs := conc.NewClockScript(r, class)
	c.Cell(fmt.Sprintf("hlc|%s|callers=%d|seeded=%v", cs.Class, callers, last != 0))
	if msg != "" {
		kind, text := splitKind(msg)
		c.Viol([]string{"C04"}, "hlc|"+kind+"|"+cs.Class, text, detail)
	}
	c.Sample(map[string]any{"clock": cs.Class, "callers": callers, "timestamps": n, "seeded_last": last})
}

// bucketClockScenario installs a scripted clock into the process-global HLC while concurrent writers hit 2-3
// buckets (memory and disk mixed) through every regular CAS-returning entry point.
func bucketClockScenario(c *sup.Ctx, r *rng.R) {
	class := c.Local
	script := conc.NewClockScript(r, class)
	if script.Class == "zero" || script.Class == "near-max" || script.Class == "random" {
		// the process-global clock must stay plausible for the other buckets of this worker: use relative scripts only
		script = conc.NewClockScript(r, class%6)
	}
	rosmar.VerifSetClock(script.Now)
	defer rosmar.VerifSetClock(nil)
	nb := 2 + r.Intn(2)
	var buckets []*conc.Bucket
	for i := 0; i < nb; i++ {
		b, err := conc.OpenBucket(c.Tmp, (i+c.Local)%2 == 1, 1+r.Intn(2))
		if err != nil {
			c.Incon("cannot open bucket: " + err.Error())
			return
		}
		defer b.Close()
		buckets = append(buckets, b)
	}
	// a live feed per bucket, to see the CAS on events too
	type evrec struct {
		key string
		cas uint64
		rev uint64
		del bool
	}
	var evmu sync.Mutex
	events := map[string][]evrec{} // "bucket/collection" -> events in delivery order
	var terms []chan bool
	var dones []chan struct{}
	for bi, b := range buckets {
		for ci, col := range b.Colls {
			fk := fmt.Sprintf("%d/%d", bi, ci)
			term, done := make(chan bool), make(chan struct{})
			terms, dones = append(terms, term), append(dones, done)
			_ = col.StartDCPFeed(context.Background(), sgbucket.FeedArguments{ID: "c04", Backfill: sgbucket.FeedNoBackfill, Terminator: term, DoneChan: done},
				func(e sgbucket.FeedEvent) bool {
					evmu.Lock()
					events[fk] = append(events[fk], evrec{string(e.Key), e.Cas, e.RevNo, e.Opcode == sgbucket.FeedOpDeletion})
					evmu.Unlock()
					return true
				}, nil)
		}
	}
	writers := 3 + r.Intn(6)
	var mu sync.Mutex
	var stamps []conc.CasStamp
	perKey := map[string][]conc.CasStamp{}
	var sameContent []string
	futureImports := 0
	imports := c.Local%3 == 2 // (in the other scenarios the scripted clock stays the only source of time)
	var wg sync.WaitGroup
	ctx := context.Background()
	for wi := 0; wi < writers; wi++ {
		wg.Add(1)
		wr := rng.New(r.U64(), uint64(wi))
		go func(wi int, wr *rng.R) {
			defer wg.Done()
			last := map[string]uint64{}
			for i := 0; i < 40; i++ {
				bi := wr.Intn(nb)
				b := buckets[bi]
				ci := wr.Intn(len(b.Colls))
				col := b.Colls[ci]
				key := fmt.Sprintf("k%d", wr.Intn(3))
				lk := fmt.Sprintf("%d/%d/%s", bi, ci, key)
				body := []byte(fmt.Sprintf(`{"w":"%d.%d"}`, wi, i))
				var cas uint64
				var err error
				if wr.Intn(12) == 0 {
					// another bucket is opened (its persisted high-water mark is lower than the clock's), and a
					// foreign document with an old CAS is stored: neither may pull the clock backwards
					if nb2, e2 := conc.OpenBucket(c.Tmp, wr.Bool(), 1); e2 == nil {
						old := uint64(1_600_000_000_000_000_000) + wr.U64()%1000
						_ = nb2.Colls[0].SetWithMeta(ctx, "foreign", 0, old, 0, nil, []byte(`{"f":1}`), sgbucket.FeedDataTypeJSON)
						nb2.Close()
					}
					_ = col.SetWithMeta(ctx, fmt.Sprintf("foreign%d", wi), 0, uint64(1_600_000_000_000_000_000)+wr.U64()%100000, 0, nil, []byte(`{"f":2}`), sgbucket.FeedDataTypeJSON)
				}
				call := conc.Tick.Add(1)
				if imports && wr.Intn(25) == 0 {
					// a replicated version of this very key arrives with a CAS ten minutes ahead of everything seen so far:
					// every later regular write of the key must still carry a larger CAS (the per-key order check below)
					if _, cur, gerr := col.GetRaw(key); gerr == nil {
						ahead := cur
						if now := uint64(time.Now().UnixNano()); now > ahead {
							ahead = now
						}
						ahead = (ahead+600e9)&^0xFFFF | uint64(0x8001+wr.Intn(0x7000))
						if col.SetWithMeta(ctx, key, cur, ahead, 0, nil, body, sgbucket.FeedDataTypeJSON) == nil {
							mu.Lock()
							futureImports++
							mu.Unlock()
						}
					}
				}
				switch wr.Intn(10) {
				case 8:
					if wr.Intn(3) == 0 {
						// a deleted document is brought back through the body+xattr entry point
						_ = col.Delete(key)
						cas, err = col.WriteResurrectionWithXattrs(ctx, key, 0, body, map[string][]byte{"_sync": []byte(`{"a":4}`)}, nil)
						break
					}
					err = col.Delete(key) // hands out a CAS (seen on the feed and in the stored tombstone) but does not return it
				case 9:
					_, err = col.Add(key, 0, body) // likewise; over a tombstone it re-creates the document
				case 0:
					cas, err = col.WriteCas(key, 0, last[lk], body, 0)
				case 1:
					cas, err = col.Update(key, 0, func(cur []byte) ([]byte, *uint32, bool, error) { return body, nil, false, nil })
				case 2:
					cas, err = col.SetXattrs(ctx, key, map[string][]byte{"_sync": []byte(`{"a":1}`)})
				case 3:
					cas, err = col.Remove(key, last[lk])
				case 4:
					cas, err = col.WriteWithXattrs(ctx, key, 0, last[lk], body, map[string][]byte{"_sync": []byte(`{"a":2}`)}, nil, nil)
				case 5:
					cas, err = col.WriteSubDoc(ctx, key, "p", 0, []byte(`1`))
				case 6:
					if wr.Bool() {
						// (appending has an UPDATE statement of its own)
						cas, err = col.WriteCas(key, 0, last[lk], []byte(" "), sgbucket.Append)
						break
					}
					cas, err = col.WriteTombstoneWithXattrs(ctx, key, 0, last[lk], map[string][]byte{"_sync": []byte(`{"a":3}`)}, nil, false, nil)
				default:
					// a blind write followed by a read of the CAS it got
					// (with and without PreserveExpiry, as JSON and as raw bytes: each has its own UPDATE statement)
					var uo *sgbucket.UpsertOptions
					if wr.Bool() {
						uo = &sgbucket.UpsertOptions{PreserveExpiry: true}
					}
					if wr.Intn(3) == 0 {
						err = col.SetRaw(key, 0, uo, body)
					} else {
						err = col.Set(key, 0, uo, body)
					}
					if err == nil {
						_, cas, err = col.GetRaw(key)
						cas = 0 // the read may already see a later write: not a stamp of this call
					}
				}
				if wr.Intn(15) == 0 {
					// the same content is stored twice in a row in a key only this writer uses: the second write is a
					// mutation like any other and must be stamped with a larger CAS
					own := fmt.Sprintf("own%d", wi)
					same := []byte(fmt.Sprintf(`{"same":%d}`, wi))
					if col.Set(own, 0, nil, same) == nil {
						_, c1, e1 := col.GetRaw(own)
						if col.Set(own, 0, nil, same) == nil {
							_, c2, e2 := col.GetRaw(own)
							if e1 == nil && e2 == nil && c2 <= c1 {
								mu.Lock()
								sameContent = append(sameContent, fmt.Sprintf("Set of %s with the content it already had: CAS %d before, %d after", own, c1, c2))
								mu.Unlock()
							}
						}
					}
				}
				ret := conc.Tick.Add(1)
				if err == nil && cas != 0 {
					last[lk] = cas
					mu.Lock()
					st := conc.CasStamp{Cas: cas, Bucket: bi, Key: key, Call: call, Ret: ret, Client: wi}
					stamps = append(stamps, st)
					perKey[lk] = append(perKey[lk], st)
					mu.Unlock()
				}
			}
		}(wi, wr)
	}
	wg.Wait()
	if len(sameContent) > 0 {
		c.Viol([]string{"C04"}, "bucket-clock|same-content|"+script.Class, "a successful write that stores what is already stored was not stamped with a new, larger CAS: "+sameContent[0], map[string]any{"cases": sameContent})
	}
	// a sentinel write per collection flushes the feeds: everything applied before it has been delivered once it arrives
	for _, b := range buckets {
		for _, col := range b.Colls {
			_ = col.Set("foreign-sentinel", 0, nil, []byte(`{"end":1}`))
		}
	}
	flushed := false
	for t := 0; t < 2000 && !flushed; t++ {
		flushed = true
		evmu.Lock()
		for bi, b := range buckets {
			for ci := range b.Colls {
				evs := events[fmt.Sprintf("%d/%d", bi, ci)]
				if len(evs) == 0 || evs[len(evs)-1].key != "foreign-sentinel" {
					flushed = false
				}
			}
		}
		evmu.Unlock()
		if !flushed {
			time.Sleep(5 * time.Millisecond)
		}
	}
	for i := range terms {
		close(terms[i])
		<-dones[i]
	}
	if !flushed {
		c.Incon("the feeds did not deliver the sentinel within 10 s")
		return
	}
	c.Count("bucket_clock_runs", 1)
	c.Count("imports_with_a_future_cas", int64(futureImports))
	c.Count("cas_stamps_checked", int64(len(stamps)))
	c.Cell(fmt.Sprintf("bucketclock|%s|buckets=%d|writers=%d", script.Class, nb, writers))
	if msg, d := conc.CheckCasStamps(stamps); msg != "" {
		kind, text := splitKind(msg)
		c.Viol([]string{"C04"}, "bucket|"+kind+"|"+script.Class, text+fmt.Sprintf(" (across %d buckets, %d writers)", nb, writers), d)
	}
	// per feed: the events of one collection never repeat a CAS; along the delivery order (= the order in which the
	// writes were applied) and along the revision numbers, the CAS of one key only grows; the CAS a key ends with
	// is the largest any writer was handed for it
	evmu.Lock()
	lastEv := map[string]evrec{}
	for fk, evs := range events {
		seen := map[uint64]string{}
		for _, e := range evs {
			if strings.HasPrefix(e.key, "foreign") {
				continue // stored with a caller-chosen CAS
			}
			if k, dup := seen[e.cas]; dup && (k != e.key) {
				c.Viol([]string{"C04"}, "bucket|event-cas-duplicate|"+script.Class, fmt.Sprintf("collection %s: events for %s and %s carry the same CAS %d", fk, k, e.key, e.cas), nil)
				break
			}
			seen[e.cas] = e.key
			lk := fk + "/" + e.key
			if p, ok := lastEv[lk]; ok && e.cas <= p.cas {
				c.Viol([]string{"C04"}, "bucket|later-write-smaller-cas|"+script.Class,
					fmt.Sprintf("key %s: the write applied later (revision %d) carries CAS %d, not larger than the CAS %d of the write applied before it (revision %d)", lk, e.rev, e.cas, p.cas, p.rev),
					map[string]any{"writers": writers, "buckets": nb})
				break
			}
			lastEv[lk] = e
			c.Count("per_key_order_pairs_checked", 1)
		}
	}
	evmu.Unlock()
	// what is stored is the version the last applied write left: its CAS is the one that write's event carried
	for lk, e := range lastEv {
		var bi, ci int
		var key string
		if _, err := fmt.Sscanf(strings.ReplaceAll(lk, "/", " "), "%d %d %s", &bi, &ci, &key); err != nil || bi >= len(buckets) || ci >= len(buckets[bi].Colls) {
			continue
		}
		o := kv.ReadBack(buckets[bi].Colls[ci], key)
		c.Count("stored_cas_checked", 1)
		if sc := o.RowCas(); sc != 0 && sc != e.cas {
			c.Viol([]string{"C04"}, "bucket|stored-cas-not-last-write|"+script.Class,
				fmt.Sprintf("key %s: the last write applied to it was stamped with CAS %d (its event, revision %d), but the document is stored with CAS %d", lk, e.cas, e.rev, sc), nil)
			break
		}
	}
	for lk, sts := range perKey {
		var bi, ci int
		var key string
		if _, err := fmt.Sscanf(strings.ReplaceAll(lk, "/", " "), "%d %d %s", &bi, &ci, &key); err != nil {
			continue
		}
		mx := uint64(0)
		for _, st := range sts {
			if st.Cas > mx {
				mx = st.Cas
			}
		}
		if e, ok := lastEv[lk]; ok && e.cas < mx {
			c.Viol([]string{"C04"}, "bucket|final-cas-below-handed-out|"+script.Class,
				fmt.Sprintf("key %s ends with CAS %d (its last applied write), but an earlier-applied write of it was handed the larger CAS %d", lk, e.cas, mx), nil)
		}
		if _, cas, err := buckets[bi].Colls[ci].GetRaw(key); err == nil && cas < mx {
			c.Viol([]string{"C04"}, "bucket|stored-cas-below-handed-out|"+script.Class,
				fmt.Sprintf("key %s is stored with CAS %d, but a write of it was handed the larger CAS %d", lk, cas, mx), nil)
		}
	}
	c.Sample(map[string]any{"clock": script.Class, "buckets": nb, "writers": writers, "stamps": len(stamps)})
	_ = kv.ErrClass
	_ = time.Now
}

func init() {
	sup.Register(&sup.Check{
		Prop: "C04", Level: "exploration",
		Rule: "(clock unit) a HybridLogicalClock built with the verif-only constructor reads a scripted physical clock (constant, decreasing, saw-tooth, backward jumps, sub-granularity advance, runs of equal readings, zero, near 2^62, random) from 1-64 goroutines, optionally seeded above the clock: per-caller strict increase, global uniqueness, above the seed, and real-time order (a call that started after another returned gets a larger timestamp) are checked by an n log n sweep; (bucket) the same scripts are installed into the process-global clock while 3-8 writers hit 2-3 buckets (memory and disk mixed) through the CAS-returning regular entry points: same checks over casOut across all buckets, no two events of a collection share a CAS, and per key the CAS grows strictly along the order in which the writes were applied (delivery order and revision numbers of live feeds on every collection, flushed by a sentinel) the stored CAS is the largest any writer was handed for that key and equals the CAS of the last applied write (Add and Delete, which return no CAS, are in the mix; in a third of the scenarios replicated versions of the same keys arrive with a CAS ten minutes ahead, which every later regular write of the key must exceed); (reopen) writer and reopener child processes with a rewound clock: see the C10 engine part 'reopen-clock' (half of the pairs after WithMeta writes carrying old CAS values into several collections, a quarter ending with such a write into a collection of its own); blind Set / SetRaw writes with and without PreserveExpiry; the stored CAS of every key must equal the CAS of its last event; (reopen) pairs whose last write is a replicated version with a CAS ahead of the writer's clock: a CAS-checked rewrite of that key after the reopen must get a larger CAS; Append writes in the bucket-clock runs; WriteResurrectionWithXattrs and same-content double writes in the bucket-clock runs; cell = (clock class, callers, seeded) / (clock class, buckets, writers)",
		Assumptions: []string{"clock readings are bounded to [0, 2^62] (CAS is stored in a signed 64-bit SQLite integer)", "WithMeta writes carry caller-chosen CAS and are excluded by the statement"},
		Parts: []sup.Part{
			{Name: "hlc-scripts", Timeout: 60 * time.Second, Count: func(t string) int { return tierN(t, 450, 9000) }, Run: func(c *sup.Ctx) {
				hlcScenario(c, rng.New(c.Seed, rng.HashString("C04hlc"), uint64(c.Local)))
			}},
			{Name: "bucket-clock", Serial: true, Timeout: 60 * time.Second, Count: func(t string) int { return tierN(t, 180, 7200) }, Run: func(c *sup.Ctx) {
				bucketClockScenario(c, rng.New(c.Seed, rng.HashString("C04bucket"), uint64(c.Local)))
			}},
			crashPart("reopen-clock", 40, 1200, reopenClockScenario),
			{Name: "hlc-scripts-race", Race: true, Timeout: 120 * time.Second, Count: func(t string) int { return tierN(t, 18, 90) }, Run: func(c *sup.Ctx) {
				hlcScenario(c, rng.New(c.Seed, rng.HashString("C04hlcrace"), uint64(c.Local)))
			}},
			{Name: "bucket-clock-race", Race: true, Timeout: 120 * time.Second, Count: func(t string) int { return tierN(t, 12, 60) }, Run: func(c *sup.Ctx) {
				bucketClockScenario(c, rng.New(c.Seed, rng.HashString("C04bucketrace"), uint64(c.Local)))
			}},
		},
		RaceOwner: raceOwner("C04"),
		Floor: func(tier string, m *sup.Merged) string {
			if m.Counts["timestamps_checked"] < 1000000 {
				return "fewer than 10^6 timestamps checked"
			}
			return ""
		},
	})
}
