package checks

import (
	"fmt"
	"strings"
	"time"

	"verifharness/internal/conc"
	"verifharness/internal/rng"
	"verifharness/internal/sup"
)

func feedOrderScenario(c *sup.Ctx, r *rng.R, props []string) {
	disk := c.Local%2 == 1
	m, err := conc.OpenMulti(c.Tmp, disk, 2, 2)
	if err != nil {
		c.Incon("cannot open bucket: " + err.Error())
		return
	}
	defer m.Close()
	writers := 2 + r.Intn(7)
	res, problems, detail := conc.FeedOrderRun(m, writers, 20+r.Intn(20), 3, r, r.U64())
	c.Count("concurrent_feed_runs", 1)
	c.Count("acked_mutations", int64(res.Acks))
	c.Count("events_received", int64(res.Events))
	c.Count("commit_post_windows", res.Hits)
	if res.MaxInWindow >= 2 {
		c.Count("runs_with_overlapping_windows", 1)
	}
	c.Max("max_writers_in_window", res.MaxInWindow)
	c.Cell(fmt.Sprintf("order|writers=%d|maxwin=%d|%s", writers, res.MaxInWindow, ifStr(disk, "disk", "mem")))
	seen := map[string]bool{}
	for _, p := range problems {
		kind := p
		if i := strings.IndexByte(p, '|'); i > 0 {
			kind = p[:i]
		}
		if seen[kind] {
			continue
		}
		seen[kind] = true
		c.Viol(props, "feed-concurrent|"+kind, p[strings.IndexByte(p, '|')+1:], map[string]any{"result": res, "detail": detail, "writers": writers, "disk": disk})
	}
	c.Sample(map[string]any{"writers": writers, "disk": disk, "result": res})
}

func inversionScenario(c *sup.Ctx, r *rng.R, props []string) {
	disk := c.Local%2 == 1
	m, err := conc.OpenMulti(c.Tmp, disk, 2, 1)
	if err != nil {
		c.Incon("cannot open bucket: " + err.Error())
		return
	}
	defer m.Close()
	msg, info := conc.InversionProbe(m)
	c.Count("inversion_probes", 1)
	c.Cell("inversion-probe|" + ifStr(disk, "disk", "mem"))
	if msg != "" {
		kind := msg
		if i := strings.IndexByte(msg, '|'); i > 0 {
			kind = msg[:i]
		}
		c.Viol(props, "feed-inversion-probe|"+kind, msg, info)
	}
	c.Sample(info)
}

func init() {
	props := []string{"C08"}
	mk := func(name string, q, t int, race bool, f func(*sup.Ctx, *rng.R, []string)) sup.Part {
		return sup.Part{Name: name, Race: race, Timeout: 90 * time.Second, Count: func(tier string) int { return tierN(tier, q, t) },
			Run: func(c *sup.Ctx) {
				f(c, rng.New(c.Seed, rng.HashString("C08"), rng.HashString(name), uint64(c.Local)), props)
			}}
	}
	parts := append(c08SeqParts(),
		mk("order-concurrent", 400, 8000, false, feedOrderScenario),
		mk("inversion-probe", 4, 20, false, inversionScenario),
		mk("order-concurrent-race", 80, 1600, true, feedOrderScenario),
		sup.Part{Name: "stale-handle-after-drop", Timeout: 60 * time.Second, Count: func(t string) int { return tierN(t, 60, 1200) }, Run: staleHandleScenario},
		sup.Part{Name: "refused-inside-the-transaction", Timeout: 90 * time.Second, Count: func(t string) int { return tierN(t, 30, 600) }, Run: refusedWriteScenario},
	)
	sup.Register(&sup.Check{
		Prop: "C08", Level: "exploration",
		Rule: "(content, exactly-once, sequential) engine A with 2-3 live feeds per collection started through different handles (one of them KeysOnly and registered first in half the scenarios): after a fence write, the events received since the previous fence must be exactly the one event of a successful CAS-changing call and none for a failed one, and every field (key, opcode, body and xattrs decoded with DecodeValueWithAllXattrs, datatype, CAS, expiry, RevNo, collection id) must equal the read-back; every write call gets a buffer of its own that is overwritten as soon as the call returns (an event must not share it); one third into a history the earliest-registered feed of a collection is stopped by its terminator and the later ones must keep receiving everything; (order, exactly-once under concurrency) 2-8 writers over 2 handles and 2 collections, 2 feeds per collection: after a fence, per feed the CAS sequence is strictly increasing and every acknowledged mutation appears exactly once (by CAS where the entry point returns it, by per-key count otherwise), WithMeta writers with caller-chosen CAS values take part (left out of the order comparison) and the last event a feed delivered for a key must be the version the key ended as; a deterministic probe parks writer A between commit and post while B commits and posts; evidence counts how many commit->post windows overlapped; also under the race detector; (stale DataStore) a live feed on a re-created collection must survive another handle's fetch of that collection by name; cell = (variant, pre-state, outcome, bucket type) / (writers, max writers in window); (refused inside the transaction) a call whose INSERT / UPDATE is refused by an unevaluable expression index posts no event, an acknowledged one exactly one",
		Assumptions: append([]string{"delivery is asserted at a fence (bounded progress: 30 s), not 'eventually'", "TimeReceived, VbNo, Flags, Synchronous and the xattr framing flag of events are not compared"}, kvAssume...),
		Parts:       parts,
		RaceOwner:   raceOwner("C08"),
		Floor: func(tier string, m *sup.Merged) string {
			if m.Counts["events_judged"] < 5000 {
				return "fewer than 5000 live events judged"
			}
			if m.Counts["commit_post_windows"] < 1000 {
				return "fewer than 1000 commit->post windows exercised"
			}
			return ""
		},
	})
}
