package checks

import (
	"encoding/json"
	"time"

	"verifharness/internal/kv"
	"verifharness/internal/rng"
	"verifharness/internal/sup"
)

func init() {
	viewCfg := func(r *rng.R, local int) kv.Config {
		return kv.Config{Disk: local%2 == 1, Buckets: 1, Handles: 1 + (local/2)%2, Colls: 2}
	}
	// ---------------------------------------------------------------- C12
	vo := kvOpts{Cfg: viewCfg}
	vo.Profile = kv.Uniform(3).With(kv.KPurge, 2, kv.KSet, 8, kv.KAdd, 5, kv.KDelete, 5, kv.KSetX, 5, kv.KWriteWX, 5, kv.KSetMeta, 4, kv.KDelMeta, 3, kv.KDropColl, 1)
	vo.Steps = 60
	vo.Keys = []string{"k0", "k1", "k2", "k3", "k4"}
	voNoMeta := vo
	voNoMeta.Profile = vo.Profile.With(kv.KSetMeta, 0, kv.KDelMeta, 0)
	sup.Register(&sup.Check{
		Prop: "C12", Level: "exploration",
		Rule: "engine A histories through every write entry point (deletes, resurrections, xattr-only writes, purges, WithMeta writes with CAS above / below / far above the clock or just above the document's own CAS, collection drop; a high-water-mark probe writes elsewhere, refreshes the index and then delivers a replicated version of the collection's newest document) with view queries placed at PRNG-chosen points; four map functions have native Go twins evaluated over a KV read-back of every key, sorted with sg-bucket's JSONCollator then by id, parameters (key, range, inclusive_end, limit, descending, reduce _count/_sum, group, group_level) applied by an independent implementation; a freshly created identical view (full rebuild) must return the same rows as the incrementally maintained one; design documents are replaced mid-history (another map function under the same name, or only other reduce functions); stale=ok / updateAfter queries are perturbations only; (concurrent, also under the race detector) writers, view queries (non-stale / ok / updateAfter) and design-document replacements and deletions through 1-2 handles; at quiescence a non-stale query through every handle must return the rows of the final documents; each spelling of 'not stale' (absent, false, \"false\") takes its turn as the first query after a batch of writes; emitted string keys with mixed case and punctuation; cell = (view, parameter shape, index age, bucket type); (WithMeta at the high-water mark, model-free) SetWithMeta / DeleteWithMeta with a CAS equal to, just below and above the collection's newest CAS, index up to date before each: rows of a view emitting every document = keys Exists reports",
		Assumptions: []string{"map functions are a fixed family of four (plus one replacement); the JS engine (otto) and sg-bucket's collator/reduce are trusted dependencies", "limit is not combined with reduce; the `keys` list parameter is not judged (sg-bucket returns one row per listed key); a view is not judged by the twin oracle while it emits an object-valued key (sg-bucket's Collate and CollateRaw order JSON objects differently)", "bodies flagged JSON are valid JSON objects/numbers; JSON-looking bytes are not written through raw entry points in this profile"},
		Parts: []sup.Part{viewPart("views-random", 500, 8000, voNoMeta), viewPart("views-withmeta", 300, 5000, vo),
			{Name: "views-concurrent", Timeout: 90 * time.Second, Count: func(t string) int { return tierN(t, 120, 2400) }, Run: func(c *sup.Ctx) {
				viewsConcurrentScenario(c, rng.New(c.Seed, rng.HashString("C12conc"), uint64(c.Local)))
			}},
			{Name: "withmeta-at-the-high-water-mark", Timeout: 60 * time.Second, Count: func(t string) int { return tierN(t, 60, 1200) }, Run: withMetaAtHighWaterMarkScenario},
			{Name: "views-concurrent-race", Race: true, Timeout: 180 * time.Second, Count: func(t string) int { return tierN(t, 24, 240) }, Run: func(c *sup.Ctx) {
				viewsConcurrentScenario(c, rng.New(c.Seed, rng.HashString("C12concrace"), uint64(c.Local)))
			}},
		},
		RaceOwner: raceOwner("C12"),
		Floor: func(tier string, m *sup.Merged) string {
			if m.Counts["view_queries_judged"] < 2000 {
				return "fewer than 2000 judged view queries"
			}
			return ""
		},
	})
	// ---------------------------------------------------------------- C19
	qo := kvOpts{Cfg: func(r *rng.R, local int) kv.Config {
		return kv.Config{Disk: local%2 == 1, Buckets: 1, Handles: 1, Colls: 3}
	}}
	qo.Profile = kv.Uniform(3).With(kv.KPurge, 2, kv.KSet, 8, kv.KAdd, 5, kv.KDelete, 6, kv.KSetX, 5, kv.KWriteWX, 5, kv.KDropColl, 1)
	qo.Steps = 60
	qo.Keys = []string{"k0", "k1", "k2", "k12", "e1", "K1", "E12"}
	sup.Register(&sup.Check{
		Prop: "C19", Level: "exploration",
		Rule: "engine A histories over three collections sharing key names; at PRNG-chosen points a family of eleven SQLite queries over $_keyspace (exact id/hex(body)/xattr values of every row, LIKE with a named parameter, ORDER BY .. LIMIT, a statement mentioning $_keyspace twice, comparisons on body->>'n', body->>'t', xattrs->'_sync'->>'seq', `xattrs IS NULL`, the raw xattrs column, rows whose first or middle columns are SQL NULL) is executed through Next and NextBytes on in-memory (pre-recorded iterator) and on-disk (streaming iterator) buckets and compared with the same predicate evaluated natively over the KV read-back of that collection; (short bodies) JSON documents of 6-9 bytes, which SQLite could take for its binary JSONB; (raw bodies) a body-property query over a collection holding a non-JSON body must fail or be complete; (stale DataStore) after another handle dropped a collection (and created another one), a query through the DataStore still held for the dropped collection must return no rows, on in-memory and on-disk buckets alike; query cases with a literal % / modulo operator in the statement text and with column aliases containing a quote, a backslash, a tab and a newline; xattr values include bare numbers; (real time) a document past its expiry time but not yet tombstoned keeps its row whenever Exists reports it right before and after the query; LIKE judged case-insensitively over ids in both cases; numeric arguments handed over as several Go integer types; (rows without a body, model-free) after raw writes with a nil body the ids a query returns must be exactly the keys Exists / GetRaw report; cell = (query, number of live docs, tombstones present, bucket type)",
		Assumptions: []string{"the query family is fixed; SQLite's own expression semantics are trusted", "queries over body properties are issued only while every live document of the collection holds valid JSON (a raw body makes SQLite's JSON operators fail for the whole statement)"},
		Parts: []sup.Part{queryPart("queries-random", 1500, 25000, qo, false), queryPart("queries-json-only", 1000, 15000, qo, true),
			{Name: "stale-handle-after-drop", Timeout: 60 * time.Second, Count: func(t string) int { return tierN(t, 120, 2400) }, Run: staleHandleScenario},
			{Name: "documents-about-to-expire", Timeout: 60 * time.Second, Count: func(t string) int { return tierN(t, 8, 64) }, Run: expiringInQueriesScenario},
			{Name: "rows-without-a-body", Timeout: 60 * time.Second, Count: func(t string) int { return tierN(t, 60, 1200) }, Run: bodylessRowsScenario}},
		Floor: func(tier string, m *sup.Merged) string {
			if m.Counts["queries_judged"] < 2000 {
				return "fewer than 2000 judged queries"
			}
			return ""
		},
	})
}

var allViews = []kv.ViewDef{}

func viewPart(name string, quick, thorough int, o kvOpts) sup.Part {
	return sup.Part{Name: name, Count: func(t string) int { return tierN(t, quick, thorough) }, Run: func(c *sup.Ctx) {
		r := rng.New(c.Seed, rng.HashString(c.Prop), rng.HashString(name), uint64(c.Local))
		cfg := o.Cfg(r, c.Local)
		sim, err := kv.NewSim(c, r, cfg, o.Sim)
		if err != nil {
			c.Incon("cannot set up scenario: " + err.Error())
			return
		}
		defer sim.Close()
		g := &kv.Gen{R: r, Keys: o.Keys, Colls: cfg.Colls, Bkts: 1, Hnd: 1}
		age := map[int]string{}
		install := func(ci int, variant int) {
			if err := sim.PutViews(0, ci, kv.ViewSetVariant(variant)); err != nil {
				c.Viol([]string{"C12"}, "view.putddoc", "PutDDoc failed: "+err.Error(), nil)
			}
		}
		for ci := 0; ci < cfg.Colls; ci++ {
			install(ci, 0)
			age[ci] = "fresh"
		}
		variant := 0
		steps := o.Steps
		if c.Tier == "thorough" {
			steps *= 2
		}
		for i := 0; i < steps; i++ {
			op := g.Random(o.Profile)
			if op.Kind == kv.KDropColl {
				op.Coll = 1 + r.Intn(cfg.Colls-1)
				sim.Do(op)
				install(op.Coll, variant) // a re-created collection has no design documents
				age[op.Coll] = "fresh"
				continue
			}
			if op.Kind == kv.KUpdate && op.Mode == "exponly" {
				// Update keeps the old bytes but flags them JSON: on a raw body that yields "JSON" the JS side cannot
				// parse, a corner no property pins (DESIGN §3.11); not generated in the view profile
				if d := sim.Model[kv.DocKey{B: 0, C: op.Coll, K: op.Key}]; d != nil && d.Live() && !json.Valid(d.Body) {
					continue
				}
			}
			sim.Do(op)
			if o.Profile[kv.KSetMeta] > 0 && r.Chance(1, 10) {
				// high-water-mark probe: another collection is written, this collection's index is brought up to date, then
				// a replicated version of this collection's newest document arrives with a CAS just above its own
				ci := r.Intn(cfg.Colls)
				oc := (ci + 1) % cfg.Colls
				w := g.Make(kv.KSet)
				w.Key, w.Coll = o.Keys[r.Intn(len(o.Keys))], oc
				sim.Do(w)
				sim.JudgeViews(0, ci, age[ci])
				age[ci] = "incremental"
				newest, ncas := "", uint64(0)
				for k, d := range sim.Model {
					if k.B == 0 && k.C == ci && k.K != kv.MarkerKey && d.Present && d.Cas > ncas {
						newest, ncas = k.K, d.Cas
					}
				}
				if newest != "" {
					m := g.Make(kv.KSetMeta)
					m.Key, m.Coll, m.CasClass, m.NewCasClass = newest, ci, kv.CasCurrent, "between"
					sim.Do(m)
					sim.JudgeViews(0, ci, "after-replicated-write")
					c.Count("high_water_mark_probes", 1)
				}
			}
			switch r.Intn(12) {
			case 0, 1, 2:
				ci := r.Intn(cfg.Colls)
				sim.JudgeViews(0, ci, age[ci])
				age[ci] = "incremental"
			case 3:
				sim.StaleQuery(0, r.Intn(cfg.Colls), "ok")
			case 4:
				sim.StaleQuery(0, r.Intn(cfg.Colls), "updateAfter")
			case 5:
				if r.Chance(1, 3) {
					variant = (variant + 1 + r.Intn(2)) % 3 // another map function, or only other reduce functions
					ci := r.Intn(cfg.Colls)
					install(ci, variant)
					age[ci] = ifStr(variant == 2, "replaced-reduce-only", "replaced")
				}
			case 6:
				if r.Chance(1, 2) {
					sim.FreshViewCrossCheck(0, r.Intn(cfg.Colls))
				}
			}
		}
		for ci := 0; ci < cfg.Colls; ci++ {
			sim.JudgeViews(0, ci, age[ci])
			sim.FreshViewCrossCheck(0, ci)
		}
		c.Sample(sampleOf(sim, 10))
	}}
}

func queryPart(name string, quick, thorough int, o kvOpts, jsonOnly bool) sup.Part {
	return sup.Part{Name: name, Count: func(t string) int { return tierN(t, quick, thorough) }, Run: func(c *sup.Ctx) {
		r := rng.New(c.Seed, rng.HashString(c.Prop), rng.HashString(name), uint64(c.Local))
		cfg := o.Cfg(r, c.Local)
		sim, err := kv.NewSim(c, r, cfg, o.Sim)
		if err != nil {
			c.Incon("cannot set up scenario: " + err.Error())
			return
		}
		defer sim.Close()
		g := &kv.Gen{R: r, Keys: o.Keys, Colls: cfg.Colls, Bkts: 1, Hnd: 1, Short: 6}
		prof := o.Profile
		if jsonOnly {
			prof = prof.With(kv.KSetRaw, 0, kv.KAddRaw, 0, kv.KSetMeta, 0, kv.KIncr, 1)
		}
		steps := o.Steps
		if c.Tier == "thorough" {
			steps *= 2
		}
		for i := 0; i < steps; i++ {
			op := g.Random(prof)
			if jsonOnly && op.Kind == kv.KWriteCas && (op.Raw || op.Append) {
				continue
			}
			if op.Kind == kv.KDropColl {
				op.Coll = 1 + r.Intn(cfg.Colls-1)
			}
			sim.Do(op)
			if r.Chance(1, 4) {
				sim.JudgeQueries(0, r.Intn(cfg.Colls))
			}
		}
		for ci := 0; ci < cfg.Colls; ci++ {
			sim.JudgeQueries(0, ci)
		}
		c.Sample(sampleOf(sim, 10))
	}}
}
