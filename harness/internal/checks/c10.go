package checks

import (
	"fmt"
	"strings"
	"time"

	"verifharness/internal/crash"
	"verifharness/internal/rng"
	"verifharness/internal/sup"
)

var crashPoints = []string{"txn.begin", "txn.precommit", "cas.between", "txn.postcommit", "event.prepost"}

// crashProps maps a problem kind to the properties whose clauses it refutes.
func crashProps(kind string) []string {
	switch {
	case strings.HasPrefix(kind, "cas-after-reopen"):
		return []string{"C04", "C10"}
	case strings.HasPrefix(kind, "expiry"):
		return []string{"C10", "C14"}
	}
	return []string{"C10"}
}

func reportCrash(c *sup.Ctx, r *crash.Run, o *crash.Outcome) {
	c.Count("crash_runs", 1)
	if !o.Opened {
		c.Count("killed_before_open", 1)
		if o.OpenedAfterInterruptedCreation {
			c.Count("remains_of_an_interrupted_creation_accepted_by_a_later_open", 1)
		}
		for _, p := range o.Problems {
			if kind, text := splitKind(p); kind == "half-created" {
				c.Viol([]string{"C10"}, "crash|half-created|"+killClass(r), text, map[string]any{"run": r, "outcome": o})
			}
		}
		return
	}
	c.Count("acks_seen", int64(o.Acks))
	if o.InFlight != nil {
		c.Count("runs_with_call_in_flight", 1)
		c.Count("inflight_"+o.Applied, 1)
		c.Cell(fmt.Sprintf("crash|%s|%s|%s", killClass(r), o.InFlight.Kind, o.Applied))
	} else {
		c.Cell(fmt.Sprintf("crash|%s|between-calls", killClass(r)))
	}
	seen := map[string]bool{}
	for _, p := range o.Problems {
		kind, text := splitKind(p)
		if kind == "setup" {
			c.Incon(text)
			continue
		}
		if seen[kind] {
			continue
		}
		seen[kind] = true
		sig := "crash|" + kind + "|" + killClass(r)
		if o.InFlight != nil && (kind == "atomicity" || strings.HasPrefix(kind, "durability")) {
			sig += "|" + o.InFlight.Kind
		}
		c.Viol(crashProps(kind), sig, text, map[string]any{"writer": r.Writer, "reader_args": r.Reader, "strace_pwrite": r.Strace, "outcome": o})
	}
	c.Sample(map[string]any{"kill": o.KillDesc, "acks": o.Acks, "in_flight": o.InFlight, "in_flight_was": o.Applied, "reader_mode": r.Reader.Mode})
}

func killClass(r *crash.Run) string {
	switch {
	case r.Strace > 0:
		return "pwrite64"
	case r.ExtKill > 0:
		return "external"
	case r.Writer.Point != "":
		return r.Writer.Point
	case r.Writer.Clean:
		return "clean-close"
	}
	return "after-last-ack"
}

func hookKillScenario(c *sup.Ctx, r *rng.R) {
	hist := uint64(c.Local % 12)
	point := crashPoints[(c.Local/12)%len(crashPoints)]
	run := &crash.Run{Tmp: c.Tmp, Writer: crash.WriterArgs{Seed: c.Seed*1000 + hist, Ops: 25, Point: point, Nth: 1 + r.Intn(40)}, Reader: crash.ReaderArgs{Mode: 2 - 2*(c.Local%2), NewWrites: 2, TryCreateNew: c.Local%5 == 3}}
	o := run.Execute()
	reportCrash(c, run, &o)
}

// withMetaKillScenario: every call in flight is a SetWithMeta / DeleteWithMeta (document, high-water marks and view
// reset are several statements of one transaction) and the view is brought up to date after every call.
func withMetaKillScenario(c *sup.Ctx, r *rng.R) {
	point := crashPoints[c.Local%len(crashPoints)]
	run := &crash.Run{Tmp: c.Tmp, Writer: crash.WriterArgs{Seed: c.Seed*1000 + uint64(c.Local%6), Ops: 16, Point: point, Nth: 2 + (c.Local/len(crashPoints))%34, Profile: "withmeta"}, Reader: crash.ReaderArgs{Mode: 2 - 2*(c.Local%2), NewWrites: 1}}
	o := run.Execute()
	reportCrash(c, run, &o)
}

// adminKillScenario: PutDDoc / DeleteDDoc / CreateDataStore / DropDataStore after every document operation.
func adminKillScenario(c *sup.Ctx, r *rng.R) {
	point := crashPoints[c.Local%3] // txn.begin, txn.precommit, cas.between do not all occur in admin calls; postcommit via %5 below
	if c.Local%5 == 4 {
		point = "txn.postcommit"
	}
	run := &crash.Run{Tmp: c.Tmp, Writer: crash.WriterArgs{Seed: c.Seed*1000 + uint64(c.Local%8), Ops: 14, Point: point, Nth: 2 + (c.Local/5)%40, Profile: "admin"}, Reader: crash.ReaderArgs{Mode: 2 - 2*(c.Local%2), NewWrites: 1}}
	if c.Local%7 == 6 {
		run.Writer.Point = ""
		run.Strace = 100 + (c.Local/7)*9
	}
	o := run.Execute()
	c.Count("admin_crash_runs", 1)
	reportCrash(c, run, &o)
}

// dropCycleKillScenario: an admin-created collection is created, filled with documents and dropped, over and over;
// the kill comes from strace at the N-th pwrite64, so that it can land between the statements of one admin call
// (which carry no hook points): a collection that survives must still hold exactly its documents.
func dropCycleKillScenario(c *sup.Ctx, r *rng.R) {
	stride := 6
	if c.Tier == "thorough" {
		stride = 1
	}
	run := &crash.Run{Tmp: c.Tmp, Strace: 100 + (c.Local/4)*stride + r.Intn(stride), Writer: crash.WriterArgs{Seed: c.Seed*1000 + uint64(c.Local%4), Ops: 12, Profile: "dropcycle"}, Reader: crash.ReaderArgs{Mode: 2 - 2*(c.Local%2), NewWrites: 1}}
	o := run.Execute()
	c.Count("drop_cycle_crash_runs", 1)
	reportCrash(c, run, &o)
}

// lockedOpenScenario: between the writer's end and the real reopen, a process tries to open the bucket while its
// database file is write-locked from outside for longer than rosmar's busy timeout (10 s). That open fails; the
// bucket must be none the worse for it.
func lockedOpenScenario(c *sup.Ctx, r *rng.R) {
	run := &crash.Run{Tmp: c.Tmp, LockedOpen: true, Writer: crash.WriterArgs{Seed: c.Seed*1000 + uint64(c.Local), Ops: 10, Clean: c.Local%2 == 0},
		Reader: crash.ReaderArgs{Mode: 2 - 2*((c.Local/2)%2), NewWrites: 1}}
	o := run.Execute()
	c.Count("opens_attempted_while_the_file_was_locked", 1)
	if o.LockedOpenErr != "" {
		c.Count("opens_refused_while_the_file_was_locked", 1)
	}
	reportCrash(c, run, &o)
}

// creationKillScenario: the kill lands while OpenBucket is still creating the bucket (schema, bucket row, default
// collection are separate commits); N sweeps every pwrite64 of that phase.
func creationKillScenario(c *sup.Ctx, r *rng.R) {
	run := &crash.Run{Tmp: c.Tmp, Strace: 1 + c.Local%130, Writer: crash.WriterArgs{Seed: c.Seed*1000 + uint64(c.Local/130), Ops: 2}, Reader: crash.ReaderArgs{Mode: 2 - 2*(c.Local%2), NewWrites: 1}}
	o := run.Execute()
	c.Count("kills_aimed_at_bucket_creation", 1)
	reportCrash(c, run, &o)
}

// massPurgeScenario: PurgeTombstones over 300-1100 tombstones, killed at a transaction hook inside the call.
func massPurgeScenario(c *sup.Ctx, r *rng.R) {
	tombs := []int{300, 520, 700, 1100}[c.Local%4]
	point := []string{"txn.postcommit", "txn.postcommit", "txn.precommit"}[(c.Local/4)%3]
	nth := 1 + (c.Local/12)%3
	res := crash.MassPurge(c.Tmp, tombs, point, nth, 2-2*(c.Local%2))
	c.Count("purges_interrupted_by_a_kill", 1)
	c.Cell(fmt.Sprintf("mass-purge|%d|%s#%d|%s", tombs, point, nth, ifStr(res.Acked, "acknowledged", "killed-inside")))
	if res.Incon != "" {
		c.Incon(res.Incon)
		return
	}
	if res.Left == 0 {
		c.Count("interrupted_purges_found_applied", 1)
	} else {
		c.Count("interrupted_purges_found_not_applied", 1)
	}
	if res.Problem != "" {
		k, text := splitKind(res.Problem)
		c.Viol([]string{"C10"}, "mass-purge|"+k, text, res)
	}
	c.Sample(res)
}

func straceKillScenario(c *sup.Ctx, r *rng.R) {
	hist := uint64(c.Local % 12)
	// opening the bucket (schema, collections, design document) takes ~120 pwrite64 calls spread over several
	// threads (strace counts per thread), the 25 operations another ~130: sweep N over 30..260
	stride := 18
	if c.Tier == "thorough" {
		stride = 1
	}
	run := &crash.Run{Tmp: c.Tmp, Strace: 30 + (c.Local/12)*stride + r.Intn(stride), Writer: crash.WriterArgs{Seed: c.Seed*1000 + hist, Ops: 25}, Reader: crash.ReaderArgs{Mode: 2, NewWrites: 1}}
	o := run.Execute()
	reportCrash(c, run, &o)
}

func controlScenario(c *sup.Ctx, r *rng.R) {
	run := &crash.Run{Tmp: c.Tmp, Writer: crash.WriterArgs{Seed: c.Seed*1000 + uint64(c.Local), Ops: 20}, Reader: crash.ReaderArgs{Mode: 2 - 2*(c.Local%2), NewWrites: 1, TryCreateNew: (c.Local/3)%2 == 0}}
	switch c.Local % 3 {
	case 0:
		run.Writer.Clean = true
	case 1: // SIGKILL right after the last acknowledged call
	case 2:
		run.Writer.SleepAtEnd = 2000
		run.ExtKill = 1 + r.Intn(20)
	}
	o := run.Execute()
	reportCrash(c, run, &o)
}

// reopenClockScenario: the writer runs with the clock an hour ahead, is killed (or closes cleanly); the reopening
// process has its clock an hour behind: every CAS it hands out must still exceed what was acknowledged (C04).
func reopenClockScenario(c *sup.Ctx, r *rng.R) {
	now := uint64(time.Now().UnixNano())
	run := &crash.Run{Tmp: c.Tmp, Writer: crash.WriterArgs{Seed: c.Seed*1000 + uint64(c.Local), Ops: 12, Clock: now + 3600e9},
		Reader: crash.ReaderArgs{Mode: 2 - 2*(c.Local%2), NewWrites: 3, Clock: now - 3600e9}}
	if (c.Local/4)%2 == 1 {
		// WithMeta writes store caller-chosen (older) CAS values in several collections: the bucket's persisted
		// high-water mark must not follow them downwards
		run.Writer.Profile = "withmeta"
		run.Writer.EndMeta = (c.Local/8)%2 == 0
		c.Count("reopen_pairs_after_withmeta_writes", 1)
	}
	if (c.Local/2)%3 == 1 {
		// the last write before the close / kill is a replicated version whose CAS is ahead of the writer's clock
		run.Writer.EndFuture, run.Reader.Rewrite = true, []string{"imported"}
		c.Count("reopen_pairs_after_an_import_from_the_future", 1)
	}
	switch c.Local % 4 {
	case 0:
		run.Writer.Clean = true
	case 1:
		run.Writer.Point, run.Writer.Nth = crashPoints[r.Intn(len(crashPoints))], 5+r.Intn(20)
	case 2:
		run.Writer.DropY, run.Writer.Clean = true, true
	case 3:
		run.Writer.DropY = true
	}
	o := run.Execute()
	c.Count("reopen_pairs", 1)
	reportCrash(c, run, &o)
}

// pendingExpiryScenario: a document with a 2 s expiry is written, the process dies or closes; after reopening (either
// mode) it must be tombstoned within the C14 bound with no client activity.
func pendingExpiryScenario(c *sup.Ctx, r *rng.R) {
	run := &crash.Run{Tmp: c.Tmp, Writer: crash.WriterArgs{Seed: c.Seed*1000 + uint64(c.Local), Ops: 6, Expiry: 2},
		Reader: crash.ReaderArgs{Mode: 2 - 2*(c.Local%2), WaitExp: 2000 + 3000, NewWrites: 0}}
	switch c.Local % 3 {
	case 0:
		run.Writer.Clean = true
	case 1:
		run.Writer.Point, run.Writer.Nth = "txn.postcommit", 3+r.Intn(4)
	}
	if (c.Local/3)%2 == 1 {
		// the deadline passes while the bucket is closed: it is overdue at reopen and must go within the bound
		run.DelayReopen = 2600
		run.Reader.WaitExp = 3000
		c.Count("reopens_after_the_deadline", 1)
	}
	o := run.Execute()
	c.Count("pending_expiry_reopens", 1)
	if o.Opened && len(o.Reader.ExpGoneMs) > 0 {
		for _, ms := range o.Reader.ExpGoneMs {
			if ms >= 0 {
				c.Count("expiries_fired_after_reopen", 1)
			}
		}
	}
	reportCrash(c, run, &o)
}

func crashPart(name string, q, t int, f func(*sup.Ctx, *rng.R)) sup.Part {
	return sup.Part{Name: name, Timeout: 150 * time.Second, Count: func(tier string) int { return tierN(tier, q, t) },
		Run: func(c *sup.Ctx) {
			f(c, rng.New(c.Seed, rng.HashString("crash"), rng.HashString(name), uint64(c.Local)))
		}}
}

func init() {
	sup.Register(&sup.Check{
		Prop: "C10", Level: "fault_enumeration",
		Rule: "a writer child process opens an on-disk bucket, runs a model-generated history over all entry points (3 collections, views indexed every 5 ops) and streams INTENT before and ACK (with the key's full read-back) after every call; it is SIGKILLed (i) by the hook handler at the n-th hit of each of txn.begin / txn.precommit / cas.between / txn.postcommit / event.prepost, (ii) inside SQLite's commit by strace injecting SIGKILL at the N-th pwrite64, (iii) right after the last ACK, (iv) externally while idle, plus a clean Close as control; a FRESH process reopens the bucket (ReOpenExisting and CreateOrOpen alternately) and dumps every key of every collection, UUID, collections (with the filler documents of admin-created collections: create / fill / drop cycles are killed by strace between the statements of one admin call), design documents and a non-stale view query, in some runs after a CreateNew attempt that must be refused and must leave the bucket intact, or after an open attempted (and failing) while the database file was write-locked from outside for longer than the busy timeout; kills swept over every pwrite64 of bucket creation: what a later open accepts must be a whole bucket; oracle: every key equals the read-back of its last acknowledged call, the key of the call in flight is either unchanged or passes the full sequential judge as a completed call (all-or-nothing over body, xattrs, CAS, expiry, revision), the view agrees with the surviving documents, CAS values after reopening with a rewound clock exceed every acknowledged CAS, and a document with a 2 s expiry written before the kill is tombstoned within 3 s of its deadline after reopen without client activity; (large purge) 300-1100 tombstones, the writer kills itself at the n-th txn.precommit / txn.postcommit hit inside the one PurgeTombstones call: after reopen all or none are left; cell = (kill class, entry point in flight, applied / not applied)",
		Assumptions: []string{"process death only: power loss / fsync ordering is not observable here (the page cache survives a killed process)", "kills before the writer reported the bucket open are outside the statement and are not judged", "strace counts pwrite64 per thread, so N selects a crash point only approximately; the oracle does not depend on where the kill landed"},
		Parts: []sup.Part{
			crashPart("hook-kills", 480, 12000, hookKillScenario),
			crashPart("hook-kills-withmeta", 170, 3400, withMetaKillScenario),
			crashPart("kills-during-admin-calls", 160, 2400, adminKillScenario),
			crashPart("pwrite-kills", 144, 6000, straceKillScenario),
			crashPart("pwrite-kills-in-drop-cycles", 160, 1600, dropCycleKillScenario),
			crashPart("pwrite-kills-during-creation", 130, 520, creationKillScenario),
			crashPart("kills-inside-a-large-purge", 12, 72, massPurgeScenario),
			crashPart("controls", 45, 300, controlScenario),
			crashPart("open-fails-while-locked", 6, 40, lockedOpenScenario),
			crashPart("reopen-clock", 40, 1200, reopenClockScenario),
			crashPart("pending-expiry", 30, 300, pendingExpiryScenario),
		},
		Floor: func(tier string, m *sup.Merged) string {
			if m.Counts["crash_runs"] < 500 {
				return "fewer than 500 crash runs"
			}
			if m.Counts["inflight_applied"] == 0 || m.Counts["inflight_not-applied"] == 0 {
				return "the in-flight call was never seen both applied and not applied"
			}
			return ""
		},
	})
}
