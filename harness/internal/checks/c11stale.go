package checks

import (
	"context"
	"fmt"
	"os"
	"path/filepath"
	"strings"
	"sync"
	"sync/atomic"
	"time"

	"verifharness/internal/kv"
	"verifharness/internal/rng"
	"verifharness/internal/sup"

	sgbucket "github.com/couchbase/sg-bucket"
	"github.com/couchbaselabs/rosmar"
)

var staleSerial atomic.Uint64

// staleHandleScenario: two handles of one bucket hold DataStores for the same collections. Handle A drops one of
// them and creates another collection (a different name, or the same name again). Whatever handle B then does through
// the DataStore it still holds for the dropped collection - the calls may fail, that is not judged - no other
// collection (the default one, the untouched sibling, the newly created one) may show any change: every key of theirs
// is re-read through handle A and must equal its read-back from before, and their feeds must stay silent.
func staleHandleScenario(c *sup.Ctx) {
	r := rng.New(c.Seed, rng.HashString("C11stale"), uint64(c.Local))
	ctx := context.Background()
	disk := c.Local%2 == 1
	name := fmt.Sprintf("stale%d_%d", os.Getpid(), staleSerial.Add(1))
	url, dir := rosmar.InMemoryURL, ""
	if disk {
		dir = filepath.Join(c.Tmp, name)
		url = "rosmar://" + dir
	}
	a, err := rosmar.OpenBucket(url, name, rosmar.CreateNew)
	if err != nil {
		c.Incon("open: " + err.Error())
		return
	}
	defer func() {
		func() { defer func() { _ = recover() }(); _ = a.CloseAndDelete(ctx) }()
		if dir != "" {
			_ = os.RemoveAll(dir)
		}
	}()
	b, err := rosmar.OpenBucket(url, name, rosmar.ReOpenExisting)
	if err != nil {
		c.Incon("open second handle: " + err.Error())
		return
	}
	defer func() { func() { defer func() { _ = recover() }(); b.Close(ctx) }() }()
	names := []sgbucket.DataStoreNameImpl{{Scope: "s", Collection: "a"}, {Scope: "s", Collection: "b"}, {Scope: "t", Collection: "c"}}
	ncoll := 2 + r.Intn(2)
	names = names[:ncoll]
	keys := []string{"k0", "k1", "k2"}
	get := func(h *rosmar.Bucket, n sgbucket.DataStoreName) *rosmar.Collection {
		ds, err := h.NamedDataStore(n)
		if err != nil {
			return nil
		}
		return ds.(*rosmar.Collection)
	}
	collsA := map[string]*rosmar.Collection{"_default": a.DefaultDataStore().(*rosmar.Collection)}
	collsB := map[string]*rosmar.Collection{}
	for _, n := range names {
		ca, cb := get(a, n), get(b, n)
		if ca == nil || cb == nil {
			c.Incon("cannot create collections")
			return
		}
		collsA[n.Collection], collsB[n.Collection] = ca, cb
	}
	for cn, col := range collsA {
		for i, k := range keys {
			_ = col.Set(k, 0, nil, []byte(fmt.Sprintf(`{"in":%q,"i":%d}`, cn, i)))
		}
		_, _ = col.SetXattrs(ctx, "k1", map[string][]byte{"_sync": []byte(`{"seq":1}`)})
		_ = col.Delete("k2")
	}
	// which one is dropped: the most recently created one (its row id is the highest) in half of the cases
	victim := names[ncoll-1]
	if r.Chance(1, 2) {
		victim = names[r.Intn(ncoll)]
	}
	if err := a.DropDataStore(victim); err != nil {
		c.Incon("drop: " + err.Error())
		return
	}
	delete(collsA, victim.Collection)
	follow := []string{"create-other", "create-other", "recreate-same", "create-two", "nothing"}[r.Intn(5)]
	mk := func(n sgbucket.DataStoreNameImpl) {
		if col := get(a, n); col != nil {
			collsA[n.Collection] = col
			for i, k := range keys {
				_ = col.Set(k, 0, nil, []byte(fmt.Sprintf(`{"in":%q,"i":%d,"new":true}`, n.Collection, i)))
			}
		}
	}
	switch follow {
	case "create-other":
		mk(sgbucket.DataStoreNameImpl{Scope: "s", Collection: "fresh"})
	case "recreate-same":
		mk(victim)
	case "create-two":
		mk(sgbucket.DataStoreNameImpl{Scope: "s", Collection: "fresh"})
		mk(sgbucket.DataStoreNameImpl{Scope: "u", Collection: "fresh2"})
	}
	// baseline through handle A, feeds on every surviving collection
	type rb struct {
		coll, key string
		obs       kv.Obs
	}
	var base []rb
	probeKeys := append(append([]string{}, keys...), "fresh-key")
	var events atomic.Int64
	term := make(chan bool)
	var dones []chan struct{}
	for cn, col := range collsA {
		if follow == "recreate-same" && cn == victim.Collection {
			continue // the same name again: operations addressed to that name may legitimately reach it
		}
		for _, k := range probeKeys {
			base = append(base, rb{cn, k, kv.ReadBack(col, k)})
		}
		done := make(chan struct{})
		dones = append(dones, done)
		_ = col.StartDCPFeed(ctx, sgbucket.FeedArguments{ID: "stale-" + cn, Backfill: sgbucket.FeedNoBackfill, Terminator: term, DoneChan: done}, func(e sgbucket.FeedEvent) bool {
			events.Add(1)
			return true
		}, nil)
	}
	// handle B "creates" the collections that exist already (an idempotent-looking call, whatever it answers): their
	// documents must all still be there
	for _, n := range names {
		if _, alive := collsA[n.Collection]; !alive || (follow == "recreate-same" && n == victim) {
			continue
		}
		func() { defer func() { _ = recover() }(); _ = b.CreateDataStore(ctx, n) }()
		c.Count("creates_of_an_existing_collection", 1)
	}
	for _, x := range base {
		now := kv.ReadBack(collsA[x.coll], x.key)
		if d := x.obs.Diff(&now); d != "" {
			c.Viol([]string{"C01", "C11"}, "stale-handle|create-existing-changes-documents",
				fmt.Sprintf("CreateDataStore for a collection that already exists (issued through another handle) changed %s of key %s in collection %s: a document goes missing only when it is deleted, purged or its collection dropped", d, x.key, x.coll), map[string]any{"disk": disk})
			return
		}
	}
	// the collection that was created again gets a live feed through handle A (used below)
	var recEvents atomic.Int64
	recDone := make(chan struct{})
	if follow == "recreate-same" {
		if col := collsA[victim.Collection]; col != nil {
			if ferr := col.StartDCPFeed(ctx, sgbucket.FeedArguments{ID: "stale-recreated", Backfill: sgbucket.FeedNoBackfill, Terminator: term, DoneChan: recDone}, func(e sgbucket.FeedEvent) bool {
				if string(e.Key) == "after-the-fetch" {
					recEvents.Add(1)
				}
				return true
			}, nil); ferr == nil {
				dones = append(dones, recDone)
			}
		}
	}
	// handle B, through the DataStore it obtained before the drop and through one it asks for now
	stale := []*rosmar.Collection{collsB[victim.Collection]}
	if follow != "recreate-same" {
		if again := get(b, victim); again != nil {
			stale = append(stale, again)
		}
	}
	if follow == "recreate-same" && c.Local%4 < 2 {
		// (in the other half of these scenarios handle B does not ask again, so that its later DropDataStore by name
		// still starts from the object it cached for the first incarnation)
		// handle B asks for the collection by name NOW, after it was dropped and created again through handle A: what it
		// gets must be the collection that exists under that name - A's new documents readable, B's writes visible to A
		c.Count("datastores_fetched_by_name_after_recreation", 1)
		byName := get(b, victim)
		full := victim.Scope + "." + victim.Collection
		det := map[string]any{"disk": disk, "then": follow, "collection": full}
		if byName == nil {
			c.Viol([]string{"C11", "C01"}, "stale-handle|by-name-after-recreation|refused", fmt.Sprintf("after handle A dropped and re-created %s, NamedDataStore(%s) through handle B fails", full, full), det)
		} else {
			raw, _, gerr := byName.GetRaw("k0")
			if gerr != nil || !bytesContain(raw, `"new":true`) {
				c.Viol([]string{"C11", "C01"}, "stale-handle|by-name-after-recreation|read", fmt.Sprintf("after handle A dropped and re-created %s and wrote k0 into it, the DataStore handle B obtains for that name now reads k0 as %q (%v): it is not the collection that exists under that name", full, raw, gerr), det)
			}
			werr := byName.SetRaw("via-b", 0, nil, []byte("written through handle B"))
			if werr != nil {
				c.Viol([]string{"C11", "C01"}, "stale-handle|by-name-after-recreation|write", fmt.Sprintf("after handle A dropped and re-created %s, a write through the DataStore handle B obtains for that name now fails: %v", full, werr), det)
			}
			// replacing the stale object in handle B's cache must not have ended the feeds of the collection that exists now
			if aerr := collsA[victim.Collection].SetRaw("after-the-fetch", 0, nil, []byte("x")); aerr == nil {
				ok := false
				for t := 0; t < 5000 && !ok; t++ {
					ok = recEvents.Load() > 0
					if !ok {
						time.Sleep(time.Millisecond)
					}
				}
				ended := false
				select {
				case <-recDone:
					ended = true
				default:
				}
				c.Count("feeds_on_a_recreated_collection_checked_after_a_fetch_by_name", 1)
				if !ok || ended {
					c.Viol([]string{"C08", "C11", "C16"}, "stale-handle|by-name-after-recreation|feed-ended", fmt.Sprintf("after handle B fetched the re-created collection %s by name, a live feed on it (started through handle A) %s a write made through handle A", full, ifStr(ended, "had ended and never delivered", "did not deliver within 5 s")), det)
				}
			}
			if werr != nil {
			} else if got, _, aerr := collsA[victim.Collection].GetRaw("via-b"); aerr != nil || string(got) != "written through handle B" {
				c.Viol([]string{"C11", "C01"}, "stale-handle|by-name-after-recreation|write-invisible", fmt.Sprintf("after handle A dropped and re-created %s, a write acknowledged through the DataStore handle B obtained for that name is not readable through handle A: %q (%v)", full, got, aerr), det)
			}
		}
	}
	if follow == "recreate-same" && c.Local%4 == 2 {
		// (in the last quarter of these scenarios handle B does nothing by name before its DropDataStore further down,
		// so that the drop still starts from the object cached for the first incarnation)
		// handle B (which still caches the first incarnation and has not asked again) starts a backfill feed on the
		// collection BY NAME: the collection that exists under that name holds A's three new documents (one a tombstone
		// if it was deleted), and the snapshot must show them
		var mu sync.Mutex
		got := map[string]bool{}
		bdone := make(chan struct{})
		ferr := b.StartDCPFeed(ctx, sgbucket.FeedArguments{ID: "stale-by-name", Backfill: 0, Dump: true, DoneChan: bdone,
			Scopes: map[string][]string{victim.Scope: {victim.Collection}}}, func(e sgbucket.FeedEvent) bool {
			if e.Opcode == sgbucket.FeedOpMutation || e.Opcode == sgbucket.FeedOpDeletion {
				mu.Lock()
				got[string(e.Key)] = true
				mu.Unlock()
			}
			return true
		}, nil)
		c.Count("backfills_by_name_through_a_handle_with_a_stale_cache", 1)
		if ferr == nil {
			select {
			case <-bdone:
			case <-time.After(10 * time.Second):
			}
			mu.Lock()
			n := len(got)
			mu.Unlock()
			if n < len(keys) {
				c.Viol([]string{"C09", "C11"}, "stale-handle|backfill-by-name-after-recreation", fmt.Sprintf("after handle A dropped and re-created %s.%s and wrote %d documents into it, a backfill from CAS 0 started through handle B with Scopes naming that collection delivered %d of them", victim.Scope, victim.Collection, len(keys), n), map[string]any{"disk": disk, "delivered": n})
			}
		}
	}
	// first only look: the dropped collection has no documents any more, whoever asks. Reads and queries through the
	// stale DataStore may fail, but they must not show documents - neither the dropped collection's former ones nor
	// those of the collection created afterwards
	for si, col := range stale {
		func() {
			defer func() { _ = recover() }()
			for _, k := range probeKeys {
				if raw, _, gerr := col.GetRaw(k); gerr == nil {
					c.Viol([]string{"C01", "C11"}, "stale-handle|read-sees-document|"+follow,
						fmt.Sprintf("after handle A dropped %s.%s (%s), GetRaw(%s) through the DataStore handle B holds for the dropped collection returns %q", victim.Scope, victim.Collection, follow, k, raw),
						map[string]any{"disk": disk, "then": follow, "stale_datastore": si})
					break
				}
			}
			c.Count("stale_handle_reads", int64(len(probeKeys)))
			it, qerr := col.Query(sgbucket.SQLiteLanguage, `SELECT json_quote(id) AS id FROM $_keyspace ORDER BY id`, nil, sgbucket.RequestPlus, false)
			c.Count("stale_handle_queries", 1)
			if qerr != nil || it == nil {
				return
			}
			var ids []string
			for {
				var row map[string]any
				if !it.Next(ctx, &row) {
					break
				}
				ids = append(ids, fmt.Sprint(row["id"]))
			}
			_ = it.Close()
			if len(ids) > 0 {
				c.Viol([]string{"C19", "C11"}, "stale-handle|query-sees-documents|"+follow,
					fmt.Sprintf("after handle A dropped %s.%s (%s), a query over $_keyspace through the DataStore handle B holds for the dropped collection returns %d rows %v: the collection has no documents any more", victim.Scope, victim.Collection, follow, len(ids), ids),
					map[string]any{"disk": disk, "then": follow, "stale_datastore": si})
			}
		}()
	}
	calls, failed := 0, 0
	do := func(f func() error) {
		defer func() {
			if p := recover(); p != nil {
				failed++
			}
		}()
		calls++
		if f() != nil {
			failed++
		}
	}
	for _, col := range stale {
		for _, k := range probeKeys {
			body := []byte(fmt.Sprintf(`{"via":"stale","k":%q}`, k))
			do(func() error { return col.Set(k, 0, nil, body) })
			do(func() error { _, e := col.Add(k, 0, body); return e })
			do(func() error { return col.SetRaw(k, 2000000000, nil, []byte("raw")) })
			do(func() error { _, e := col.WriteCas(k, 0, 0, body, 0); return e })
			do(func() error { _, e := col.Touch(k, 2000000001); return e })
			do(func() error { _, e := col.SetXattrs(ctx, k, map[string][]byte{"u1": []byte(`{"s":1}`)}); return e })
			do(func() error {
				_, e := col.WriteWithXattrs(ctx, k, 0, 0, body, map[string][]byte{"_sync": []byte(`{"seq":9}`)}, nil, nil)
				return e
			})
			do(func() error { _, e := col.WriteSubDoc(ctx, k, "p", 0, []byte(`1`)); return e })
			do(func() error { _, e := col.Incr(k+"-ctr", 1, 1, 0); return e })
			do(func() error {
				_, e := col.Update(k, 0, func(cur []byte) ([]byte, *uint32, bool, error) { return body, nil, false, nil })
				return e
			})
			do(func() error {
				return col.SetWithMeta(ctx, k, 0, uint64(1_900_000_000_000_000_000)+uint64(calls), 0, nil, body, sgbucket.FeedDataTypeJSON)
			})
			do(func() error { return col.Delete(k) })
			do(func() error { return col.DeleteWithXattrs(ctx, k, []string{"_sync"}) })
			do(func() error { _, e := col.Remove(k, 0); return e })
		}
	}
	c.Count("stale_handle_scenarios", 1)
	c.Count("stale_handle_calls", int64(calls))
	c.Count("stale_handle_calls_refused", int64(failed))
	c.Cell(fmt.Sprintf("stale-handle|%s|%s|colls=%d|victim-last=%v", ifStr(disk, "disk", "mem"), follow, ncoll, victim == names[ncoll-1]))
	detail := map[string]any{"disk": disk, "dropped": victim.Scope + "." + victim.Collection, "then": follow, "collections": ncoll, "calls": calls, "refused": failed}
	for _, x := range base {
		now := kv.ReadBack(collsA[x.coll], x.key)
		c.Count("isolation_frames", 1)
		if d := x.obs.Diff(&now); d != "" {
			c.Viol([]string{"C11"}, "stale-handle|other-collection-changed|"+follow,
				fmt.Sprintf("after handle A dropped %s.%s (%s), calls made by handle B through the DataStore it still holds for the dropped collection changed %s of key %s in collection %s", victim.Scope, victim.Collection, follow, d, x.key, x.coll), detail)
			break
		}
	}
	close(term)
	for _, d := range dones {
		<-d
	}
	if n := events.Load(); n > 0 {
		c.Viol([]string{"C11"}, "stale-handle|other-collection-feed|"+follow,
			fmt.Sprintf("after handle A dropped %s.%s (%s), calls made by handle B through the DataStore of the dropped collection produced %d event(s) on the feeds of other collections", victim.Scope, victim.Collection, follow, n), detail)
	}
	// the collection was created again under the same name: handle B, which still caches the first incarnation, drops
	// it by name. If the call reports success the collection must be gone for everybody, and creating it once more
	// must yield an empty collection
	if follow == "recreate-same" {
		derr := func() (err error) {
			defer func() {
				if p := recover(); p != nil {
					err = fmt.Errorf("panic: %v", p)
				}
			}()
			return b.DropDataStore(victim)
		}()
		c.Count("drops_through_a_stale_handle", 1)
		if derr == nil {
			if fresh, oerr := rosmar.OpenBucket(url, name, rosmar.ReOpenExisting); oerr == nil {
				full := victim.Scope + "." + victim.Collection
				if list, lerr := fresh.ListDataStores(); lerr == nil {
					for _, n := range list {
						if n.ScopeName()+"."+n.CollectionName() == full {
							c.Viol([]string{"C11"}, "stale-handle|drop-reported-but-listed",
								fmt.Sprintf("DropDataStore(%s) through handle B (which still cached the collection's first incarnation) returned nil, but the collection is still listed", full), detail)
						}
					}
				}
				if again := get(fresh, victim); again != nil {
					for _, k := range keys {
						if raw, _, gerr := again.GetRaw(k); gerr == nil {
							c.Viol([]string{"C11"}, "stale-handle|recreated-not-empty",
								fmt.Sprintf("after DropDataStore(%s) through handle B returned nil, creating the collection again shows key %s = %q: the drop did not remove the collection's documents", full, k, raw), detail)
							break
						}
					}
				}
				fresh.Close(ctx)
			}
		}
	}
	c.Sample(detail)
}

func bytesContain(b []byte, sub string) bool { return strings.Contains(string(b), sub) }
