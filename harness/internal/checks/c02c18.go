package checks

import (
	"fmt"
	"strings"
	"time"

	"verifharness/internal/conc"
	"verifharness/internal/rng"
	"verifharness/internal/sup"
)

// oneWinner: all ordered pairs / triples of conditional entry points racing on one version.
func oneWinnerScenario(c *sup.Ctx, r *rng.R, props []string) {
	disk := c.Local%2 == 1
	b, err := conc.OpenBucket(c.Tmp, disk, 1+r.Intn(3))
	if err != nil {
		c.Incon("cannot open bucket: " + err.Error())
		return
	}
	defer b.Close()
	restore, _ := conc.Noise(r.U64())
	defer restore()
	reps := 12
	for rep := 0; rep < reps; rep++ {
		absent := r.Chance(1, 4)
		pool := conc.RacersLive
		if absent {
			pool = conc.RacersAbsent
		}
		k := 2 + r.Intn(3)
		var racers []conc.Racer
		// scenario index picks the first two racers systematically, the rest at random
		i0, i1 := (c.Local/2+rep)%len(pool), ((c.Local/2)/len(pool)+rep*3)%len(pool)
		racers = append(racers, pool[i0], pool[i1])
		for len(racers) < k {
			racers = append(racers, rng.Pick(r, pool))
		}
		key := fmt.Sprintf("race%d", rep)
		res, msg := conc.OneWinnerRace(b, key, absent, racers, r)
		c.Count("races_run", 1)
		if res.Winners == 1 && len(racers) > 1 {
			c.Count("races_with_a_loser", 1)
		}
		winner := "-"
		for i, e := range res.Errs {
			if e == "" {
				winner = res.Racers[i]
			}
		}
		c.Cell(fmt.Sprintf("race|%s|%s|winner=%s|%s", res.Racers[0], res.Racers[1], winner, ifStr(disk, "disk", "mem")))
		if msg != "" {
			c.Viol(props, fmt.Sprintf("race|%s|%s", ifStr(absent, "absent", "live"), raceKind(msg)), msg, res)
		}
		if rep == 0 {
			c.Sample(map[string]any{"racers": res.Racers, "results": res.Errs, "version_cas": res.PreCas, "disk": disk})
		}
	}
}

func raceKind(msg string) string {
	switch {
	case contains(msg, "succeeded (exactly one must)"):
		return "winners"
	case contains(msg, "losing writer"):
		return "loser-class"
	case contains(msg, "loser's write was applied"):
		return "final-state"
	}
	return "other"
}

func contains(s, sub string) bool {
	return len(sub) <= len(s) && (func() bool {
		for i := 0; i+len(sub) <= len(s); i++ {
			if s[i:i+len(sub)] == sub {
				return true
			}
		}
		return false
	})()
}

// windowScenario enumerates (loop, pre-state, rival) cells with the rival placed inside the read-write window.
func windowScenario(c *sup.Ctx, r *rng.R, props []string) {
	disk := c.Local%2 == 1
	b, err := conc.OpenBucket(c.Tmp, disk, 2)
	if err != nil {
		c.Incon("cannot open bucket: " + err.Error())
		return
	}
	defer b.Close()
	n := 0
	for _, pre := range []string{"live", "absent", "tomb"} {
		rivals := conc.RivalKinds
		if pre == "live" {
			rivals = append(append([]string(nil), rivals...), conc.LiveRivalKinds...)
		}
		for _, rival := range rivals {
			type run struct {
				name string
				f    func(key string) (conc.WindowResult, string)
			}
			runs := []run{
				{"Update", func(k string) (conc.WindowResult, string) { return conc.UpdateWindow(b, k, pre, rival) }},
				{"WriteUpdateWithXattrs", func(k string) (conc.WindowResult, string) { return conc.WriteUpdateWindow(b, k, pre, rival) }},
				{"Update(delete)", func(k string) (conc.WindowResult, string) { return conc.UpdateDeleteWindow(b, k, pre, rival) }},
				{"WriteSubDoc@0", func(k string) (conc.WindowResult, string) { return conc.SubdocWindow(b, k, pre, rival, false, false) }},
				{"SubdocInsert@0", func(k string) (conc.WindowResult, string) { return conc.SubdocWindow(b, k, pre, rival, false, true) }},
			}
			if pre != "absent" {
				runs = append(runs,
					run{"WriteSubDoc@cas", func(k string) (conc.WindowResult, string) { return conc.SubdocWindow(b, k, pre, rival, true, false) }},
					run{"SubdocInsert@cas", func(k string) (conc.WindowResult, string) { return conc.SubdocWindow(b, k, pre, rival, true, true) }})
			}
			if pre == "live" {
				runs = append(runs, run{"WriteUpdateWithXattrs(tombstone)", func(k string) (conc.WindowResult, string) { return conc.WriteUpdateTombstoneWindow(b, k, rival) }})
			}
			if pre == "live" && rival == "Set" {
				// what an attempt that lost its CAS check asked for (expiry, macro specs) must not leak into the one that wins
				leak := []string{"C03", "C07", "C14"}
				runs = append(runs,
					run{"Update/first-attempt-expiry", func(k string) (conc.WindowResult, string) {
						return conc.UpdateExpiryWindow(b, k, "first-attempt-expiry")
					}},
					run{"Update/expiry-only", func(k string) (conc.WindowResult, string) { return conc.UpdateExpiryWindow(b, k, "expiry-only") }},
					run{"WriteUpdateWithXattrs/leak", func(k string) (conc.WindowResult, string) { return conc.WriteUpdateLeakWindow(b, k, 0) }},
					run{"WriteUpdateWithXattrs/leak+exp", func(k string) (conc.WindowResult, string) { return conc.WriteUpdateLeakWindow(b, k, 2000000999) }})
				_ = leak
			}
			for _, ru := range runs {
				n++
				key := fmt.Sprintf("w%d", n)
				res, msg := ru.f(key)
				c.Count("windows_forced", 1)
				if res.Calls >= 2 || (res.Calls == 1 && (ru.name[0] == 'W' && ru.name != "WriteUpdateWithXattrs" || ru.name[0] == 'S')) {
					c.Count("retries_forced_through_windows", 1)
				}
				c.Cell(fmt.Sprintf("window|%s|%s|%s|%s", ru.name, pre, rival, ifStr(disk, "disk", "mem")))
				if msg != "" {
					ps := props
					if strings.Contains(ru.name, "/") {
						ps = []string{"C01", "C03", "C07", "C14"}
					}
					c.Viol(ps, fmt.Sprintf("window|%s|%s|%s", ru.name, pre, rival), msg, res)
				}
				if n == 1 {
					c.Sample(res)
				}
			}
		}
	}
}

func subdocOwnersScenario(c *sup.Ctx, r *rng.R, props []string) {
	disk := c.Local%2 == 1
	b, err := conc.OpenBucket(c.Tmp, disk, 1+r.Intn(3))
	if err != nil {
		c.Incon("cannot open bucket: " + err.Error())
		return
	}
	defer b.Close()
	restore, hits := conc.Noise(r.U64())
	clients := 3 + r.Intn(6)
	info, msg := conc.SubdocOwners(b, "owned", clients, 8+r.Intn(10), r)
	restore()
	c.Count("owner_histories", 1)
	if v, ok := hits.Load("subdoc.rw"); ok {
		c.Count("hook:subdoc.rw", v.(interface{ Load() int64 }).Load())
	}
	c.Cell(fmt.Sprintf("owners|clients=%d|%s|%x", clients, ifStr(disk, "disk", "mem"), r.U64()%64))
	if msg != "" {
		c.Viol(props, "owners|"+ownersKind(msg), msg, info)
	}
	c.Sample(info)
}

func ownersKind(msg string) string {
	switch {
	case contains(msg, "should hold its owner's last"):
		return "lost-or-overwritten"
	case contains(msg, "is back"):
		return "removed-property-back"
	case contains(msg, "inserted property"):
		return "insert-lost"
	case contains(msg, "token"):
		return "list-token"
	case contains(msg, "client"):
		return "client-error"
	}
	return "other"
}

func init() {
	mk := func(prop, name string, q, t int, race bool, props []string, f func(*sup.Ctx, *rng.R, []string)) sup.Part {
		return sup.Part{Name: name, Race: race, Timeout: 60 * time.Second, Count: func(tier string) int { return tierN(tier, q, t) },
			Run: func(c *sup.Ctx) {
				f(c, rng.New(c.Seed, rng.HashString(prop), rng.HashString(name), uint64(c.Local)), props)
			}}
	}
	c02 := []string{"C02"}
	parts02 := append(c02SeqParts(),
		mk("C02", "one-winner-races", 600, 12000, false, c02, oneWinnerScenario),
		mk("C02", "forced-windows", 4, 40, false, []string{"C02", "C03", "C18"}, windowScenario),
		mk("C02", "one-winner-races-race", 60, 1200, true, c02, oneWinnerScenario),
	)
	sup.Register(&sup.Check{
		Prop: "C02", Level: "exploration",
		Rule:        "(sequential) engine A over the ten conditional entry points x every pre-state class x CAS class {0, current, stale, never-issued} with accept-iff-current judged against the model and the frame rule on every rejection; (concurrent) 2-4 conditional writers that all hold the same version are released together through 1-3 handles (all ordered pairs of entry points covered): exactly one must succeed, the losers must fail with a CAS-mismatch class and the final CAS must be the winner's; (forced windows) a rival write is committed deterministically inside the read-write window of Update / WriteUpdateWithXattrs (from the callback) and WriteSubDoc / SubdocInsert (at the subdoc.rw hook): the loop must re-read or, with an explicit CAS, fail, and both effects must survive; live-only rivals (DeleteSubDocPaths, Set+PreserveExpiry) are placed in every window that opened on a live document; cell = (variant, pre-state, outcome, bucket type) / (racing pair, winner) / (loop, pre-state, rival)",
		Assumptions: kvAssume,
		Parts:       parts02,
		RaceOwner:   func(string) bool { return false },
		Floor: func(tier string, m *sup.Merged) string {
			if m.Counts["races_with_a_loser"] < 50 {
				return "fewer than 50 races with a loser"
			}
			if m.Counts["windows_forced"] < 100 {
				return "fewer than 100 forced windows"
			}
			return ""
		},
	})
	c18 := []string{"C18"}
	parts18 := append(c18SeqParts(),
		mk("C18", "property-owners", 800, 16000, false, c18, subdocOwnersScenario),
		mk("C18", "forced-windows", 4, 40, false, []string{"C02", "C03", "C18"}, windowScenario),
		mk("C18", "property-owners-race", 80, 1600, true, c18, subdocOwnersScenario),
	)
	sup.Register(&sup.Check{
		Prop: "C18", Level: "exploration",
		Rule:        "(sequential) engine A: WriteSubDoc / SubdocInsert / GetSubDocRaw over JSON documents of depth <= 3 with dotted paths that are present, absent, or run through scalars and arrays, empty value = remove, every CAS class; the post-write document must equal the pre-document with exactly the addressed property set/removed (JSON equality with numbers compared as exact rationals: integers beyond 2^53 and long decimals must survive in every property; removals with nil and with empty non-nil values; paths through a null-valued property; documents that end in insignificant whitespace); (concurrent) 3-8 clients each own one property of one document and set / remove it or insert fresh properties while others append to a list through Update and write xattrs: at the end every property reflects its owner's last acknowledged operation, every inserted property and list token is present once and untouched properties are preserved; (forced windows) a rival write is placed at the subdoc.rw hook between the read and the write; live-only rivals (DeleteSubDocPaths, Set+PreserveExpiry) are placed in every window that opened on a live document; string properties with control characters, DEL and non-BMP characters; the empty string as a property name, addressed by paths with empty components; cell = (variant, pre-state, outcome, bucket type) / (loop, pre-state, rival)",
		Assumptions: kvAssume,
		Parts:       parts18,
		RaceOwner:   func(string) bool { return false },
		Floor: func(tier string, m *sup.Merged) string {
			if m.Counts["owner_histories"] < 100 {
				return "fewer than 100 concurrent property-owner histories"
			}
			return ""
		},
	})
}
