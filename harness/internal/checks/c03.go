package checks

import (
	"fmt"
	"strconv"
	"time"

	"verifharness/internal/conc"
	"verifharness/internal/rng"
	"verifharness/internal/sup"
)

var linzWeights = map[string]int{
	conc.OGet: 6, conc.OGetX: 4, conc.OExists: 1, conc.OSet: 3, conc.OAdd: 2, conc.OWriteCas: 6, conc.ORemove: 2,
	conc.ODelete: 2, conc.OUpdate: 5, conc.OWriteUpd: 4, conc.OSetX: 2, conc.OSubDoc: 3, conc.OTouch: 2, conc.OUpdDel: 2, conc.OGetTouch: 2, conc.OGetExp: 3,
}

// linzScenario runs one concurrent history and decides it with porcupine.
func linzScenario(c *sup.Ctx, r *rng.R, props []string) {
	disk := c.Local%2 == 1
	handles := 1 + r.Intn(3)
	clients := 3 + r.Intn(6)
	keys := []string{"d0", "d1", "d2"}[:1+r.Intn(3)]
	w := conc.Workload{Clients: clients, OpsEach: 10 + r.Intn(10), DocKeys: keys, CtrKeys: []string{"ctr"}, Weights: linzWeights, Twins: len(keys) >= 2 && c.Local%3 == 2}
	if w.Twins {
		c.Count("histories_starting_with_two_documents_sharing_a_cas", 1)
	}
	b, err := conc.OpenBucket(c.Tmp, disk, handles)
	if err != nil {
		c.Incon("cannot open bucket: " + err.Error())
		return
	}
	defer b.Close()
	restore, hits := conc.Noise(r.U64())
	h := conc.Run(b, w, r)
	restore()
	st := conc.Analyze(h)
	c.Count("histories", 1)
	c.Count("ops", int64(st.Ops))
	c.Count("cas_retries_observed", int64(st.Retries))
	c.Count("cas_mismatch_outcomes", int64(st.Mismatches))
	c.Max("max_overlap", int64(st.MaxOverlap))
	if st.MaxOverlap >= 3 {
		c.Count("histories_overlap_ge3", 1)
	}
	hits.Range(func(k, v any) bool {
		c.Count("hook:"+k.(string), v.(interface{ Load() int64 }).Load())
		return true
	})
	c.Cell("interleaving:" + st.Finger)
	// unexpected error classes: a sequential execution never returns a database error
	for _, rec := range h {
		switch rec.Out.Err {
		case "", "missing", "casmismatch", "keyexists":
		default:
			c.Viol(props, fmt.Sprintf("linz|%s|unexpected-error|%s", rec.In.Kind, rec.Out.Err),
				fmt.Sprintf("%s on %s returned %s (%s) under concurrency; no one-at-a-time execution returns that", rec.In.Kind, rec.In.Key, rec.Out.Err, rec.Out.ErrMsg), rec)
		}
	}
	verdict, key, wit := conc.Check(h, 60*time.Second)
	c.Count("porcupine_"+verdict, 1)
	switch verdict {
	case "unknown":
		c.Incon("porcupine timed out")
	case "illegal":
		kinds := map[string]bool{}
		for _, rec := range wit {
			kinds[rec.In.Kind] = true
		}
		c.Viol(props, "linz|illegal|"+keyClass(key), fmt.Sprintf("history on key %s (%d ops, %d clients, %d handles, %s) has no linearization", key, len(wit), clients, handles, ifStr(disk, "disk", "mem")),
			map[string]any{"key": key, "history": wit, "clients": clients, "handles": handles, "disk": disk})
	}
	c.Sample(map[string]any{"clients": clients, "handles": handles, "disk": disk, "keys": keys, "ops": st.Ops, "max_overlap": st.MaxOverlap, "first_ops": firstRecs(h, 8), "verdict": verdict})
}

func keyClass(k string) string {
	if k == "ctr" {
		return "counter"
	}
	return "doc"
}

func ifStr(c bool, a, b string) string {
	if c {
		return a
	}
	return b
}

func firstRecs(h []conc.Rec, n int) []conc.Rec {
	if len(h) > n {
		return h[:n]
	}
	return h
}

// conservationScenario: one counter key hammered by Incr only, one list key by Update only (C03 "never loses").
func conservationScenario(c *sup.Ctx, r *rng.R, props []string) {
	disk := c.Local%2 == 1
	handles := 1 + r.Intn(3)
	clients := 4 + r.Intn(9)
	b, err := conc.OpenBucket(c.Tmp, disk, handles)
	if err != nil {
		c.Incon("cannot open bucket: " + err.Error())
		return
	}
	defer b.Close()
	restore, _ := conc.Noise(r.U64())
	defer restore()
	w := conc.Workload{Clients: clients, OpsEach: 15 + r.Intn(15), DocKeys: []string{"list"}, CtrKeys: []string{"ctr"},
		Weights: map[string]int{conc.OUpdate: 6, conc.OWriteUpd: 3, conc.OGet: 1}}
	h := conc.Run(b, w, r)
	st := conc.Analyze(h)
	c.Count("conservation_histories", 1)
	c.Count("ops", int64(st.Ops))
	c.Count("cas_retries_observed", int64(st.Retries))
	c.Max("max_overlap", int64(st.MaxOverlap))
	c.Cell("conservation:" + st.Finger)
	// counter: final = 1000 + sum(amounts of successful Incr) - amount of the creating Incr
	var sum, creatorAmt uint64
	creators := 0
	seen := map[uint64]bool{}
	var toks, xtoks []string
	for _, rec := range h {
		if rec.Out.Err != "" && rec.Out.Err != "missing" {
			c.Viol(props, "conservation|unexpected-error|"+rec.In.Kind+"|"+rec.Out.Err, fmt.Sprintf("%s failed with %s (%s)", rec.In.Kind, rec.Out.Err, rec.Out.ErrMsg), rec)
			continue
		}
		switch rec.In.Kind {
		case conc.OIncr:
			sum += rec.In.Amt
			if rec.Out.Num == 1000 {
				creators++
				creatorAmt = rec.In.Amt
			}
			if seen[rec.Out.Num] {
				c.Viol(props, "conservation|incr|duplicate-result", fmt.Sprintf("two Incr calls returned %d: an increment was lost", rec.Out.Num), map[string]any{"history": h})
			}
			seen[rec.Out.Num] = true
		case conc.OUpdate:
			toks = append(toks, rec.In.Token)
		case conc.OWriteUpd:
			xtoks = append(xtoks, rec.In.Token)
		}
	}
	final := conc.Call(b.Colls[0], conc.In{Kind: conc.OGet, Key: "ctr"})
	if len(seen) > 0 {
		got, _ := strconv.ParseUint(final.Body, 10, 64)
		if creators != 1 || got != 1000+sum-creatorAmt {
			c.Viol(props, "conservation|incr|sum", fmt.Sprintf("counter is %q after %d Incr calls adding %d in total (creator added %d, %d creators): want %d", final.Body, len(seen), sum, creatorAmt, creators, 1000+sum-creatorAmt), map[string]any{"history": h})
		}
	}
	fin := conc.Call(b.Colls[0], conc.In{Kind: conc.OGetX, Key: "list"})
	if len(toks)+len(xtoks) > 0 {
		if miss := missingTokens(fin.Body, "l", toks); len(miss) > 0 {
			c.Viol(props, "conservation|update|lost", fmt.Sprintf("Update lost %d of %d acknowledged updates, e.g. %v", len(miss), len(toks), miss[:1]), map[string]any{"final": fin, "history": h})
		}
		if miss := missingInList(fin.X["_x"], xtoks); len(miss) > 0 {
			c.Viol(props, "conservation|writeupdate|lost", fmt.Sprintf("WriteUpdateWithXattrs lost %d of %d acknowledged updates, e.g. %v", len(miss), len(xtoks), miss[:1]), map[string]any{"final": fin, "history": h})
		}
	}
	c.Sample(map[string]any{"clients": clients, "handles": handles, "disk": disk, "incr_calls": len(seen), "updates": len(toks), "xattr_updates": len(xtoks), "final_counter": final.Body})
}

func init() {
	props := []string{"C03"}
	mk := func(name string, q, t int, race bool, f func(*sup.Ctx, *rng.R, []string)) sup.Part {
		return sup.Part{Name: name, Race: race, Timeout: 45 * time.Second, Count: func(tier string) int { return tierN(tier, q, t) },
			Run: func(c *sup.Ctx) {
				f(c, rng.New(c.Seed, rng.HashString(c.Prop), rng.HashString(name), uint64(c.Local)), props)
			}}
	}
	sup.Register(&sup.Check{
		Prop: "C03", Level: "exploration",
		Rule:        "concurrent client histories (3-8 goroutines over 1-3 handles of one bucket, 1-3 document keys + a counter key, in-memory and on-disk) recorded at the client boundary with call/return ticks from one atomic counter and unique tokens in every written value; decided per key by porcupine v1.3.0 against a sequential model of body, xattrs, CAS and expiry (Update / WriteUpdateWithXattrs steps require that the stored value was built on exactly the version the callback was shown last; Touch / GetAndTouchRaw carry unique expiries and GetExpiry must return the one the current version received); conservation monitors for Incr sums and Update / WriteUpdateWithXattrs token lists; PRNG-determined yields/sleeps at the out-of-mutex hook points; every workload repeated under the Go race detector (reports count only when both stacks have rosmar frames; signatures owned by other properties are listed as foreign); a cell is a distinct interleaving fingerprint (per-key (client, op kind) sequence in return order); (forced windows, leak) nothing an attempt that lost its CAS check asked for (expiry, macro specs) may be applied by the attempt that wins; a third of the histories start with two documents sharing one CAS; forced window: a tombstoning WriteUpdateWithXattrs must retry when a rival deletes the document first",
		Assumptions: []string{"schedules are sampled (plus hook-point noise), not enumerated; a porcupine timeout is inconclusive", "revision numbers are not part of the concurrent model (C17 has its own concurrent counter); the expiry after a sub-document write is not pinned"},
		Parts: []sup.Part{
			mk("linz", 2000, 40000, false, linzScenario),
			mk("conservation", 600, 12000, false, conservationScenario),
			mk("forced-windows", 4, 40, false, windowScenario),
			mk("linz-race", 150, 3000, true, linzScenario),
			mk("conservation-race", 60, 1200, true, conservationScenario),
		},
		RaceOwner: raceOwner("C03"),
		Floor: func(tier string, m *sup.Merged) string {
			if m.Counts["histories_overlap_ge3"] < 100 {
				return "fewer than 100 histories with overlap >= 3"
			}
			if m.Counts["cas_retries_observed"] < 20 {
				return "fewer than 20 observed CAS retries (the read-modify-write windows were not hit)"
			}
			return ""
		},
	})
}

func missingTokens(body, field string, toks []string) []string {
	var doc map[string]any
	_ = jsonUnmarshal(body, &doc)
	l, _ := doc[field].([]any)
	have := map[string]int{}
	for _, v := range l {
		if s, ok := v.(string); ok {
			have[s]++
		}
	}
	var miss []string
	for _, t := range toks {
		if have[t] != 1 {
			miss = append(miss, t)
		}
	}
	return miss
}

func missingInList(list string, toks []string) []string {
	var l []any
	_ = jsonUnmarshal(list, &l)
	have := map[string]int{}
	for _, v := range l {
		if s, ok := v.(string); ok {
			have[s]++
		}
	}
	var miss []string
	for _, t := range toks {
		if have[t] != 1 {
			miss = append(miss, t)
		}
	}
	return miss
}
