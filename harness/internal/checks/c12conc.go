package checks

import (
	"context"
	"fmt"
	"sort"
	"strings"
	"sync"
	"sync/atomic"

	"verifharness/internal/conc"
	"verifharness/internal/rng"
	"verifharness/internal/sup"

	sgbucket "github.com/couchbase/sg-bucket"
)

// viewsConcurrentScenario: writers, view queries (non-stale, stale=ok, updateAfter) and design-document
// replacements (the queried design document itself: same map function for "v", another view coming and going;
// and an unrelated one that is put and deleted) run concurrently through 1-2 handles. At quiescence a non-stale
// query through every handle must return exactly the rows of the final documents, in order: the result must not
// depend on when, how often and by whom the index was brought up to date. A fatal error in the process (the Go
// runtime detects concurrent map access) kills the worker and is reported by the supervisor.
func viewsConcurrentScenario(c *sup.Ctx, r *rng.R) {
	disk := c.Local%2 == 1
	b, err := conc.OpenBucket(c.Tmp, disk, 1+r.Intn(2))
	if err != nil {
		c.Incon("cannot open bucket: " + err.Error())
		return
	}
	defer b.Close()
	ctx := context.Background()
	mapN := `function(doc, meta) { if (doc.n !== undefined) { emit(doc.n, null); } }`
	mapT := `function(doc, meta) { if (doc.t !== undefined) { emit(doc.t, null); } }`
	ddA := &sgbucket.DesignDoc{Language: "javascript", Views: sgbucket.ViewMap{"v": sgbucket.ViewDef{Map: mapN}}}
	ddB := &sgbucket.DesignDoc{Language: "javascript", Views: sgbucket.ViewMap{"v": sgbucket.ViewDef{Map: mapN}, "w": sgbucket.ViewDef{Map: mapT}}}
	if err := b.Colls[0].PutDDoc(ctx, "dd", ddA); err != nil {
		c.Viol([]string{"C12"}, "views-concurrent|putddoc", "PutDDoc failed: "+err.Error(), nil)
		return
	}
	var counter atomic.Int64
	var mu sync.Mutex
	final := map[string]int64{} // key -> n of the live document (absent = deleted)
	var wg sync.WaitGroup
	stop := make(chan struct{})
	writers := 2 + r.Intn(6)
	opsEach := 25 + r.Intn(25)
	var viewErrs, viewCalls, ddocCalls atomic.Int64
	for w := 0; w < writers; w++ {
		wg.Add(1)
		wr := rng.New(r.U64(), uint64(w))
		go func(w int) {
			defer wg.Done()
			col := b.Colls[w%len(b.Colls)]
			for i := 0; i < opsEach; i++ {
				key := fmt.Sprintf("w%d_%d", w, wr.Intn(5)) // every writer owns its keys: the last acknowledged write is the final one
				if w%2 == 1 {
					key = fmt.Sprintf("w%d_once%d", w, i) // every other writer creates documents that are never written again
				} else if wr.Intn(5) == 0 {
					if err := col.Delete(key); err == nil {
						mu.Lock()
						delete(final, key)
						mu.Unlock()
					}
					continue
				}
				n := counter.Add(1)
				if err := col.Set(key, 0, nil, []byte(fmt.Sprintf(`{"n":%d,"t":"x%d"}`, n, n%3))); err == nil {
					mu.Lock()
					final[key] = n
					mu.Unlock()
				}
			}
		}(w)
	}
	var bg sync.WaitGroup
	for v := 0; v < 2; v++ {
		bg.Add(1)
		go func(v int) {
			defer bg.Done()
			for i := 0; ; i++ {
				select {
				case <-stop:
					return
				default:
				}
				p := map[string]interface{}{}
				switch (i + v) % 3 {
				case 1:
					p["stale"] = "ok"
				case 2:
					p["stale"] = "updateAfter"
				}
				_, err := b.Colls[(i+v)%len(b.Colls)].View(ctx, "dd", "v", p)
				viewCalls.Add(1)
				if err != nil {
					viewErrs.Add(1)
				}
			}
		}(v)
	}
	bg.Add(1)
	go func() {
		defer bg.Done()
		for i := 0; ; i++ {
			select {
			case <-stop:
				return
			default:
			}
			col := b.Colls[i%len(b.Colls)]
			switch i % 4 {
			case 0:
				_ = col.PutDDoc(ctx, "dd", ddB)
			case 1:
				_ = col.PutDDoc(ctx, "other", ddA)
			case 2:
				_ = col.PutDDoc(ctx, "dd", ddA)
			default:
				_ = col.DeleteDDoc("other")
			}
			ddocCalls.Add(1)
		}
	}()
	wg.Wait()
	close(stop)
	bg.Wait()
	c.Count("concurrent_view_histories", 1)
	c.Count("concurrent_view_queries", viewCalls.Load())
	c.Count("concurrent_view_query_errors", viewErrs.Load())
	c.Count("concurrent_design_doc_calls", ddocCalls.Load())
	// expected rows: by n (unique), i.e. in write order
	type kn struct {
		k string
		n int64
	}
	var want []kn
	for k, n := range final {
		want = append(want, kn{k, n})
	}
	sort.Slice(want, func(i, j int) bool { return want[i].n < want[j].n })
	wantIDs := make([]string, len(want))
	for i, x := range want {
		wantIDs[i] = fmt.Sprintf("%s=%d", x.k, x.n)
	}
	for hi, col := range b.Colls {
		res, err := col.View(ctx, "dd", "v", map[string]interface{}{})
		if err != nil {
			c.Viol([]string{"C12"}, "views-concurrent|final-query-error", fmt.Sprintf("at quiescence a non-stale view query through handle %d failed: %v", hi, err), nil)
			continue
		}
		got := make([]string, len(res.Rows))
		for i, row := range res.Rows {
			got[i] = fmt.Sprintf("%s=%v", row.ID, row.Key)
		}
		c.Count("view_queries_judged", 1)
		if strings.Join(got, ",") != strings.Join(wantIDs, ",") {
			c.Viol([]string{"C12"}, "views-concurrent|final-rows", fmt.Sprintf("after concurrent writers, view queries and design-document replacements, a non-stale query through handle %d returns %d rows, the final documents give %d", hi, len(got), len(wantIDs)),
				map[string]any{"got": got, "want": wantIDs, "disk": disk, "handles": len(b.Colls)})
		}
	}
	c.Cell(fmt.Sprintf("views-concurrent|%s|handles=%d|writers=%d", ifStr(disk, "disk", "mem"), len(b.Colls), writers))
	c.Sample(map[string]any{"disk": disk, "handles": len(b.Colls), "writers": writers, "final_documents": len(final), "view_queries": viewCalls.Load(), "design_doc_calls": ddocCalls.Load()})
}
