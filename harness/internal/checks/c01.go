package checks

import (
	"time"
	"verifharness/internal/kv"
	"verifharness/internal/rng"
	"verifharness/internal/sup"
)

func init() {
	hostile := []string{"k0", "k1", "", " ", "ключ-ユニコード", `q"uo'te\`, "%25%00pct", "a/b?c#d", string(make([]byte, 300))}
	base := kvOpts{
		Cfg:       defaultCfg(2, 1, 1, 0, false),
		Variants:  kv.Variants,
		Setups:    kv.Setups,
		FollowUps: kv.FollowUps,
	}
	rnd := base
	rnd.Profile = kv.Uniform(3).With(kv.KPurge, 1)
	rnd.Steps = 60
	rnd.SweepEvery = 20
	rnd.Cfg = func(r *rng.R, local int) kv.Config {
		return kv.Config{Disk: local%2 == 1, Buckets: 1, Handles: 1 + local%4/2, Colls: 2 + (local/4)%3} // up to: default, s1.c1, s2.c1, s1.c2
	}
	big := rnd
	big.BigBodies = 6
	big.Steps = 40
	hk := rnd
	hk.Keys = hostile
	hk.Steps = 40
	small := rnd
	small.Steps = 40
	small.Cfg = func(r *rng.R, local int) kv.Config {
		return kv.Config{Disk: local%2 == 1, Buckets: 1, Handles: 1, Colls: 1, MaxDoc: 120}
	}
	sup.Register(&sup.Check{
		Prop:  "C01",
		Level: "exploration",
		Rule: "differential simulation against an executable sequential specification with a full read-back (GetRaw, Exists, GetExpiry, GetWithXattrs, GetXattrs, virtual xattrs) before and after every operation; " +
			"cases = bounded-exhaustive (pre-state setup x op variant x follow-up) sequences plus PRNG-drawn long histories; plus reads through the DataStore a second handle still holds for a collection that was dropped (they must report every key missing, whatever was created since); a cell is distinct if (op variant, pre-state class, outcome class, bucket type) is new; Incr with amount 0 and SetRaw with PreserveExpiry are in the catalogue; (stale DataStore) CreateDataStore for collections that exist must leave their documents alone; counters around 2^63; (refused inside the transaction) a call whose INSERT / UPDATE is refused by an unevaluable expression index must leave the key's complete read-back as it was; (forced windows) what an Update / WriteUpdateWithXattrs attempt that lost its CAS check asked for must not be stored by the winning attempt",
		Assumptions: []string{"bodies up to a few hundred bytes, plus a profile with 64 KiB - 1 MiB bodies and a MaxDocSize boundary profile", "keys from a small pool plus hostile keys", "expiries far in the future (timer never fires)", "error messages, log output not compared"},
		Parts: []sup.Part{
			exhaustivePart("exhaustive", base),
			randomPart("random", 800, 12000, rnd),
			randomPart("hostile-keys", 60, 900, hk),
			randomPart("big-bodies", 40, 400, big),
			randomPart("maxdocsize", 60, 900, small),
			{Name: "stale-handle-after-drop", Timeout: 60 * time.Second, Count: func(t string) int { return tierN(t, 60, 1200) }, Run: staleHandleScenario},
			{Name: "forced-windows", Timeout: 60 * time.Second, Count: func(t string) int { return tierN(t, 2, 20) }, Run: func(c *sup.Ctx) {
				windowScenario(c, rng.New(c.Seed, rng.HashString("C01win"), uint64(c.Local)), []string{"C02", "C03", "C18"})
			}},
			{Name: "refused-inside-the-transaction", Timeout: 90 * time.Second, Count: func(t string) int { return tierN(t, 30, 600) }, Run: refusedWriteScenario},
		},
		Floor: func(tier string, m *sup.Merged) string {
			if len(m.Cells) < 300 {
				return "fewer than 300 distinct (variant, pre-state, outcome) cells"
			}
			return ""
		},
	})
}
