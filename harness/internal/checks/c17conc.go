package checks

import (
	"fmt"

	"verifharness/internal/conc"
	"verifharness/internal/rng"
	"verifharness/internal/sup"
)

func revCountScenario(c *sup.Ctx) {
	r := rng.New(c.Seed, rng.HashString("C17conc"), uint64(c.Local))
	disk := c.Local%2 == 1
	handles := 1 + (c.Local/2)%3
	m, err := conc.OpenMulti(c.Tmp, disk, handles, 1)
	if err != nil {
		c.Incon("cannot open bucket: " + err.Error())
		return
	}
	defer m.Close()
	clients := 2 + r.Intn(5)
	each := 30 + r.Intn(40)
	if c.Tier == "thorough" {
		each *= 2
	}
	res, msg, detail := conc.RevCountRun(m, clients, each, r)
	c.Count("concurrent_revision_runs", 1)
	c.Count("concurrent_mutations_acknowledged", res.Acked)
	c.Count("concurrent_touches_acknowledged", res.TouchAcks)
	c.Count("concurrent_calls_refused", res.Refused)
	c.Count("revno_events_checked", int64(res.Events))
	c.Cell(fmt.Sprintf("revcount|%s|handles=%d|clients=%d", ifStr(disk, "disk", "mem"), handles, clients))
	if msg != "" {
		kind, text := splitKind(msg)
		if kind == "setup" {
			c.Incon(text)
		} else {
			c.Viol([]string{"C17"}, "revcount|"+kind, text, detail)
		}
	}
	c.Sample(map[string]any{"disk": disk, "handles": handles, "result": res})
}

// refusedWriteScenario: writes refused inside their transaction by an expression index (conc.RefusedWriteRun).
func refusedWriteScenario(c *sup.Ctx) {
	stream := "C17refused"
	if c.Prop != "C17" {
		stream = c.Prop + "refused"
	}
	r := rng.New(c.Seed, rng.HashString(stream), uint64(c.Local))
	disk := c.Local%2 == 1
	variant := (c.Local / 2) % 3
	coll := (c.Local / 6) % 2
	m, err := conc.OpenMulti(c.Tmp, disk, 1, 2)
	if err != nil {
		c.Incon("cannot open bucket: " + err.Error())
		return
	}
	defer m.Close()
	steps := 40 + r.Intn(40)
	res, msg, detail := conc.RefusedWriteRun(m, coll, variant, steps, r)
	c.Count("refused_write_runs", 1)
	c.Count("refused_write_calls", int64(res.Calls))
	c.Count("refused_write_calls_acknowledged", int64(res.Acked))
	c.Count("refused_write_calls_refused", int64(res.Refused))
	c.Count("writes_refused_inside_their_transaction", int64(res.InTxn))
	c.Count("refused_write_events_checked", int64(res.EventsSeen))
	for k, n := range res.RefusedBy {
		c.Cell(fmt.Sprintf("refused-write|%s|%s|%s|refused", ifStr(disk, "disk", "mem"), res.Index, k))
		_ = n
	}
	for k := range res.AckedBy {
		c.Cell(fmt.Sprintf("refused-write|%s|%s|%s|ok", ifStr(disk, "disk", "mem"), res.Index, k))
	}
	if msg != "" {
		kind, text := splitKind(msg)
		if kind == "setup" {
			c.Incon(text)
		} else {
			props := []string{"C17"}
			switch kind {
			case "refused-frame":
				props = []string{"C01", "C07"}
			case "refused-event", "event-count":
				props = []string{"C17", "C08"}
			}
			c.Viol(props, "refused-write|"+kind, text, detail)
		}
	}
	c.Sample(map[string]any{"disk": disk, "collection": coll, "result": res})
}
