package checks

import (
	"fmt"

	"verifharness/internal/conc"
	"verifharness/internal/rng"
	"verifharness/internal/sup"
)

func revCountScenario(c *sup.Ctx) {
	r := rng.New(c.Seed, rng.HashString("C17conc"), uint64(c.Local))
	disk := c.Local%2 == 1
	handles := 1 + (c.Local/2)%3
	m, err := conc.OpenMulti(c.Tmp, disk, handles, 1)
	if err != nil {
		c.Incon("cannot open bucket: " + err.Error())
		return
	}
	defer m.Close()
	clients := 2 + r.Intn(5)
	each := 30 + r.Intn(40)
	if c.Tier == "thorough" {
		each *= 2
	}
	res, msg, detail := conc.RevCountRun(m, clients, each, r)
	c.Count("concurrent_revision_runs", 1)
	c.Count("concurrent_mutations_acknowledged", res.Acked)
	c.Count("concurrent_touches_acknowledged", res.TouchAcks)
	c.Count("concurrent_calls_refused", res.Refused)
	c.Count("revno_events_checked", int64(res.Events))
	c.Cell(fmt.Sprintf("revcount|%s|handles=%d|clients=%d", ifStr(disk, "disk", "mem"), handles, clients))
	if msg != "" {
		kind, text := splitKind(msg)
		if kind == "setup" {
			c.Incon(text)
		} else {
			c.Viol([]string{"C17"}, "revcount|"+kind, text, detail)
		}
	}
	c.Sample(map[string]any{"disk": disk, "handles": handles, "result": res})
}
