package checks

import (
	"context"
	"fmt"
	"strings"
	"sync"
	"time"

	sgbucket "github.com/couchbase/sg-bucket"

	"verifharness/internal/kv"
	"verifharness/internal/rng"
	"verifharness/internal/sup"
)

// nonInterferencePart: two buckets receive the same history on collection A; the second one additionally receives
// writes, deletions, WithMeta writes, purges and drops on collections B and C (same key names). Whatever is asked
// of collection A afterwards - non-stale views, SQL queries - must give the same answer in both: the operations
// addressed to B and C are the only difference, and C11 says they change nothing A returns. Model-free.
func nonInterferencePart(name string, quick, thorough int) sup.Part {
	prof := kv.Uniform(3).With(kv.KPurge, 0, kv.KSet, 8, kv.KAdd, 5, kv.KDelete, 5, kv.KSetX, 5, kv.KWriteWX, 5, kv.KSetMeta, 6, kv.KDelMeta, 3, kv.KDropColl, 1)
	viewParams := []map[string]any{
		{"reduce": false},
		{"reduce": false, "descending": true},
		{"reduce": false, "limit": 2},
		{},
		{"group": true},
	}
	stmts := []string{
		`SELECT json_quote(id) AS id, json_quote(hex(body)) AS b, xattrs AS x FROM $_keyspace ORDER BY id`,
		`SELECT json_quote(id) AS id FROM $_keyspace WHERE xattrs IS NULL ORDER BY id`,
		`SELECT json_quote(id) AS id FROM $_keyspace WHERE id IN (SELECT id FROM $_keyspace) ORDER BY id DESC LIMIT 3`,
	}
	return sup.Part{Name: name, Count: func(t string) int { return tierN(t, quick, thorough) }, Run: func(c *sup.Ctx) {
		r := rng.New(c.Seed, rng.HashString(c.Prop), rng.HashString(name), uint64(c.Local))
		cfg := kv.Config{Disk: c.Local%2 == 1, Buckets: 1, Handles: 1 + (c.Local/2)%2, Colls: 3}
		alone, err := kv.NewSim(c, rng.New(r.U64(), 1), cfg, kv.SimOptions{})
		if err != nil {
			c.Incon("cannot set up scenario: " + err.Error())
			return
		}
		defer alone.Close()
		busy, err := kv.NewSim(c, rng.New(r.U64(), 2), cfg, kv.SimOptions{})
		if err != nil {
			c.Incon("cannot set up scenario: " + err.Error())
			return
		}
		defer busy.Close()
		for _, s := range []*kv.Sim{alone, busy} {
			for ci := 0; ci < cfg.Colls; ci++ {
				if err := s.PutViews(0, ci, kv.ViewSet(false)); err != nil {
					c.Incon("PutDDoc failed: " + err.Error())
					return
				}
			}
		}
		// a live feed on c0 of either bucket: what it delivers must not depend on the other collections either
		type fev struct {
			key  string
			del  bool
			exp  uint32
			dt   uint8
			body string
		}
		var fmu sync.Mutex
		var flog [2][]fev
		fterm := make(chan bool)
		defer close(fterm)
		for si, s := range []*kv.Sim{alone, busy} {
			si := si
			_ = s.Env.Buckets[0].Colls[0][0].StartDCPFeed(context.Background(), sgbucket.FeedArguments{ID: "noninterf", Backfill: sgbucket.FeedNoBackfill, Terminator: fterm},
				func(e sgbucket.FeedEvent) bool {
					fmu.Lock()
					flog[si] = append(flog[si], fev{string(e.Key), e.Opcode == sgbucket.FeedOpDeletion, e.Expiry, e.DataType &^ sgbucket.FeedDataTypeXattr, string(e.Value)})
					fmu.Unlock()
					return true
				}, nil)
		}
		compareFeeds := func() {
			for _, s := range []*kv.Sim{alone, busy} {
				_ = s.Env.Buckets[0].Colls[0][0].SetRaw("zz-sentinel", 0, nil, []byte("end"))
			}
			ok := false
			for t := 0; t < 4000 && !ok; t++ {
				fmu.Lock()
				ok = len(flog[0]) > 0 && len(flog[1]) > 0 && flog[0][len(flog[0])-1].key == "zz-sentinel" && flog[1][len(flog[1])-1].key == "zz-sentinel"
				fmu.Unlock()
				if !ok {
					time.Sleep(time.Millisecond)
				}
			}
			if !ok {
				return // a feed that starves is C08's and C16's business
			}
			fmu.Lock()
			defer fmu.Unlock()
			c.Count("feed_event_sequences_compared", 1)
			c.Count("feed_events_compared", int64(len(flog[0])))
			if len(flog[0]) != len(flog[1]) {
				c.Viol([]string{"C11"}, "noninterference|feed|count", fmt.Sprintf("the live feed of collection c0 delivered %d events in a bucket whose other collections were idle, but %d in a bucket that received the same history on c0 plus operations addressed to c1/c2", len(flog[0]), len(flog[1])), map[string]any{"config": cfg})
				return
			}
			for i := range flog[0] {
				a, b := flog[0][i], flog[1][i]
				de := int64(a.exp) - int64(b.exp)
				// (xattr bytes embedded in the value differ by construction where they carry a CAS: only bodies without xattrs are compared)
				if a.key != b.key || a.del != b.del || de < -3 || de > 3 || a.dt != b.dt {
					c.Viol([]string{"C11"}, "noninterference|feed|event", fmt.Sprintf("event %d of c0's live feed is (key %q, deletion %v, expiry %d, datatype %d) in a bucket whose other collections were idle, but (key %q, deletion %v, expiry %d, datatype %d) in a bucket that received the same history on c0 plus operations addressed to c1/c2", i, a.key, a.del, a.exp, a.dt, b.key, b.del, b.exp, b.dt), map[string]any{"config": cfg})
					return
				}
			}
		}
		if (c.Local/4)%2 == 1 {
			// an index over a body property is created on a sibling collection of the busy bucket: an operation addressed
			// to that collection, which must change nothing c0 returns or accepts (raw, non-JSON bodies included)
			filter := ""
			if (c.Local/8)%2 == 1 {
				filter = "body->>'$.t' = 'a' OR body->>'$.t' = 'b'" // a filter expression with a top-level OR
			}
			if err := busy.Env.Buckets[0].Colls[0][1].CreateIndex("ix_n", "body->>'$.n'", filter); err == nil {
				c.Count("indexes_created_on_a_sibling_collection", 1)
			}
		}
		g := &kv.Gen{R: r, Keys: []string{"k0", "k1", "k2", "k3"}, Colls: cfg.Colls, Bkts: 1, Hnd: cfg.Handles}
		steps := 50
		if c.Tier == "thorough" {
			steps = 100
		}
		var foreign []string // what the busy bucket got since the last comparison
		compare := func(at int) {
			for _, vd := range kv.ViewSet(false) {
				for pi, p := range viewParams {
					if vd.Reduce == "" && p["reduce"] == nil {
						continue
					}
					a, ea := alone.ViewRows(0, 0, vd.Name, p, pi%2 == 1)
					b, eb := busy.ViewRows(0, 0, vd.Name, p, pi%2 == 1)
					c.Count("view_results_compared", 1)
					if ea != eb || fmt.Sprint(a) != fmt.Sprint(b) {
						c.Viol([]string{"C11"}, fmt.Sprintf("noninterference|view|%s", vd.Name),
							fmt.Sprintf("view %s %v of collection c0 returns %d rows (error %q) in a bucket whose other collections were idle, but %d rows (error %q) in a bucket that received the same history on c0 plus operations addressed to c1/c2", vd.Name, p, len(a), ea, len(b), eb),
							map[string]any{"alone": a, "busy": b, "step": at, "ops_on_other_collections": foreign, "config": cfg})
						return
					}
				}
			}
			for qi, st := range stmts {
				// the very same statement text is first run on a sibling collection of the busy bucket
				_, _ = busy.QueryRows(0, 1+(at+qi)%(cfg.Colls-1), st, nil, qi%2 == 1)
				a, ea := alone.QueryRows(0, 0, st, nil, qi%2 == 1)
				b, eb := busy.QueryRows(0, 0, st, nil, qi%2 == 1)
				c.Count("query_results_compared", 1)
				if ea != eb || strings.Join(a, "\n") != strings.Join(b, "\n") {
					c.Viol([]string{"C11"}, fmt.Sprintf("noninterference|query|%d", qi),
						fmt.Sprintf("query %q over collection c0 returns %d rows in a bucket whose other collections were idle, but %d rows in a bucket that received the same history on c0 plus operations addressed to c1/c2", st, len(a), len(b)),
						map[string]any{"alone": a, "busy": b, "step": at, "ops_on_other_collections": foreign, "config": cfg})
					return
				}
			}
			foreign = nil
		}
		onA, onOthers := 0, 0
		for i := 0; i < steps; i++ {
			op := g.Random(prof)
			op.Macros = nil // an expanded ${Mutation.CAS} would make the two buckets' xattrs differ by construction
			if op.Kind == kv.KDropColl {
				if cfg.Handles != 1 {
					continue
				}
				op.Coll = 1 + r.Intn(cfg.Colls-1)
				busy.Do(op)
				_ = busy.PutViews(0, op.Coll, kv.ViewSet(false))
				foreign = append(foreign, op.Variant()+fmt.Sprintf("@c%d", op.Coll))
				onOthers++
				continue
			}
			if op.Coll == 0 {
				alone.Do(op)
				onA++
			} else {
				foreign = append(foreign, op.Variant()+fmt.Sprintf("@c%d/%s", op.Coll, op.Key))
				onOthers++
			}
			busy.Do(op)
			if r.Chance(1, 5) {
				compare(i)
				if r.Chance(1, 3) {
					// the other collections' views are brought up to date too: their index state is part of "busy"
					_, _ = busy.ViewRows(0, 1+r.Intn(cfg.Colls-1), "all", map[string]any{}, false)
				}
			}
		}
		compare(steps)
		compareFeeds()
		c.Count("noninterference_ops_on_A", int64(onA))
		c.Count("noninterference_ops_on_others", int64(onOthers))
		c.Cell(fmt.Sprintf("noninterference|%s|handles=%d", ifStr(cfg.Disk, "disk", "mem"), cfg.Handles))
		c.Sample(map[string]any{"config": cfg, "ops_on_c0": onA, "ops_on_other_collections": onOthers})
	}}
}

// failedViewQueryScenario (C11): on a sibling collection a view query fails part-way (include_docs over a document
// whose body is not JSON). That is an operation addressed to the sibling: every other collection of the bucket must
// go on answering. Decided as bounded progress: each probe call gets 10 s.
func failedViewQueryScenario(c *sup.Ctx) {
	r := rng.New(c.Seed, rng.HashString("C11failedview"), uint64(c.Local))
	cfg := kv.Config{Disk: c.Local%2 == 1, Buckets: 1, Handles: 1, Colls: 2}
	sim, err := kv.NewSim(c, r, cfg, kv.SimOptions{})
	if err != nil {
		c.Incon("cannot set up scenario: " + err.Error())
		return
	}
	defer sim.Close()
	c0, c1 := sim.Env.Buckets[0].Colls[0][0], sim.Env.Buckets[0].Colls[0][1]
	ctx := context.Background()
	dd := &sgbucket.DesignDoc{Language: "javascript", Views: sgbucket.ViewMap{"ids": sgbucket.ViewDef{Map: `function(doc, meta) { emit(meta.id, null); }`}}}
	if err := c1.PutDDoc(ctx, "fv", dd); err != nil {
		c.Incon("PutDDoc: " + err.Error())
		return
	}
	_ = c1.SetRaw("raw", 0, nil, []byte("not json at all"))
	_ = c1.Set("json", 0, nil, []byte(`{"n":1}`))
	_ = c0.Set("mine", 0, nil, []byte(`{"n":0}`))
	failed := 0
	for i := 0; i < 10; i++ {
		if _, verr := c1.View(ctx, "fv", "ids", map[string]interface{}{"include_docs": true}); verr != nil {
			failed++
		}
		done := make(chan error, 1)
		go func(i int) {
			if err := c0.Set("mine", 0, nil, []byte(fmt.Sprintf(`{"n":%d}`, i+1))); err != nil {
				done <- err
				return
			}
			_, _, err := c0.GetRaw("mine")
			done <- err
		}(i)
		select {
		case err := <-done:
			if err != nil {
				c.Viol([]string{"C11"}, "failed-view-query|sibling-fails", fmt.Sprintf("after %d view queries on the sibling collection (%d of them failed), a write / read of collection c0 fails: %v", i+1, failed, err), map[string]any{"disk": cfg.Disk})
				return
			}
		case <-time.After(10 * time.Second):
			c.Viol([]string{"C11"}, "failed-view-query|sibling-hangs", fmt.Sprintf("after %d view queries on the sibling collection (%d of them failed with an error), a write to collection c0 does not return within 10 s", i+1, failed), map[string]any{"disk": cfg.Disk, "failed_view_queries": failed})
			return
		}
	}
	c.Count("view_queries_failing_on_a_sibling_collection", int64(failed))
	c.Cell(fmt.Sprintf("failed-view-query|%s", ifStr(cfg.Disk, "disk", "mem")))
}
