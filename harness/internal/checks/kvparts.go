// Package checks registers one check per property.
package checks

import (
	"fmt"

	"verifharness/internal/kv"
	"verifharness/internal/rng"
	"verifharness/internal/sup"
)

// kvOpts configures an engine-A part.
type kvOpts struct {
	Sim        kv.SimOptions
	Cfg        func(r *rng.R, local int) kv.Config
	Profile    kv.Profile
	Steps      int
	SweepEvery int // IsoSweep + dumps every n steps (0 = never)
	Variants   func() []kv.Op
	Setups     func() [][]kv.Op
	FollowUps  func() []kv.Op
	Keys       []string
	ExtraEvery func(s *kv.Sim, step int) // property-specific periodic judge (views, queries ...)
	AtEnd      func(s *kv.Sim)
	BigBodies  int // one in N JSON bodies is 64 KiB - 1 MiB
	TrailWS    int // one in N JSON bodies ends in insignificant whitespace
}

func tierN(tier string, quick, thorough int) int {
	if tier == "thorough" {
		return thorough
	}
	return quick
}

func defaultCfg(colls, buckets, handles, feeds int, marker bool) func(r *rng.R, local int) kv.Config {
	return func(r *rng.R, local int) kv.Config {
		return kv.Config{Disk: local%2 == 1, Buckets: buckets, Handles: handles, Colls: colls, FeedsPer: feeds, Marker: marker}
	}
}

var defaultKeys = []string{"k0", "k1", "k2", "k3"}

func sampleOf(s *kv.Sim, n int) any {
	log := s.Log
	if len(log) > n {
		log = log[:n]
	}
	type ss struct {
		Op     string `json:"op"`
		Key    string `json:"key"`
		Pre    string `json:"pre_state"`
		Result string `json:"result"`
		Cas    uint64 `json:"stored_cas"`
	}
	var out []ss
	for i := range log {
		st := &log[i]
		r := "ok"
		if !st.Res.OK() {
			r = "refused:" + st.Res.Err
			if st.Res.IsAdd && st.Res.Err == "" {
				r = "added=false"
			}
		}
		out = append(out, ss{Op: st.Op.Variant(), Key: fmt.Sprintf("b%d/c%d/%s", st.Op.Bucket, st.Op.Coll, st.Op.Key), Pre: st.Pre.Class(), Result: r, Cas: st.PostObs.RawCas})
	}
	return map[string]any{"config": s.Env.Cfg, "first_steps": out}
}

// exhaustivePart: scenario = (setup, bucket type[, follow-up]); inside, every op variant is applied to a
// fresh key brought into the setup's state, then probed by a follow-up.
func exhaustivePart(name string, o kvOpts) sup.Part {
	setups := o.Setups()
	fups := o.FollowUps()
	return sup.Part{
		Name: name,
		Count: func(tier string) int {
			if tier == "thorough" {
				return len(setups) * 2 * len(fups) * 4 // four passes with different random prefix extensions
			}
			return len(setups) * 2 * len(fups)
		},
		Run: func(c *sup.Ctx) {
			r := rng.New(c.Seed, rng.HashString(c.Prop), rng.HashString(name), uint64(c.Local))
			si := (c.Local / 2) % len(setups)
			fu := (c.Local / (2 * len(setups))) % len(fups)
			cfg := o.Cfg(r, c.Local)
			sim, err := kv.NewSim(c, r, cfg, o.Sim)
			if err != nil {
				c.Incon("cannot set up scenario: " + err.Error())
				return
			}
			defer sim.Close()
			vars := o.Variants()
			g := &kv.Gen{R: r}
			for vi, v := range vars {
				key := fmt.Sprintf("e%d", vi)
				coll := vi % cfg.Colls
				place := func(op kv.Op) kv.Op {
					op.Key, op.Coll = key, coll
					if cfg.Handles > 1 {
						op.Handle = r.Intn(cfg.Handles)
					}
					return op
				}
				for _, sop := range setups[si] {
					sim.Do(place(sop))
				}
				if c.Tier == "thorough" && r.Chance(1, 2) {
					// lengthen the prefix by one random op (2-op prefixes beyond the catalogue)
					sim.Do(place(g.Make(rng.Pick(r, kv.AllKinds))))
				}
				sim.Do(place(v))
				f := fu
				if f < 0 {
					f = (vi + c.Local/2 + int(c.Seed)) % len(fups)
				}
				sim.Do(place(fups[f]))
				if o.ExtraEvery != nil && vi%16 == 15 {
					o.ExtraEvery(sim, vi)
				}
			}
			if o.AtEnd != nil {
				o.AtEnd(sim)
			}
			c.Sample(sampleOf(sim, 8))
		},
	}
}

// randomPart: long random histories on a few shared keys.
func randomPart(name string, quick, thorough int, o kvOpts) sup.Part {
	return sup.Part{
		Name:  name,
		Count: func(tier string) int { return tierN(tier, quick, thorough) },
		Run: func(c *sup.Ctx) {
			r := rng.New(c.Seed, rng.HashString(c.Prop), rng.HashString(name), uint64(c.Local))
			cfg := o.Cfg(r, c.Local)
			sim, err := kv.NewSim(c, r, cfg, o.Sim)
			if err != nil {
				c.Incon("cannot set up scenario: " + err.Error())
				return
			}
			defer sim.Close()
			keys := o.Keys
			if keys == nil {
				keys = defaultKeys
			}
			g := &kv.Gen{R: r, Keys: keys, Colls: cfg.Colls, Bkts: cfg.Buckets, Hnd: cfg.Handles, Big: o.BigBodies, EmptyX: 12, TrailWS: o.TrailWS}
			steps := o.Steps
			if c.Tier == "thorough" {
				steps *= 2
			}
			var last kv.DocKey
			for i := 0; i < steps; i++ {
				op := g.Random(o.Profile)
				if op.Kind == kv.KDropColl {
					if cfg.Handles != 1 || cfg.Colls < 2 {
						continue
					}
					op.Coll = 1 + r.Intn(cfg.Colls-1)
				}
				sim.Do(op)
				last = kv.DocKey{B: op.Bucket, C: op.Coll, K: op.Key}
				if o.SweepEvery > 0 && i%o.SweepEvery == o.SweepEvery-1 {
					sim.IsoSweep(last)
				}
				if o.ExtraEvery != nil {
					o.ExtraEvery(sim, i)
				}
			}
			if o.SweepEvery > 0 {
				sim.IsoSweep(kv.DocKey{B: -1})
			}
			if o.AtEnd != nil {
				o.AtEnd(sim)
			}
			c.Sample(sampleOf(sim, 10))
		},
	}
}

// dumpSweep compares Dump backfills from several start CAS values on every collection of every bucket.
func dumpSweep(s *kv.Sim) {
	for bi, be := range s.Env.Buckets {
		for ci := range be.Colls[0] {
			var cases []uint64
			var all []uint64
			for k, o := range s.Last {
				if k.B == bi && k.C == ci {
					if d := s.Model[k]; d != nil && d.Present {
						all = append(all, d.Cas)
					}
					_ = o
				}
			}
			cases = append(cases, 0)
			if len(all) > 0 {
				mx, md := all[0], all[len(all)/2]
				for _, c := range all {
					if c > mx {
						mx = c
					}
				}
				cases = append(cases, md, mx, mx+1)
			}
			for _, st := range cases {
				s.JudgeDump(bi, ci, st, "sweep")
			}
		}
	}
}
