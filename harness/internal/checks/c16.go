package checks

import (
	"fmt"
	"strings"
	"time"

	"verifharness/internal/life"
	"verifharness/internal/rng"
	"verifharness/internal/sup"
)

var feedActions = []string{"term0", "term1", "term2", "dropY", "close0", "close1", "delete", "dropYclosed"}

func feedScenario(c *sup.Ctx, r *rng.R, enumerated bool) {
	s := &life.FeedScenario{Disk: c.Local%2 == 1, H2OpensY: (c.Local/2)%2 == 1}
	// three feeds: kinds/handles/collections from the scenario index (all combinations get covered) and the PRNG
	k0 := (c.Local / 4) % life.NFeedKinds
	s.Feeds = [][3]int{{k0, (c.Local / 16) % 2, (c.Local / 32) % 2}, {r.Intn(life.NFeedKinds), r.Intn(2), r.Intn(2)}, {r.Intn(life.NFeedKinds), r.Intn(2), r.Intn(2)}}
	n := 2 + r.Intn(3)
	if c.Tier == "thorough" {
		n = 3 + r.Intn(4)
	}
	perm := r.Perm(len(feedActions))
	for _, i := range perm[:n] {
		s.Actions = append(s.Actions, feedActions[i])
		if strings.HasPrefix(feedActions[i], "close") && r.Chance(1, 3) {
			s.Actions = append(s.Actions, feedActions[i]) // the same handle is closed again right away
		}
	}
	s.Report = func(kind, msg string) {
		if kind == "setup" {
			c.Incon(msg)
			return
		}
		c.Viol([]string{"C16"}, "feeds|"+kind, msg, map[string]any{"disk": s.Disk, "h2_opens_y": s.H2OpensY, "feeds": s.Feeds, "actions": s.Actions})
	}
	s.Cell = c.Cell
	s.Count = c.Count
	s.Run(c.Tmp, r)
	c.Count("feed_scripts", 1)
	c.Cell(fmt.Sprintf("order|%s|%s", strings.Join(mapKinds(s.Actions), ">"), ifStr(s.Disk, "disk", "mem")))
	c.Sample(map[string]any{"disk": s.Disk, "second_handle_opened_Y": s.H2OpensY, "feeds(kind,handle,coll)": s.Feeds, "actions": s.Actions})
}

func mapKinds(a []string) []string {
	out := make([]string, len(a))
	for i, x := range a {
		switch {
		case strings.HasPrefix(x, "term"):
			out[i] = "term"
		case strings.HasPrefix(x, "close"):
			out[i] = "close"
		default:
			out[i] = x
		}
	}
	return out
}

func init() {
	sup.Register(&sup.Check{
		Prop: "C16", Level: "exploration",
		Rule: "feed-lifecycle scripts on a bucket with two handles (the second one optionally never opens collection Y): three feeds drawn from {live, backfill+live, dump, multi-collection, dump without backfill, multi-collection dump} x starting handle x collection, then 2-4 (quick) / 3-6 (thorough) shutdown actions in PRNG order from {terminator of feed 0/1/2, DropDataStore(Y) through handle 0 or through a handle that never opened Y, Close(handle 0), Close(handle 1) (also of a handle that is closed already; after a Close a multi-collection feed through the closed handle must be refused), CloseAndDelete}, with a background writer; after every action each feed's expected status is checked: a feed that must have ended has its done channel closed within 10 s and no callback afterwards, a feed that should still run receives a fresh write on its collection within 10 s (barrier); after the store is shut down the goroutine profile must hold no dcpFeed.run goroutine; also under the race detector; feed kind checkpointed (backfill+live with a checkpoint prefix); action DropDataStore through a closed handle (refused: the feeds go on); (queued shutdown) CloseAndDelete / Close of the only on-disk handle under a parked callback: at most two more callbacks, done closed; (sweep after re-create) an expiry sweep must not end the feeds of a collection that was dropped and created again; feed kind multi-collection-partial (one part cannot start: the call is refused, done must close once the terminator is closed or the store is gone); feed kind terminator-closed-before-start; cell = (feed kind, handle, collection, bucket type) / (action order)",
		Assumptions: []string{"'ends' is decided as bounded progress (10 s) with the scheduler otherwise idle", "DropDataStore is issued through the handle that created the collection"},
		Parts: []sup.Part{
			{Name: "feed-scripts", Timeout: 150 * time.Second, Count: func(t string) int { return tierN(t, 1024, 50000) }, Run: func(c *sup.Ctx) {
				feedScenario(c, rng.New(c.Seed, rng.HashString("C16"), uint64(c.Local)), false)
			}},
			{Name: "queued-terminator", Timeout: 60 * time.Second, Count: func(t string) int { return tierN(t, 12, 60) }, Run: func(c *sup.Ctx) {
				kind := []int{life.FDump, life.FBackfillLive}[(c.Local/2)%2]
				n, msg := life.QueuedTerminator(c.Tmp, c.Local%2 == 1, kind, 20+10*(c.Local%5))
				c.Count("queued_terminator_probes", 1)
				c.Cell(fmt.Sprintf("queued-terminator|%d|%v", kind, c.Local%2 == 1))
				if msg != "" {
					k, text := splitKind(msg)
					if k == "setup" {
						c.Incon(text)
					} else {
						c.Viol([]string{"C16"}, "feeds|queued|"+k, text, map[string]any{"callbacks_after_terminator": n})
					}
				}
			}},
			{Name: "queued-shutdown", Timeout: 60 * time.Second, Count: func(t string) int { return tierN(t, 12, 60) }, Run: func(c *sup.Ctx) {
				// the same with the store shut down under the parked callback: CloseAndDelete (in-memory and on-disk) or Close of the only on-disk handle
				kind := []int{life.FDump, life.FBackfillLive, life.FCheckpoint}[(c.Local/2)%3]
				disk := c.Local%2 == 1
				how := "delete"
				if disk && (c.Local/6)%2 == 1 {
					how = "close-last"
				}
				n, msg := life.QueuedEnd(c.Tmp, disk, kind, 20+10*(c.Local%5), how)
				c.Count("queued_shutdown_probes", 1)
				c.Cell(fmt.Sprintf("queued-shutdown|%s|%d|%v", how, kind, disk))
				if msg != "" {
					k, text := splitKind(msg)
					if k == "setup" {
						c.Incon(text)
					} else {
						c.Viol([]string{"C16"}, "feeds|queued|"+k, text, map[string]any{"callbacks_after": n})
					}
				}
			}},
			{Name: "sweep-after-recreate", Timeout: 60 * time.Second, Count: func(t string) int { return tierN(t, 4, 24) }, Run: func(c *sup.Ctx) {
				msg := life.RecreatedCollectionSweep(c.Tmp, c.Local%2 == 1)
				c.Count("sweep_after_recreate_probes", 1)
				c.Cell(fmt.Sprintf("sweep-after-recreate|%v", c.Local%2 == 1))
				if msg != "" {
					k, text := splitKind(msg)
					if k == "setup" {
						c.Incon(text)
					} else {
						c.Viol([]string{"C16"}, "feeds|recreated|"+k, text, nil)
					}
				}
			}},
			{Name: "feed-scripts-race", Race: true, Timeout: 200 * time.Second, Count: func(t string) int { return tierN(t, 32, 320) }, Run: func(c *sup.Ctx) {
				feedScenario(c, rng.New(c.Seed, rng.HashString("C16race"), uint64(c.Local)), false)
			}},
		},
		RaceOwner: raceOwner("C16"),
		Floor: func(tier string, m *sup.Merged) string {
			if m.Counts["feed_scripts"] < 200 {
				return "fewer than 200 feed scripts"
			}
			return ""
		},
	})
}
