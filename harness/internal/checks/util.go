package checks

import "encoding/json"

func jsonUnmarshal(s string, v any) error {
	if s == "" {
		return nil
	}
	return json.Unmarshal([]byte(s), v)
}
