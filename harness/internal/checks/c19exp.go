package checks

import (
	"context"
	"fmt"
	"os"
	"path/filepath"
	"sync/atomic"
	"time"

	"verifharness/internal/rng"
	"verifharness/internal/sup"

	sgbucket "github.com/couchbase/sg-bucket"
	"github.com/couchbaselabs/rosmar"
)

var c19ExpSerial atomic.Uint64

// expiringInQueriesScenario (C19): a document with a one-second expiry is written late in a wall-clock second, so
// that its expiry time arrives well before the sweep that will tombstone it. Until then the key-value API still
// reports the document (it has a body), and so must a query over $_keyspace: a row is demanded whenever Exists
// reported the key both right before and right after the query (sound whatever the timing), and no row may appear
// once Exists reported it missing before and after.
func expiringInQueriesScenario(c *sup.Ctx) {
	disk := c.Local%2 == 1
	name := fmt.Sprintf("qx%d_%d", os.Getpid(), c19ExpSerial.Add(1))
	url, dir := rosmar.InMemoryURL, ""
	if disk {
		dir = filepath.Join(c.Tmp, name)
		url = "rosmar://" + dir
	}
	ctx := context.Background()
	b, err := rosmar.OpenBucket(url, name, rosmar.CreateNew)
	if err != nil {
		c.Incon("open: " + err.Error())
		return
	}
	defer func() {
		func() { defer func() { _ = recover() }(); _ = b.CloseAndDelete(ctx) }()
		if dir != "" {
			_ = os.RemoveAll(dir)
		}
	}()
	col := b.DefaultDataStore().(*rosmar.Collection)
	_ = col.Set("stays", 0, nil, []byte(`{"n":1}`))
	// wait for the last fifth of a second
	for time.Now().Nanosecond() < 780e6 || time.Now().Nanosecond() > 900e6 {
		time.Sleep(2 * time.Millisecond)
	}
	if err := col.Set("goes", 1, nil, []byte(`{"n":2}`)); err != nil {
		c.Incon("set: " + err.Error())
		return
	}
	hasRow := func() (bool, error) {
		it, qerr := col.Query(sgbucket.SQLiteLanguage, `SELECT json_quote(id) AS id FROM $_keyspace WHERE id = 'goes'`, nil, sgbucket.RequestPlus, false)
		if qerr != nil {
			return false, qerr
		}
		n := 0
		for {
			var row map[string]any
			if !it.Next(ctx, &row) {
				break
			}
			n++
		}
		return n > 0, it.Close()
	}
	demanded, absent := 0, 0
	deadline := time.Now().Add(2500 * time.Millisecond)
	for time.Now().Before(deadline) {
		before, e1 := col.Exists("goes")
		got, qerr := hasRow()
		after, e2 := col.Exists("goes")
		if e1 != nil || e2 != nil || qerr != nil {
			continue
		}
		switch {
		case before && after:
			demanded++
			if !got {
				c.Viol([]string{"C19"}, "query|expiring-document-missing", fmt.Sprintf("a document whose expiry time has come but which has not been tombstoned yet: Exists reported it right before and right after the query, the query over $_keyspace returned no row for it (%d ms after the write)", 2500-time.Until(deadline).Milliseconds()), map[string]any{"disk": disk})
				return
			}
		case !before && !after:
			absent++
			if got {
				c.Viol([]string{"C19", "C05"}, "query|expired-document-present", "Exists reported the expired document missing right before and right after the query, yet the query returned a row for it", map[string]any{"disk": disk})
				return
			}
		}
		time.Sleep(3 * time.Millisecond)
	}
	c.Count("queries_over_a_document_about_to_expire", int64(demanded))
	c.Count("queries_after_the_document_expired", int64(absent))
	c.Cell(fmt.Sprintf("expiring-in-queries|%s", ifStr(disk, "disk", "mem")))
	c.Sample(map[string]any{"disk": disk, "queries_while_readable": demanded, "queries_after_expiry": absent})
}

// bodylessRowsScenario (C19, model-free): rows without a body that are not flagged as tombstones - what the raw entry
// points leave when they are handed a nil body - are "documents that currently have no body": the key-value API
// reports them missing, so a query over $_keyspace must not return them. Only the statement's own equation is
// judged: the ids a query returns are exactly the keys that Exists / GetRaw report.
func bodylessRowsScenario(c *sup.Ctx) {
	r := rng.New(c.Seed, rng.HashString("C19bodyless"), uint64(c.Local))
	disk := c.Local%2 == 1
	name := fmt.Sprintf("qb%d_%d", os.Getpid(), c19ExpSerial.Add(1))
	url, dir := rosmar.InMemoryURL, ""
	if disk {
		dir = filepath.Join(c.Tmp, name)
		url = "rosmar://" + dir
	}
	ctx := context.Background()
	b, err := rosmar.OpenBucket(url, name, rosmar.CreateNew)
	if err != nil {
		c.Incon("open: " + err.Error())
		return
	}
	defer func() {
		func() { defer func() { _ = recover() }(); _ = b.CloseAndDelete(ctx) }()
		if dir != "" {
			_ = os.RemoveAll(dir)
		}
	}()
	col := b.DefaultDataStore().(*rosmar.Collection)
	if c.Local/2%2 == 1 {
		ds, derr := b.NamedDataStore(sgbucket.DataStoreNameImpl{Scope: "s1", Collection: "c1"})
		if derr != nil {
			c.Incon("named collection: " + derr.Error())
			return
		}
		col = ds.(*rosmar.Collection)
	}
	keys := []string{"a", "b", "c", "d", "e", "f"}
	var history []string
	nilWrites := 0
	for step := 0; step < 30; step++ {
		k := keys[r.Intn(len(keys))]
		body := []byte(fmt.Sprintf(`{"n":%d}`, step))
		kind := ""
		func() {
			defer func() {
				if p := recover(); p != nil {
					kind += fmt.Sprintf(" (panic: %v)", p)
				}
			}()
			switch r.Intn(9) {
			case 0, 1:
				kind = "SetRaw"
				err = col.SetRaw(k, 0, nil, body)
			case 2:
				kind = "SetRaw(nil)"
				nilWrites++
				err = col.SetRaw(k, 0, nil, nil)
			case 3:
				kind = "AddRaw(nil)"
				nilWrites++
				_, err = col.AddRaw(k, 0, nil)
			case 4:
				kind = "Delete"
				err = col.Delete(k)
			case 5:
				kind = "WriteWithXattrs"
				_, cas, _ := col.GetRaw(k)
				_, err = col.WriteWithXattrs(ctx, k, 0, uint64(cas), body, map[string][]byte{"_sync": []byte(`{"s":1}`)}, nil, nil)
			case 6:
				kind = "Update(nil body)"
				nilWrites++
				_, err = col.Update(k, 0, func(cur []byte) ([]byte, *uint32, bool, error) { return nil, nil, false, nil })
			case 7:
				kind = "WriteCas(nil, raw)"
				nilWrites++
				_, cas, _ := col.GetRaw(k)
				_, err = col.WriteCas(k, 0, uint64(cas), []byte(nil), sgbucket.Raw)
			default:
				kind = "SetXattrs"
				_, err = col.SetXattrs(ctx, k, map[string][]byte{"_x": []byte(fmt.Sprint(step))})
			}
		}()
		history = append(history, fmt.Sprintf("%s %s err=%v", kind, k, err != nil))
		if step%3 != 2 && step != 29 {
			continue
		}
		want := map[string]bool{}
		for _, kk := range keys {
			ex, e1 := col.Exists(kk)
			_, _, e2 := col.GetRaw(kk)
			if e1 == nil && ex != (e2 == nil) {
				return // the key-value observers disagree with each other: C05's matter, nothing to compare with
			}
			if ex {
				want[kk] = true
			}
		}
		it, qerr := col.Query(sgbucket.SQLiteLanguage, `SELECT json_quote(id) AS id FROM $_keyspace`, nil, sgbucket.RequestPlus, false)
		if qerr != nil {
			c.Incon("query: " + qerr.Error())
			return
		}
		got := map[string]int{}
		for {
			var row map[string]any
			if !it.Next(ctx, &row) {
				break
			}
			if id, ok := row["id"].(string); ok {
				got[id]++
			}
		}
		_ = it.Close()
		c.Count("bodyless_row_queries_compared", 1)
		for _, kk := range keys {
			if (got[kk] > 0) != want[kk] || got[kk] > 1 {
				c.Viol([]string{"C19"}, "query|bodyless-row", fmt.Sprintf("key %q: the key-value API reports exists=%v, the query over $_keyspace returned %d row(s) for it", kk, want[kk], got[kk]), map[string]any{"disk": disk, "history": history})
				return
			}
		}
	}
	c.Count("writes_with_a_nil_body", int64(nilWrites))
	c.Cell(fmt.Sprintf("bodyless-rows|%s|%s", ifStr(disk, "disk", "mem"), ifStr(c.Local/2%2 == 1, "named", "default")))
}
