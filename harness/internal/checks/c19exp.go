package checks

import (
	"context"
	"fmt"
	"os"
	"path/filepath"
	"sync/atomic"
	"time"

	"verifharness/internal/sup"

	sgbucket "github.com/couchbase/sg-bucket"
	"github.com/couchbaselabs/rosmar"
)

var c19ExpSerial atomic.Uint64

// expiringInQueriesScenario (C19): a document with a one-second expiry is written late in a wall-clock second, so
// that its expiry time arrives well before the sweep that will tombstone it. Until then the key-value API still
// reports the document (it has a body), and so must a query over $_keyspace: a row is demanded whenever Exists
// reported the key both right before and right after the query (sound whatever the timing), and no row may appear
// once Exists reported it missing before and after.
func expiringInQueriesScenario(c *sup.Ctx) {
	disk := c.Local%2 == 1
	name := fmt.Sprintf("qx%d_%d", os.Getpid(), c19ExpSerial.Add(1))
	url, dir := rosmar.InMemoryURL, ""
	if disk {
		dir = filepath.Join(c.Tmp, name)
		url = "rosmar://" + dir
	}
	ctx := context.Background()
	b, err := rosmar.OpenBucket(url, name, rosmar.CreateNew)
	if err != nil {
		c.Incon("open: " + err.Error())
		return
	}
	defer func() {
		func() { defer func() { _ = recover() }(); _ = b.CloseAndDelete(ctx) }()
		if dir != "" {
			_ = os.RemoveAll(dir)
		}
	}()
	col := b.DefaultDataStore().(*rosmar.Collection)
	_ = col.Set("stays", 0, nil, []byte(`{"n":1}`))
	// wait for the last fifth of a second
	for time.Now().Nanosecond() < 780e6 || time.Now().Nanosecond() > 900e6 {
		time.Sleep(2 * time.Millisecond)
	}
	if err := col.Set("goes", 1, nil, []byte(`{"n":2}`)); err != nil {
		c.Incon("set: " + err.Error())
		return
	}
	hasRow := func() (bool, error) {
		it, qerr := col.Query(sgbucket.SQLiteLanguage, `SELECT json_quote(id) AS id FROM $_keyspace WHERE id = 'goes'`, nil, sgbucket.RequestPlus, false)
		if qerr != nil {
			return false, qerr
		}
		n := 0
		for {
			var row map[string]any
			if !it.Next(ctx, &row) {
				break
			}
			n++
		}
		return n > 0, it.Close()
	}
	demanded, absent := 0, 0
	deadline := time.Now().Add(2500 * time.Millisecond)
	for time.Now().Before(deadline) {
		before, e1 := col.Exists("goes")
		got, qerr := hasRow()
		after, e2 := col.Exists("goes")
		if e1 != nil || e2 != nil || qerr != nil {
			continue
		}
		switch {
		case before && after:
			demanded++
			if !got {
				c.Viol([]string{"C19"}, "query|expiring-document-missing", fmt.Sprintf("a document whose expiry time has come but which has not been tombstoned yet: Exists reported it right before and right after the query, the query over $_keyspace returned no row for it (%d ms after the write)", 2500-time.Until(deadline).Milliseconds()), map[string]any{"disk": disk})
				return
			}
		case !before && !after:
			absent++
			if got {
				c.Viol([]string{"C19", "C05"}, "query|expired-document-present", "Exists reported the expired document missing right before and right after the query, yet the query returned a row for it", map[string]any{"disk": disk})
				return
			}
		}
		time.Sleep(3 * time.Millisecond)
	}
	c.Count("queries_over_a_document_about_to_expire", int64(demanded))
	c.Count("queries_after_the_document_expired", int64(absent))
	c.Cell(fmt.Sprintf("expiring-in-queries|%s", ifStr(disk, "disk", "mem")))
	c.Sample(map[string]any{"disk": disk, "queries_while_readable": demanded, "queries_after_expiry": absent})
}
