package checks

import (
	"time"

	"verifharness/internal/kv"
	"verifharness/internal/rng"
	"verifharness/internal/sup"
)

var kvAssume = []string{
	"bodies up to a few hundred bytes; keys and xattr names from small pools",
	"expiries far in the future, so the expiry timer never fires inside these scenarios",
	"under-specified behaviour is a set of allowed outcomes (DESIGN.md §3); error messages and log output are not compared",
}

func cellsFloor(n int) func(string, *sup.Merged) string {
	return func(tier string, m *sup.Merged) string {
		if len(m.Cells) < n {
			return "too few distinct cells observed"
		}
		return ""
	}
}

func filterVariants(pred func(o *kv.Op) bool) func() []kv.Op {
	return func() []kv.Op {
		var out []kv.Op
		for _, v := range kv.Variants() {
			v := v
			if pred(&v) {
				out = append(out, v)
			}
		}
		return out
	}
}

func heavy(base int, w int, kinds ...string) kv.Profile {
	p := kv.Uniform(base)
	for _, k := range kinds {
		p[k] = w
	}
	return p
}

func init() {
	// ---------------------------------------------------------------- C05 tombstone coherence
	c05 := kvOpts{
		Sim:       kv.SimOptions{JudgeEvents: true, DumpEachStep: true},
		Cfg:       defaultCfg(2, 1, 1, 1, true),
		Variants:  kv.Variants,
		Setups:    kv.Setups,
		FollowUps: kv.FollowUps,
	}
	c05r := c05
	c05r.Profile = heavy(2, 6, kv.KDelete, kv.KRemove, kv.KUpdate, kv.KDeleteWX, kv.KWriteTomb, kv.KDelMeta, kv.KAdd, kv.KWriteCas, kv.KWriteRes, kv.KSetX, kv.KUpdateX).With(kv.KPurge, 4)
	c05r.Steps = 60
	c05r.SweepEvery = 15
	c05r.ExtraEvery = func(s *kv.Sim, i int) {
		if i == 0 {
			// view indexes exist and are kept up to date: their rows must not stand in the way of PurgeTombstones
			for ci := 0; ci < 2; ci++ {
				_ = s.PutViews(0, ci, kv.ViewSet(false))
			}
		}
		if i%5 == 4 {
			_, _ = s.ViewRows(0, (i/5)%2, "all", map[string]any{}, false)
		}
		if i%15 == 14 {
			dumpSweep(s)
			s.JudgeQueries(0, (i/15)%2) // a query is an observer too: no row for a key without a body
		}
	}
	c05.ExtraEvery = func(s *kv.Sim, vi int) { s.JudgeQueries(0, (vi/16)%2) }
	sup.Register(&sup.Check{
		Prop: "C05", Level: "exploration",
		Rule:        "engine A with every observer judged after every step: GetRaw/Exists/GetWithXattrs/GetXattrs read-back, the mutation's live feed event, a Dump backfill of the touched key, and the behaviour of the following insert-style write; delete-path x resurrect-path x follow-up sequences enumerated from the setup/variant/follow-up catalogues plus random delete/resurrect-heavy histories with PurgeTombstones; a cell is a distinct (op variant, pre-state class, outcome, bucket type); the SQL query family runs inside the histories: a row for a key without a body is a violation; view indexes exist and are refreshed in the histories (PurgeTombstones must not trip over their rows); live events of writes over tombstones must carry none of the tombstone's xattrs",
		Assumptions: kvAssume,
		Parts: []sup.Part{
			exhaustivePart("exhaustive", c05),
			randomPart("random", 800, 12000, c05r),
		},
		Floor: cellsFloor(300),
	})

	// ---------------------------------------------------------------- C06 insert-only writes
	c06 := kvOpts{
		Cfg:       defaultCfg(2, 1, 1, 0, false),
		Variants:  kv.Variants,
		Setups:    kv.Setups,
		FollowUps: kv.FollowUps,
	}
	c06r := c06
	c06r.Profile = heavy(2, 7, kv.KAdd, kv.KAddRaw, kv.KWriteCas, kv.KWriteRes, kv.KWriteWX).With(kv.KDelete, 4, kv.KRemove, 3, kv.KDeleteWX, 3, kv.KUpdate, 4, kv.KWriteTomb, 3, kv.KDelMeta, 2, kv.KPurge, 2)
	c06r.Steps = 80
	sup.Register(&sup.Check{
		Prop: "C06", Level: "exploration",
		Rule:        "engine A: expected accept/refuse of every insert-style entry point from the model's 'has a body' / 'exists at all', frame rule on refusal, read-back on success; every (pre-state setup incl. delete/re-create cycles through different entry points) x op variant x follow-up insert is enumerated, plus random insert-heavy histories; WriteCas with AddOnly combined with Raw / Persist / Indexable in every CAS class; WriteCas without a body with CAS 0 / AddOnly precedes the insert-style follow-ups; cell = (op variant, pre-state class, outcome, bucket type)",
		Assumptions: kvAssume,
		Parts: []sup.Part{
			exhaustivePart("exhaustive", c06),
			randomPart("random", 800, 12000, c06r),
		},
		Floor: cellsFloor(300),
	})

	// ---------------------------------------------------------------- C07 body/xattr independence
	c07 := kvOpts{
		Cfg:       defaultCfg(2, 1, 1, 0, false),
		Variants:  kv.Variants,
		Setups:    kv.Setups,
		FollowUps: kv.FollowUps,
	}
	c07r := c07
	c07r.Profile = heavy(2, 7, kv.KSetX, kv.KUpdateX, kv.KRemoveX, kv.KDelPaths, kv.KWriteWX, kv.KWriteTomb, kv.KWriteRes, kv.KWriteUpd, kv.KDeleteWX).With(kv.KSet, 5, kv.KSetMeta, 3)
	c07r.Steps = 80
	c07bad := c07r
	c07small := c07r
	c07small.Steps = 50
	c07small.Cfg = func(r *rng.R, local int) kv.Config {
		return kv.Config{Disk: local%2 == 1, Buckets: 1, Handles: 1, Colls: 1, MaxDoc: 150}
	}
	sup.Register(&sup.Check{
		Prop: "C07", Level: "exploration",
		Rule:        "engine A with documents carrying 0-5 system and user xattrs; after every step the read-back of every xattr name in the pool is compared: names the call did not mention must be byte-identical, fresh values JSON-equivalent, macro expansions equal to the new CAS / CRC32-C of the stored body (computed independently); failure injection by stale CAS, missing xattr, oversize (MaxDocSize lowered), unparseable xattr JSON and argument-validation errors, each followed by the frame rule; (forced windows) expiry and macro specs of a WriteUpdateWithXattrs attempt that lost its CAS check must not be applied by the retry, the exp argument must be honoured; macro paths that name only the xattr (argument error: no panic, nothing applied); xattr values followed by surplus closing braces / brackets / trailing text; macro paths of three and four components; (refused inside the transaction) a combined body+xattr write whose statement is refused by an unevaluable expression index applies none of it: the key's complete read-back stays as it was; cell = (op variant, pre-state class, outcome, bucket type)",
		Assumptions: append([]string{"WithMeta xattr blobs are generated in encoding/json canonical form (rosmar stores them verbatim and normalises them on the next xattr write)"}, kvAssume...),
		Parts: []sup.Part{
			exhaustivePart("exhaustive", c07),
			randomPart("random", 800, 12000, c07r),
			badJSONPart("badjson", 200, 3000, c07bad),
			randomPart("oversize", 120, 1800, c07small),
			{Name: "forced-windows", Timeout: 60 * time.Second, Count: func(t string) int { return tierN(t, 2, 20) }, Run: func(c *sup.Ctx) {
				windowScenario(c, rng.New(c.Seed, rng.HashString("C07win"), uint64(c.Local)), []string{"C02", "C03", "C18"})
			}},
			{Name: "refused-inside-the-transaction", Timeout: 90 * time.Second, Count: func(t string) int { return tierN(t, 30, 600) }, Run: refusedWriteScenario},
		},
		Floor: cellsFloor(300),
	})

	// ---------------------------------------------------------------- C17 revision number
	c17 := kvOpts{
		Sim: kv.SimOptions{JudgeEvents: true, DumpEachStep: true},
		Cfg: func(r *rng.R, local int) kv.Config {
			// (in half of the scenarios a KeysOnly feed listens as well: its events carry the revision number too)
			return kv.Config{Disk: local%2 == 1, Buckets: 1, Handles: 1, Colls: 2, FeedsPer: 1 + (local/2)%2, Marker: true, KeysOnly: (local/2)%2 == 1}
		},
		Variants:  kv.Variants,
		Setups:    kv.Setups,
		FollowUps: kv.FollowUps,
	}
	c17r := c17
	c17r.Profile = kv.Uniform(3).With(kv.KPurge, 2, kv.KTouch, 5, kv.KIncr, 5)
	c17r.Steps = 70
	sup.Register(&sup.Check{
		Prop: "C17", Level: "exploration",
		Rule:        "(concurrent) 2-6 goroutines over 1-3 handles mutate one key through body writes, touches, xattr-only writes, sub-document writes, deletions and re-creations: the final $document.revid must be the start value plus the number of acknowledged mutations, and the RevNo values of the key's live events must be strictly increasing and end at that number; (sequential) engine A: after every step the model's revision counter (previous+1 on success, unchanged on failure, 1 on creation or re-creation after purge) is compared through four observers: $document.revid, the revid inside $document, RevNo of the live event (on ordinary and on KeysOnly feeds) and RevNo of the key's backfill event (every fourth dump KeysOnly); every entry point x pre-state enumerated plus random histories; (refused inside the transaction) an expression index that cannot be evaluated over rows lacking an xattr / body property makes the statement of a write fail after the entry point has incremented the revision and filled in its event: an acknowledged call raises $document.revid by one and posts one live event with that number, a refused call leaves the revision and posts no event (fence write after every call); cell = (op variant, pre-state class, outcome, bucket type)",
		Assumptions: kvAssume,
		Parts: []sup.Part{
			exhaustivePart("exhaustive", c17),
			randomPart("random", 800, 12000, c17r),
			{Name: "concurrent-count", Timeout: 90 * time.Second, Count: func(t string) int { return tierN(t, 120, 2400) }, Run: revCountScenario},
			{Name: "refused-inside-the-transaction", Timeout: 90 * time.Second, Count: func(t string) int { return tierN(t, 60, 1200) }, Run: refusedWriteScenario},
		},
		Floor: cellsFloor(300),
	})

	// ---------------------------------------------------------------- C11 isolation
	c11cfg := func(r *rng.R, local int) kv.Config {
		return kv.Config{Disk: local%2 == 1, Buckets: 2, Handles: 1, Colls: 4, FeedsPer: 1, Marker: true}
	}
	c11 := kvOpts{
		Sim:       kv.SimOptions{JudgeEvents: true, IsoEachStep: true},
		Cfg:       c11cfg,
		Variants:  kv.Variants,
		Setups:    func() [][]kv.Op { return kv.Setups()[:8] },
		FollowUps: kv.FollowUps,
	}
	c11r := c11
	c11r.Profile = kv.Uniform(3).With(kv.KPurge, 2, kv.KDropColl, 1, kv.KTouch, 6, kv.KGetTouch, 4)
	c11r.Steps = 50
	c11r.SweepEvery = 10
	c11r.Keys = []string{"k0", "k1", "k2"}
	sup.Register(&sup.Check{
		Prop: "C11", Level: "exploration",
		Rule:        "engine A on 2 buckets x 4 collections (the default one, the same collection name in two scopes, two collections in one scope) that all hold the same key names: after every step the same key is re-read in every other collection and bucket and must be byte-identical to its last read-back (isolation frame), every other collection's feed must stay silent and events must carry the addressed collection's id; periodic full sweeps; PurgeTombstones, DropDataStore + re-create, Touch in the op mix; (non-interference) two buckets get the same history on c0, one of them also gets writes, WithMeta writes, deletions and drops on c1/c2: non-stale views (5 parameter shapes x 4 views) and 3 SQL statements over c0 must return identical results in both; (stale DataStore) handle A drops a collection and creates another (or the same name again), handle B then issues 14 kinds of writes through the DataStore it still holds for the dropped collection: every key of every other collection must keep its read-back and their feeds stay silent; the non-interference run also compares the live feed of c0 (key, opcode, expiry, datatype) between the two buckets; an expression index is created on a sibling collection in half of the non-interference runs; (stale DataStore) a DataStore asked for by name after the drop and re-creation must be the collection that exists now; the bucket's earliest deadline may sit in a collection that is dropped before it comes due; (failed view query) a view query failing part-way on a sibling collection must not keep the other collections from answering (10 s per probe); the sibling's index is also created with a filter containing a top-level OR; sibling-expiry order far-deadline-in-lower-collection; (drop by a stranger) a feed started on a collection that is then dropped through a handle that never opened it and created again must not deliver the new collection's documents; cell = (op variant, pre-state class, outcome, bucket type)",
		Assumptions: append([]string{"inside engine A DropDataStore is exercised through the only open handle of the bucket (a sibling handle keeps a stale Collection object by design of the API); what that stale object may do to OTHER collections is judged by the stale-handle part, what it returns itself is not"}, kvAssume...),
		Parts: []sup.Part{
			exhaustivePart("exhaustive-sibling-has-key", c11),
			randomPart("random", 800, 12000, c11r),
			{Name: "expiry-in-sibling-collection", Timeout: 120 * time.Second, Count: func(t string) int { return tierN(t, 4, 40) }, Run: siblingExpiryBatch},
			nonInterferencePart("views-queries-noninterference", 200, 3000),
			{Name: "stale-handle-after-drop", Timeout: 60 * time.Second, Count: func(t string) int { return tierN(t, 120, 2400) }, Run: staleHandleScenario},
			{Name: "drop-through-a-handle-that-never-opened", Timeout: 60 * time.Second, Count: func(t string) int { return tierN(t, 60, 1200) }, Run: dropByStrangerScenario},
			{Name: "failed-view-query-on-a-sibling", Timeout: 150 * time.Second, Count: func(t string) int { return tierN(t, 6, 40) }, Run: failedViewQueryScenario},
		},
		Floor: cellsFloor(300),
	})
}

// badJSONPart is a random part whose generator injects unparseable xattr JSON.
func badJSONPart(name string, quick, thorough int, o kvOpts) sup.Part {
	p := randomPart(name, quick, thorough, o)
	return sup.Part{Name: name, Count: p.Count, Run: func(c *sup.Ctx) {
		r := rng.New(c.Seed, rng.HashString(c.Prop), rng.HashString(name), uint64(c.Local))
		cfg := o.Cfg(r, c.Local)
		sim, err := kv.NewSim(c, r, cfg, o.Sim)
		if err != nil {
			c.Incon("cannot set up scenario: " + err.Error())
			return
		}
		defer sim.Close()
		g := &kv.Gen{R: r, Keys: defaultKeys, Colls: cfg.Colls, Bkts: cfg.Buckets, Hnd: cfg.Handles, BadJSON: 4}
		for i := 0; i < o.Steps; i++ {
			sim.Do(g.Random(o.Profile))
		}
		c.Sample(sampleOf(sim, 10))
	}}
}
