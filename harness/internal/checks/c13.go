package checks

import (
	"fmt"
	"strings"
	"time"

	"verifharness/internal/life"
	"verifharness/internal/rng"
	"verifharness/internal/sup"
)

func lifeReporter(c *sup.Ctx, prop string, m **life.Model) func(kind, msg string) {
	return func(kind, msg string) {
		var steps []string
		if *m != nil {
			steps = (*m).Steps
		}
		c.Viol([]string{prop}, "life|"+kind, msg, map[string]any{"script": steps})
	}
}

const enumShards = 48

// enumScripts enumerates every script of step kinds of the given length (bounded-exhaustive), sharded over scenarios.
func enumScripts(c *sup.Ctx, length int) {
	total := 1
	for i := 0; i < length; i++ {
		total *= life.NSteps
	}
	var m *life.Model
	rep := lifeReporter(c, "C13", &m)
	n := 0
	for idx := c.Local; idx < total; idx += enumShards {
		m = life.NewModel(c.Tmp, rep, c.Cell)
		x := idx
		for s := 0; s < length; s++ {
			k := x % life.NSteps
			x /= life.NSteps
			m.EnumStep(k, idx/7+s)
			m.Invariants()
			if c.NViol() > 30 {
				break
			}
		}
		if n == 0 {
			c.Sample(map[string]any{"script": append([]string(nil), m.Steps...)})
		}
		m.Cleanup()
		n++
		c.Count("scripts", 1)
		c.Count("steps", int64(length))
		c.Count("closed_handle_calls_probed", int64(m.ClosedProbes))
	}
}

func randomScripts(c *sup.Ctx, r *rng.R) {
	var m *life.Model
	rep := lifeReporter(c, "C13", &m)
	for i := 0; i < 10; i++ {
		m = life.NewModel(c.Tmp, rep, c.Cell)
		for s := 0; s < 30; s++ {
			m.RandomStep(r)
			m.Invariants()
		}
		m.Cleanup()
		c.Count("scripts", 1)
		c.Count("steps", 30)
		c.Count("closed_handle_calls_probed", int64(m.ClosedProbes))
	}
	c.Sample(map[string]any{"script": m.Steps})
}

func stormScenario(c *sup.Ctx, r *rng.R) {
	disk := c.Local%2 == 1
	g := 4 + r.Intn(9)
	var ops int
	var problems []string
	kind := "warm"
	if (c.Local/2)%3 == 2 {
		kind = "cold-create" // the bucket does not exist at all when the goroutines open it
		ops, problems = life.ColdCreateStorm(c.Tmp, disk, 2+r.Intn(6), 6, r)
	} else if (c.Local/2)%3 == 1 {
		kind = "cold" // nobody holds the bucket open when the goroutines open it
		ops, problems = life.ColdOpenStorm(c.Tmp, disk, 2+r.Intn(6), 6, r)
	} else {
		ops, problems = life.OpenCloseStorm(c.Tmp, disk, g, 12, r)
	}
	c.Count("storms", 1)
	c.Count("storms_"+kind, 1)
	c.Count("storm_ops", int64(ops))
	c.Cell(fmt.Sprintf("storm|%s|g=%d", ifStr(disk, "disk", "mem"), g))
	seen := map[string]bool{}
	for _, p := range problems {
		kind, text := splitKind(p)
		if kind == "setup" {
			c.Incon(text)
			continue
		}
		if seen[kind] {
			continue
		}
		seen[kind] = true
		c.Viol([]string{"C13"}, "storm|"+kind+"|"+ifStr(disk, "disk", "mem"), text, nil)
		_ = kind
	}
	c.Sample(map[string]any{"disk": disk, "goroutines": g, "ops": ops, "problems": len(problems)})
}

func init() {
	sup.Register(&sup.Check{
		Prop: "C13", Level: "exploration",
		Rule: "model of the registry (name -> store, URL, kind, open handles) and of every handle (open / closed / store deleted); scripts over {OpenBucket x 3 modes on an in-memory name, x 3 modes on an on-disk name, the same name at another URL, a second name, Close, Close again, CloseAndDelete, write}: CloseAndDelete through a leftover handle of the incarnation that was deleted must not harm a bucket created at the same URL since; after cold-open storms the bucket must be deletable and re-creatable; every handle is probed after every step (a closed one also through feed, xattr, sub-document, counter and query entry points: all must fail with the bucket-closed error); bounded-exhaustive for all scripts of length 3 (quick) / 4 (thorough) plus random scripts of length 30; after EVERY step every handle ever created is probed (read+write: open -> success and earlier data visible, closed -> the bucket-closed error, store deleted -> some error, never a panic), GetBucketNames, the registry reference counts (verif-only accessor) and the existence of the database file are compared with the model; concurrent open/close storms on an already-created bucket (also under the race detector) with invariants at quiescence; step ForeignFile puts a file that is not rosmar's into the bucket directory (a directory without a bucket: ReOpenExisting must fail, CreateNew is not pinned; CloseAndDelete must still drop the registry entry); on-disk URLs are passed as rosmar://dir, file://dir and a plain path in turn; cold-create storms (the bucket does not exist when several goroutines open it: acknowledged writes must survive close and reopen); NamedDataStore among the closed-handle probes; (in-memory URL with a path) deleting an in-memory bucket opened at <dir>?mode=memory must leave the on-disk bucket in <dir> alone; cell = (step kind, mode, bucket type, registry state, outcome)",
		Assumptions: []string{"each on-disk directory is used with one bucket name only", "handles of a deleted bucket must fail with some error (the statement fixes the error class only for Close)"},
		Parts: []sup.Part{
			{Name: "enumerated-scripts", Timeout: 120 * time.Second, Count: func(t string) int { return enumShards }, Run: func(c *sup.Ctx) {
				enumScripts(c, tierN(c.Tier, 3, 4))
			}},
			{Name: "random-scripts", Timeout: 120 * time.Second, Count: func(t string) int { return tierN(t, 300, 20000) }, Run: func(c *sup.Ctx) {
				randomScripts(c, rng.New(c.Seed, rng.HashString("C13rand"), uint64(c.Local)))
			}},
			{Name: "storms", Timeout: 90 * time.Second, Count: func(t string) int { return tierN(t, 200, 12000) }, Run: func(c *sup.Ctx) {
				stormScenario(c, rng.New(c.Seed, rng.HashString("C13storm"), uint64(c.Local)))
			}},
			{Name: "in-memory-url-with-a-path", Timeout: 60 * time.Second, Count: func(t string) int { return tierN(t, 8, 80) }, Run: func(c *sup.Ctx) {
				c.Count("in_memory_buckets_deleted_next_to_an_on_disk_bucket", 1)
				c.Cell(fmt.Sprintf("memory-url|memFirst=%v", c.Local%2 == 1))
				for _, p := range life.MemoryURLWithPath(c.Tmp, c.Local%2 == 1) {
					kind, text := splitKind(p)
					if kind == "setup" {
						c.Incon(text)
						continue
					}
					c.Viol([]string{"C13"}, "storm|"+kind, text, nil)
				}
			}},
			{Name: "storms-race", Race: true, Timeout: 120 * time.Second, Count: func(t string) int { return tierN(t, 16, 160) }, Run: func(c *sup.Ctx) {
				stormScenario(c, rng.New(c.Seed, rng.HashString("C13stormrace"), uint64(c.Local)))
			}},
		},
		RaceOwner: raceOwner("C13"),
		Floor: func(tier string, m *sup.Merged) string {
			if m.Counts["scripts"] < 1500 {
				return "fewer than 1500 lifecycle scripts"
			}
			return ""
		},
	})
	_ = strings.Join
}
