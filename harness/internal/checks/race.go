package checks

import "strings"

// raceOwnerOf maps a race signature "funcA|funcB" (innermost rosmar functions of the two stacks) to the
// property that owns it, by the state the functions touch (DESIGN.md §1). One race is one finding.
func raceOwnerOf(sig string) string {
	has := func(subs ...string) bool {
		for _, s := range subs {
			if strings.Contains(sig, s) {
				return true
			}
		}
		return false
	}
	switch {
	case has("expiryManager", "doExpiration", "_closeSqliteDB", "CloseAndDelete", "runExpiry", "_scheduleExpiration"):
		return "C20"
	case has("bucketRegistry", "OpenBucket", "(*Bucket).Close", "(*Bucket).copy", "registerBucket", "unregisterBucket", "getCachedBucket", "deleteBucket"):
		return "C13"
	case has("HybridLogicalClock"):
		return "C04"
	case has("StartDCPFeed", "_stopFeeds", "dcpFeed", "queue["):
		return "C16"
	case has("postEvent", "postNewEvent"):
		return "C08"
	case has("updateView", "findView", "(*Collection).view", "PutDDoc", "DeleteDDoc", "forgetCachedViews", "getViewRows"):
		return "C12"
	}
	return "C03"
}

func raceOwner(prop string) func(string) bool {
	return func(sig string) bool { return raceOwnerOf(sig) == prop }
}
