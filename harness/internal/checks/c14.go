package checks

import (
	"fmt"
	"sync"
	"time"

	"verifharness/internal/rng"
	"verifharness/internal/rt"
	"verifharness/internal/sup"
)

const rtBatch = 12

// expiryBatch runs rtBatch real-time expiry scenarios concurrently (each owns a bucket and mostly sleeps).
func expiryBatch(c *sup.Ctx) {
	var wg sync.WaitGroup
	results := make([]rt.Result, rtBatch)
	for j := 0; j < rtBatch; j++ {
		i := c.Local*rtBatch + j
		spec := rt.Spec{
			Disk:     i%2 == 1,
			Intro:    rt.Introducers[i%len(rt.Introducers)],
			Order:    rt.Orders[(i/len(rt.Introducers)+i)%len(rt.Orders)],
			Relative: (i/2)%2 == 0,
			Coll:     (i / 4) % 2,
			Lead:     2 + (i/8)%2,
		}
		if spec.Intro == "SetWithMeta" {
			spec.Relative = false
		}
		if spec.Order == "later-first" || spec.Order == "later-after" {
			// the other, later deadline comes in through a varying entry point (a far Touch must not disarm the timer
			// either): the first passes over the order classes walk through a fixed list, relative forms first, so that
			// the quick tier meets the touches whatever the number of order classes; later passes draw from all entry points
			k := i / len(rt.Orders)
			cyc := []string{"Touch", "GetAndTouchRaw", "", "WriteSubDoc-then-Touch", "Set", "UpdateXattrs", "WriteWithXattrs"}
			if k < 2*len(cyc) {
				spec.OtherIntro = cyc[k%len(cyc)]
				spec.Relative = k < len(cyc) && spec.Intro != "SetWithMeta"
			} else if k%4 != 0 {
				spec.OtherIntro = rt.Introducers[(i/3+i/len(rt.Introducers))%len(rt.Introducers)]
			}
		}
		wg.Add(1)
		go func(j int, spec rt.Spec) {
			defer wg.Done()
			defer func() {
				if r := recover(); r != nil {
					results[j].Problems = append(results[j].Problems, fmt.Sprintf("panic|%v", r))
				}
			}()
			results[j] = rt.RunOne(c.Tmp, spec)
		}(j, spec)
	}
	wg.Wait()
	for _, res := range results {
		c.Count("expiry_scenarios", 1)
		c.Count("polling_reads", int64(res.Reads))
		c.Cell(fmt.Sprintf("expiry|%s|%s|%s", res.Spec.Intro, res.Spec.Order, ifStr(res.Spec.Relative, "relative", "absolute")))
		if res.Spec.OtherIntro != "" {
			c.Cell(fmt.Sprintf("expiry-pair|%s|%s|%s", res.Spec.Order, res.Spec.OtherIntro, ifStr(res.Spec.Relative, "relative", "absolute")))
		}
		if res.Incon != "" {
			c.Count("expiry_scenarios_inconclusive", 1)
			continue
		}
		if res.ShouldGo && res.GoneAfterMs >= 0 {
			c.Count("deadlines_observed_firing", 1)
			c.Max("max_lateness_ms", res.GoneAfterMs)
		}
		if !res.ShouldGo {
			c.Count("deadlines_observed_not_firing", 1)
		}
		c.Max("max_canary_lateness_ms", res.CanaryLateMs)
		seen := map[string]bool{}
		for _, p := range res.Problems {
			kind, text := splitKind(p)
			if seen[kind] {
				continue
			}
			seen[kind] = true
			props := []string{"C14"}
			if kind == "sibling" {
				props = []string{"C11", "C14"}
			}
			c.Viol(props, fmt.Sprintf("expiry|%s|%s|%s", kind, res.Spec.Intro, res.Spec.Order), text, res)
		}
		c.Sample(res)
	}
}

// sweepRaceBatch (C14): rewrites and touches that arrive while the expiry sweep for the old deadline is running.
func sweepRaceBatch(c *sup.Ctx) {
	const batch = 4
	var wg sync.WaitGroup
	results := make([]rt.SweepRaceResult, batch)
	for j := 0; j < batch; j++ {
		i := c.Local*batch + j
		wg.Add(1)
		go func(j, i int) {
			defer wg.Done()
			results[j] = rt.RunSweepRace(c.Tmp, i%2 == 1, rt.SweepVariants[(i/2)%len(rt.SweepVariants)], 1200+300*(i%3))
		}(j, i)
	}
	wg.Wait()
	for _, res := range results {
		c.Count("sweep_race_scenarios", 1)
		c.Cell(fmt.Sprintf("sweep-race|%s|%s", res.Variant, ifStr(res.Disk, "disk", "mem")))
		if res.Incon != "" {
			c.Count("sweep_race_scenarios_inconclusive", 1)
			continue
		}
		if res.Rewrote {
			c.Count("rewrites_acknowledged_during_a_sweep", 1)
		}
		for _, p := range res.Problems {
			kind, text := splitKind(p)
			c.Viol([]string{"C14"}, "sweep-race|"+kind+"|"+res.Variant, text, res)
		}
		c.Sample(res)
	}
}

// tombstoneExpiryBatch (C14): "cleared by delete" for deletions made through entry points that take an expiry.
func tombstoneExpiryBatch(c *sup.Ctx) {
	const batch = 6
	var wg sync.WaitGroup
	results := make([]rt.TombstoneExpiryResult, batch)
	for j := 0; j < batch; j++ {
		i := c.Local*batch + j
		wg.Add(1)
		go func(j, i int) {
			defer wg.Done()
			results[j] = rt.RunTombstoneExpiry(c.Tmp, i%2 == 1, rt.TombstoneVariants[(i/2)%len(rt.TombstoneVariants)])
		}(j, i)
	}
	wg.Wait()
	for _, res := range results {
		c.Count("tombstone_expiry_scenarios", 1)
		c.Cell(fmt.Sprintf("tombstone-expiry|%s|%s", res.Variant, ifStr(res.Disk, "disk", "mem")))
		if res.Incon != "" {
			continue
		}
		for _, p := range res.Problems {
			kind, text := splitKind(p)
			c.Viol([]string{"C14", "C08"}, "tombstone-expiry|"+kind+"|"+res.Variant, text, res)
		}
		c.Sample(res)
	}
}

func init() {
	rtPart := func(q, t int) sup.Part {
		return sup.Part{Name: "real-time-expiry", Timeout: 120 * time.Second, Count: func(tier string) int { return tierN(tier, q, t) }, Run: expiryBatch}
	}
	sup.Register(&sup.Check{
		Prop: "C14", Level: "exploration",
		Rule:        "(real time) each scenario owns a bucket (in-memory / on-disk, 2 collections, a live feed on each); a deadline 2-3 s ahead is introduced through one of 19 entry points (relative or absolute form) in one of 14 order classes (only deadline; a later deadline of another key set before / after it through Set or through any of the 19 entry points, far Touch included; shortened or lengthened by a rewrite or a Touch; kept by PreserveExpiry; cleared by a plain rewrite or by delete + re-create; already past; same key without expiry in the sibling collection; deadline in a collection that was swept once, dropped and created again; deadline behind a decoy deadline that was lengthened / cleared / deleted, so that the sweep armed for it finds nothing); GetExpiry must report the expiry in force; then only reads poll the key: a read that completes before second T and reports the key missing is a violation (sound under any load), and by T+3 s the document must be a tombstone and its deletion event must have reached the feed, or - for lengthened / cleared expiries - must still be readable, with a canary timer measuring scheduler lateness (> 500 ms makes the scenario inconclusive); (sweep race) 1200-1800 documents share one deadline and, while the sweep for it runs, the target (due at the same instant) is rewritten without / with a far expiry or touched: once that is acknowledged the document must stay readable; (deleted with an expiry) Update with a deleting callback / WriteCas without a body carry an expiry argument, or a document that has a near expiry is deleted through Delete / Remove / DeleteWithXattrs / WriteTombstoneWithXattrs / Update: at that time no second deletion event and no CAS change may happen to the tombstone; (expiry in force, sequential) engine A judges GetExpiry after every entry point and pre-state; (reopen) documents with a pending or overdue deadline survive a kill / close and are tombstoned after reopen in a fresh process; order class sibling-handle-closed (another handle of the bucket is opened and closed before / after the deadline is introduced); (forced windows) the expiry of a discarded Update / WriteUpdateWithXattrs attempt must not be stored; (deleted with an expiry) also tombstones created by WriteTombstoneWithXattrs / UpdateXattrDeleteBody / DeleteWithMeta with an expiry argument; order class earlier-deadline-dropped; order class far-deadline-in-lower-collection; cell = (introducing entry point, order class, relative/absolute)",
		Assumptions: []string{"inherently wall-clock: decided on this VM's clock; 'a few seconds' is fixed at B = 3 s (a correctly armed timer fires within 1 s of T)", "every other deadline of the same bucket is absent or >= T+8 s, so a wrongly armed timer cannot be mistaken for lateness"},
		Parts: append(append([]sup.Part{rtPart(20, 300),
			{Name: "rewrite-during-sweep", Timeout: 120 * time.Second, Count: func(t string) int { return tierN(t, 5, 60) }, Run: sweepRaceBatch},
			{Name: "forced-windows", Timeout: 60 * time.Second, Count: func(t string) int { return tierN(t, 2, 20) }, Run: func(c *sup.Ctx) {
				windowScenario(c, rng.New(c.Seed, rng.HashString("C14win"), uint64(c.Local)), []string{"C02", "C03", "C18"})
			}},
			{Name: "deleted-with-an-expiry", Timeout: 120 * time.Second, Count: func(t string) int { return tierN(t, 4, 24) }, Run: tombstoneExpiryBatch},
		}, c14SeqParts()...), crashPart("pending-expiry", 30, 300, pendingExpiryScenario)),
		Floor: func(tier string, m *sup.Merged) string {
			if m.Counts["deadlines_observed_firing"] < 100 {
				return "fewer than 100 deadlines observed firing"
			}
			return ""
		},
	})
}

// siblingExpiryBatch (C11): the same key lives in two collections, only one copy has a deadline; the timer must
// expire that copy alone.
func siblingExpiryBatch(c *sup.Ctx) {
	var wg sync.WaitGroup
	results := make([]rt.Result, rtBatch)
	for j := 0; j < rtBatch; j++ {
		i := c.Local*rtBatch + j
		spec := rt.Spec{Disk: i%2 == 1, Intro: rt.Introducers[i%len(rt.Introducers)], Order: "sibling-collection", Relative: (i/2)%2 == 0, Coll: (i / 4) % 2, Lead: 2}
		if (i/8)%3 == 2 {
			spec.Order = "earlier-deadline-dropped" // what is done to the sibling collection (its drop) must not cost this one its expiry
		} else if (i/8)%3 == 1 {
			spec.Order = "far-deadline-in-lower-collection" // nor may a far-away deadline in the sibling collection
		}
		if spec.Intro == "SetWithMeta" {
			spec.Relative = false
		}
		wg.Add(1)
		go func(j int, spec rt.Spec) {
			defer wg.Done()
			results[j] = rt.RunOne(c.Tmp, spec)
		}(j, spec)
	}
	wg.Wait()
	for _, res := range results {
		c.Count("sibling_expiry_scenarios", 1)
		c.Cell(fmt.Sprintf("sibling-expiry|%s|c%d", res.Spec.Intro, res.Spec.Coll))
		if res.Incon != "" {
			continue
		}
		for _, p := range res.Problems {
			kind, text := splitKind(p)
			if kind == "sibling" || res.Spec.Order == "earlier-deadline-dropped" || res.Spec.Order == "far-deadline-in-lower-collection" {
				c.Viol([]string{"C11", "C14"}, fmt.Sprintf("expiry|%s|%s|%s", kind, res.Spec.Intro, res.Spec.Order), text, res)
				break
			}
		}
	}
}
