package checks

import (
	"fmt"
	"strings"
	"time"

	"verifharness/internal/life"
	"verifharness/internal/rng"
	"verifharness/internal/sup"
)

var shutdownKinds = []string{"close-all", "delete", "drop", "close-one", "close+delete"}
var shutdownPoints = []string{"", "close.mid", "event.prepost", "feed.registered", "view.update", "txn.postcommit", "expiry.fire", "cas.between"}
var activitySets = [][]string{
	{"writers"}, {"feeds", "writers"}, {"views", "writers"}, {"expiry"}, {"expiry", "writers"}, {"touch"},
	{"feeds"}, {"views"}, {"writers", "feeds", "views", "expiry"}, {"mass-expiry"}, {"mass-expiry", "writers"},
	{"ddocs"}, {"ddocs", "writers", "views"},
}

func shutdownScenario(c *sup.Ctx, r *rng.R, race bool) {
	s := &life.ShutdownScenario{
		Disk:         c.Local%2 == 1,
		Handles:      1 + (c.Local/2)%2,
		Shutdown:     shutdownKinds[(c.Local/4)%len(shutdownKinds)],
		Activity:     activitySets[(c.Local/16)%len(activitySets)],
		Point:        shutdownPoints[r.Intn(len(shutdownPoints))],
		Nth:          1 + r.Intn(6),
		StaleSibling: (c.Local/8)%3 == 2,
	}
	if race {
		// fewer scenarios run under the race detector: walk through all activity sets instead of in blocks of 16
		s.Activity = activitySets[(c.Local*5+3)%len(activitySets)]
	}
	for _, a := range s.Activity {
		if a == "mass-expiry" && c.Local%3 != 0 {
			s.Point = "expiry.fire" // shut down while the long expiration run is under way
		}
	}
	if s.Point == "expiry.fire" {
		s.Nth = 1
		hasExp := false
		for _, a := range s.Activity {
			if a == "expiry" || a == "touch" || a == "mass-expiry" {
				hasExp = true
			}
		}
		if !hasExp {
			s.Activity = append(append([]string(nil), s.Activity...), "expiry")
		}
	}
	s.Count = c.Count
	s.Report = func(kind, msg string) {
		if kind == "setup" {
			c.Incon(msg)
			return
		}
		c.Viol([]string{"C20"}, "shutdown|"+kind, msg, map[string]any{"disk": s.Disk, "handles": s.Handles, "shutdown": s.Shutdown, "activity": s.Activity, "hook": s.Point, "nth": s.Nth, "stale_sibling": s.StaleSibling})
	}
	c.Cell(fmt.Sprintf("shutdown|%s|%s|%s|%s|h=%d", s.Shutdown, strings.Join(s.Activity, "+"), s.Point, ifStr(s.Disk, "disk", "mem"), s.Handles))
	s.Run(c.Tmp, r)
	c.Count("shutdown_scenarios", 1)
	c.Sample(map[string]any{"disk": s.Disk, "handles": s.Handles, "shutdown": s.Shutdown, "activity": s.Activity, "hook_point": s.Point, "nth_hit": s.Nth})
}

func init() {
	sup.Register(&sup.Check{
		Prop: "C20", Level: "exploration",
		Rule:        "child worker processes run shutdown scenarios: {writers, feed start-up and delivery, non-stale and updateAfter view queries, documents expiring in 1-2 s, Touch-introduced expiry} in flight (in a third of the scenarios after a bucket of the same name and URL was deleted and while its leftover handle is closed) while {Close of every handle, Close of one of several, CloseAndDelete, DropDataStore} fires after a PRNG delay or at the n-th hit of a hook point (close.mid, event.prepost, feed.registered, view.update, txn.postcommit, cas.between, expiry.fire); every API call runs under recover() (a panic in the caller's goroutine is a witness), a panic in a background goroutine kills the worker (the supervisor records stderr and the scenario), calls that do not return within 20 s are reported with the rosmar functions blocked on locks, an unrelated bucket and (where the store survives) a fresh handle must keep working, the worker waits past every armed expiry deadline, and after the store is shut down the goroutine profile must hold no dcpFeed.run / runExpiry / updateView goroutine; also under the race detector; design-document activity (PutDDoc / GetDDocs / DeleteDDoc through the handles being closed); after CloseAndDelete through one of two handles a live feed through the survivor must be refused; feed starts include a multi-collection feed one of whose parts cannot start; shutdown kind close+delete (last open handle closed while the bucket is deleted through a handle closed before); cell = (shutdown call, activities, hook point, bucket type, handles)",
		Assumptions: []string{"'never deadlocks' is decided as 'no call exceeded 20 s with goroutines waiting on rosmar locks'; shorter stalls are not reported", "schedules are sampled; hook points place the shutdown inside the named windows"},
		Parts: []sup.Part{
			{Name: "shutdown-scenarios", Timeout: 120 * time.Second, Count: func(t string) int { return tierN(t, 520, 7000) }, Run: func(c *sup.Ctx) {
				shutdownScenario(c, rng.New(c.Seed, rng.HashString("C20"), uint64(c.Local)), false)
			}},
			{Name: "shutdown-scenarios-race", Race: true, Timeout: 180 * time.Second, Count: func(t string) int { return tierN(t, 72, 600) }, Run: func(c *sup.Ctx) {
				shutdownScenario(c, rng.New(c.Seed, rng.HashString("C20race"), uint64(c.Local)), true)
			}},
		},
		RaceOwner: raceOwner("C20"),
		Floor: func(tier string, m *sup.Merged) string {
			if m.Counts["shutdown_scenarios"] < 200 {
				return "fewer than 200 shutdown scenarios completed"
			}
			return ""
		},
	})
}
