package checks

import "verifharness/internal/sup"

// Temporary registration of checks whose concurrent parts are not built yet.
func init() {
	sup.Register(&sup.Check{Prop: "C14", Level: "exploration", Rule: "tbd", Assumptions: kvAssume, Parts: c14SeqParts(), Floor: cellsFloor(100)})
}
