package checks

import "verifharness/internal/sup"

// Temporary registration of checks whose concurrent parts are not built yet.
func init() {
	sup.Register(&sup.Check{Prop: "C14", Level: "exploration", Rule: "tbd", Assumptions: kvAssume, Parts: append(c14SeqParts(), crashPart("pending-expiry", 30, 300, pendingExpiryScenario)), Floor: cellsFloor(100)})
}
